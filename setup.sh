#!/usr/bin/env bash
# Builds /verif/.venv offline: python 3.12 venv on top of /venv's site-packages
# (cryptography, requests, pynbt, pytest) plus z3/cvc5/deal/crosshair from the wheelhouse.
set -euo pipefail
HERE="$(cd "$(dirname "${BASH_SOURCE[0]}")" && pwd)"
V="$HERE/.venv"
STAMP="$V/.ok"
if [ -f "$STAMP" ] && "$V/bin/python" -c 'import z3, cvc5, jsonschema' >/dev/null 2>&1; then
  exit 0
fi
rm -rf "$V"
/venv/bin/python -m venv "$V"
SP="$("$V/bin/python" -c 'import sysconfig; print(sysconfig.get_paths()["purelib"])')"
echo "import site; site.addsitedir('/venv/lib/python3.12/site-packages')" > "$SP/_verif_overlay.pth"
PIP_NO_INDEX=1 "$V/bin/python" -m pip install -q --no-index --find-links /opt/veriftools/wheels \
   z3-solver cvc5 deal icontract crosshair-tool hypothesis jsonschema >/dev/null
"$V/bin/python" -c 'import z3, cvc5, jsonschema, cryptography, requests, pynbt'
touch "$STAMP"
