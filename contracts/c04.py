"""C04 — block positions use the 26/12/26-bit packing of the connection's protocol.

Functions under contract:
  basic.Position.send_with_context / read_with_context
  block_change_packet.MultiBlockChangePacket.ChunkSectionPos.send / read
  block_change_packet.MultiBlockChangePacket.Record.send_with_context / read_with_context
The version dimension is one symbolic chronological index i over ALL known
versions (S4 contract for ConnectionContext.protocol_later_eq, proved in C08).
The oracle is the protocol's packing (spec/wire*.py), not the sibling function.
"""
import io
import itertools
import z3

import minecraft
from minecraft.networking.types import basic
from minecraft.networking.types.basic import Position, UnsignedLong, VarInt, VarLong
from minecraft.networking.packets.clientbound.play.block_change_packet import MultiBlockChangePacket

from pyvc.driver import Unit
from pyvc.values import SInt, SBool, SBytes, W, mk_bool, And, Or, Not, Implies
from pyvc.models import OutSocket, InStream
from pyvc.interp import PyRaise
from pyvc.harness import native_call, Sink
from pyvc.engine import EngineError
from spec import wire, wire_sym as ws
from .common import (install_version_contracts, sym_context, index_of, raw, real_context, protocol_of_index,
                     unroll_varint, known_count)

ASSUMPTIONS = [
    'struct.pack/unpack(">Q"/">B"): big-endian bytes of exactly 8/1 bytes, struct.error out of range (assumed, sampled)',
    'S4: ConnectionContext.protocol_later_eq(K) <=> idx(K) <= idx(self.protocol_version) (contract proved in C08)',
    'UnsignedLong/UnsignedByte read/send are one-line struct wrappers and are inlined (their bodies are executed)',
]

POS_SEND = 'minecraft.networking.types.basic.Position.send_with_context'
POS_READ = 'minecraft.networking.types.basic.Position.read_with_context'
BC = 'minecraft.networking.packets.clientbound.play.block_change_packet.MultiBlockChangePacket.'

I477 = minecraft.PROTOCOL_VERSION_INDICES[477]
I404 = minecraft.PROTOCOL_VERSION_INDICES[404]
I741 = minecraft.PROTOCOL_VERSION_INDICES[741]


def _conc_pos(model, names=('x', 'y', 'z')):
    return tuple(int(model.get(n, 0)) for n in names)


def spec_position_bytes(i, x, y, z):
    """Required bytes for known-version index i, or the two admissible ones in the snapshot gap."""
    a = wire.be(wire.pack_xzy(x, y, z), 8, False)
    b = wire.be(wire.pack_xyz(x, y, z), 8, False)
    if i >= I477:
        return (a,)
    if i <= I404:
        return (b,)
    return (a, b)


class PositionSend(Unit):
    prop = 'C04'
    name = 'C04.position.send'
    functions = (POS_SEND, POS_READ + ' [inverse on encoder output]')
    uses = ('S4 protocol_later_eq',)
    trusted = ('struct.pack/unpack >Q',)

    def setup(self, I):
        install_version_contracts(I)

    def run(self, I):
        E = I.E
        ctx, i = sym_context(I, 'known')
        x = E.new_int('x', -(1 << 25), (1 << 25) - 1)
        y = E.new_int('y', -(1 << 11), (1 << 11) - 1)
        z = E.new_int('z', -(1 << 25), (1 << 25) - 1)
        self.sym = (i, x, y, z)
        sock = OutSocket()
        try:
            I.call(raw(Position, 'send_with_context'), (x, y, z), sock, ctx)
        except PyRaise as e:
            E.check('send.no-raise', False, note='raised %r for an in-range triple' % (e.exc,))
            return ('raise', e.exc)
        ts = sock.out.byte_terms()
        E.check('send.eight-bytes', ts is not None and len(ts) == 8)
        if ts is None or len(ts) != 8:
            return ('out', sock.out)
        xzy = SBool(ws.eq_bytes(ts, ws.be_terms(ws.pack_xzy(x.t, y.t, z.t), 8)))
        xyz = SBool(ws.eq_bytes(ts, ws.be_terms(ws.pack_xyz(x.t, y.t, z.t), 8)))
        E.check('send.layout-1.14+', Implies(i >= I477, xzy), note='protocol >= 477: x|z|y (26/26/12)')
        E.check('send.layout-pre-1.14', Implies(i <= I404, xyz), note='protocol <= 404: x|y|z (26/12/26)')
        E.check('send.layout-snapshots', Or(xzy, xyz), note='1.14 snapshots: one of the two layouts')
        if E.model(i >= I477) is not None:
            E.must_fail('send.layout-swapped', Implies(i >= I477, xyz))
        # decoder under the same context is the inverse (this also forces both to switch at the same index)
        st = InStream(I, sock.out)
        try:
            p = I.call(raw(Position, 'read_with_context'), st, ctx)
        except PyRaise as e:
            E.check('read.inverse', False, note='decoder raised %r' % (e.exc,))
            return ('out', sock.out)
        E.check('read.type', type(p) is Position)
        E.check('read.inverse', And(p.x == x, p.y == y, p.z == z))
        E.check('read.consumed', st.remaining().length() == 0)
        return ('out', sock.out)

    def on_path(self, I, rec):
        m = I.E.model()
        if m is None or rec['outcome'][0] != 'out':
            return
        i, x, y, z = [m.value(v) for v in self.sym]
        s = Sink()
        kind, val = native_call(Position.send_with_context, (x, y, z), s, real_context(i))
        self.conformance_count += 1
        if kind != 'ok' or s.data != m.value(rec['outcome'][1]):
            raise EngineError('conformance: Position.send %r @%d native %r vs symbolic %r'
                              % ((x, y, z), i, s.data, m.value(rec['outcome'][1])))

    def replay(self, model, label):
        rp = replay_position(int(model.get('i', 0)), *_conc_pos(model))
        return rp if rp['confirmed'] or not label.startswith('frame.') else replay_position_history()

    def bounded(self, rng, tier):
        fails, cnt = [], 0
        rp = replay_position_history()
        cnt += rp['n']
        if rp['confirmed']:
            fails.append(dict(call=rp['call'], observed=rp['observed'], witness='position-history'))
        bx = [-(1 << 25), -(1 << 25) + 1, -1, 0, 1, (1 << 25) - 1]
        by = [-(1 << 11), -1, 0, 1, (1 << 11) - 1]
        idxs = range(known_count()) if tier == 'thorough' else \
            sorted({0, I404 - 1, I404, I404 + 1, I477 - 1, I477, known_count() - 1,
                    minecraft.PROTOCOL_VERSION_INDICES[443] - 1, minecraft.PROTOCOL_VERSION_INDICES[443]})
        for i in idxs:
            for (x, y, z) in itertools.product(bx, by, bx):
                cnt += 1
                rp = replay_position(i, x, y, z)
                if rp['confirmed']:
                    fails.append(dict(call=rp['call'], observed=rp['observed'], witness='position@%d' % i))
                    break
        return dict(name='C04.position.boundary-product', evaluations=cnt, failures=fails,
                    bound='%d version indices x 6x5x6 boundary triples; one context taken through 6 x 6 version histories' % len(list(idxs)))


def replay_position(i, x, y, z):
    ctx = real_context(i)
    s = Sink()
    kind, val = native_call(Position.send_with_context, (x, y, z), s, ctx)
    call = 'Position.send_with_context(%r, sink, protocol=%d)' % ((x, y, z), protocol_of_index(i))
    bad = None
    if kind != 'ok':
        bad = '%s %r' % (kind, val)
    elif s.data not in spec_position_bytes(i, x, y, z):
        bad = 'sent %s, protocol prescribes %s' % (s.data.hex(), ' or '.join(b.hex() for b in spec_position_bytes(i, x, y, z)))
    else:
        k2, p = native_call(Position.read_with_context, io.BytesIO(s.data), ctx)
        if k2 != 'ok' or tuple(p) != (x, y, z):
            bad = 'decoded back as %s %r' % (k2, p)
    return dict(confirmed=bad is not None, call=call, observed=bad or 'conforms')


def replay_position_history():
    """ONE ConnectionContext whose protocol_version is rewritten between calls, as Connection.connect() does on every
    (re)connect: each call must follow the version the context has AT THAT MOMENT (seeded change C04-r9: layout decision
    memoised on the context).  Position, and the block record / section position that also take the context."""
    idxs = sorted({0, I404, I477, known_count() - 1, minecraft.PROTOCOL_VERSION_INDICES[443] - 1,
                   minecraft.PROTOCOL_VERSION_INDICES[443]})
    x, y, z = 1200, 65, -420
    n = 0
    for first in idxs:
        ctx = real_context(first)
        hist = []
        for i in [first] + [j for j in idxs if j != first]:
            n += 1
            ctx.protocol_version = protocol_of_index(i)
            hist.append(protocol_of_index(i))
            s = Sink()
            kind, val = native_call(Position.send_with_context, (x, y, z), s, ctx)
            bad = None
            if kind != 'ok':
                bad = '%s %r' % (kind, val)
            elif s.data not in spec_position_bytes(i, x, y, z):
                bad = 'sent %s, protocol %d prescribes %s' % (s.data.hex(), protocol_of_index(i),
                                                               ' or '.join(b.hex() for b in spec_position_bytes(i, x, y, z)))
            else:
                sp = spec_position_bytes(i, x, y, z)
                want = sp[0] if len(sp) == 1 else s.data      # in the snapshot gap either layout is admissible: the encoder's choice
                k2, p = native_call(Position.read_with_context, io.BytesIO(want), ctx)
                if k2 != 'ok' or tuple(p) != (x, y, z):
                    bad = 'bytes %s decoded as %s %r under protocol %d' % (want.hex(), k2, p, protocol_of_index(i))
            if bad:
                return dict(confirmed=True, n=n, call='one ConnectionContext taken through protocols %r, Position %r written / read at '
                            'each step' % (hist, (x, y, z)), observed=bad)
    return dict(confirmed=False, n=n, call='context histories over %d version indices' % len(idxs), observed='conform')


class PositionMonotone(Unit):
    """Single switch-over: for version indices i <= j, if i already uses the 1.14 layout then so does j."""
    prop = 'C04'
    name = 'C04.position.single-switch'
    functions = (POS_SEND + ' [monotone in the version index]',)
    uses = ('S4 protocol_later_eq',)

    def setup(self, I):
        install_version_contracts(I)

    def run(self, I):
        E = I.E
        ctx_i, i = sym_context(I, 'known', 'i')
        ctx_j, j = sym_context(I, 'known', 'j')
        E.assume(i <= j)
        t = (3, 5, 7)                       # a triple on which the two layouts differ
        a, b = OutSocket(), OutSocket()
        I.call(I.getattr_(Position, 'send_with_context'), t, a, ctx_i)
        I.call(I.getattr_(Position, 'send_with_context'), t, b, ctx_j)
        new = wire.be(wire.pack_xzy(*t), 8, False)
        E.check('switch.monotone', Implies(a.out == new, b.out == new),
                note='once the x|z|y layout is in use it stays in use for all later versions')
        return None

    def replay(self, model, label):
        i, j = int(model.get('i', 0)), int(model.get('j', 0))
        t = (3, 5, 7)
        outs = []
        for k in (i, j):
            s = Sink()
            Position.send_with_context(t, s, real_context(k))
            outs.append(s.data)
        new = wire.be(wire.pack_xzy(*t), 8, False)
        bad = outs[0] == new and outs[1] != new
        return dict(confirmed=bad, call='Position.send_with_context(%r) at protocols %d and %d'
                    % (t, protocol_of_index(i), protocol_of_index(j)),
                    observed='%s then %s' % (outs[0].hex(), outs[1].hex()))


class PositionAnyWord(Unit):
    """Decoding ANY 64-bit word and re-encoding it gives the same word; decoded coordinates are in range."""
    prop = 'C04'
    name = 'C04.position.any-word'
    functions = (POS_READ + ' [every 64-bit word]', POS_SEND)
    uses = ('S4 protocol_later_eq',)
    trusted = ('struct.pack/unpack >Q',)

    def setup(self, I):
        install_version_contracts(I)

    def run(self, I):
        E = I.E
        ctx, i = sym_context(I, 'known')
        word = [E.new_byte('w%d' % k) for k in range(8)]
        st = InStream(I, SBytes(word))
        try:
            p = I.call(raw(Position, 'read_with_context'), st, ctx)
        except PyRaise as e:
            E.check('read.total', False, note='decoder raised %r on a full 8-byte word' % (e.exc,))
            return None
        E.check('read.range', And(p.x >= -(1 << 25), p.x < (1 << 25), p.y >= -(1 << 11), p.y < (1 << 11),
                                  p.z >= -(1 << 25), p.z < (1 << 25)), note='sign extension puts every axis in range')
        wt = z3.ZeroExt(W - 64, z3.Concat(*[b[1] for b in word]))
        xzy = SBool(wt == ws.pack_xzy(p.x.t, p.y.t, p.z.t))
        xyz = SBool(wt == ws.pack_xyz(p.x.t, p.y.t, p.z.t))
        E.check('read.layout-1.14+', Implies(i >= I477, xzy))
        E.check('read.layout-pre-1.14', Implies(i <= I404, xyz))
        sock = OutSocket()
        I.call(raw(Position, 'send_with_context'), p, sock, ctx)
        E.check('reencode.same-word', sock.out == SBytes(word))
        return None

    def replay(self, model, label):
        i = int(model.get('i', 0))
        data = bytes(int(model.get('w%d' % k, 0)) & 0xFF for k in range(8))
        ctx = real_context(i)
        kind, p = native_call(Position.read_with_context, io.BytesIO(data), ctx)
        bad = None
        if kind != 'ok':
            bad = '%s %r' % (kind, p)
        else:
            s = Sink()
            Position.send_with_context(p, s, ctx)
            want = spec_position_bytes(i, p.x, p.y, p.z)
            if not (-(1 << 25) <= p.x < (1 << 25) and -(1 << 11) <= p.y < (1 << 11) and -(1 << 25) <= p.z < (1 << 25)):
                bad = 'decoded %r: a coordinate outside its signed range' % (p,)
            elif s.data != data:
                bad = 'decoded %r, re-encoded %s' % (p, s.data.hex())
            elif data not in want:
                bad = 'decoded %r whose prescribed encoding is %s' % (p, ' or '.join(b.hex() for b in want))
        return dict(confirmed=bad is not None, call='Position.read_with_context(%s, protocol=%d)'
                    % (data.hex(), protocol_of_index(i)), observed=bad or 'conforms')

    def bounded(self, rng, tier):
        fails, cnt = [], 0
        words = [1 << b for b in range(64)] + [(1 << 64) - 1 - (1 << b) for b in range(64)] + [0, (1 << 64) - 1]
        words += [rng.getrandbits(64) for _ in range(200)]
        for i in (0, I404, I404 + 1, I477 - 1, I477, known_count() - 1):
            for w in words:
                cnt += 1
                data = w.to_bytes(8, 'big')
                rp = self.replay(dict([('i', i)] + [('w%d' % k, data[k]) for k in range(8)]), '')
                if rp['confirmed']:
                    fails.append(dict(call=rp['call'], observed=rp['observed'], witness='word@%d' % i))
                    break
        return dict(name='C04.position.single-bit-words', evaluations=cnt, failures=fails,
                    bound='6 version indices x (every single-bit and all-but-one-bit word + 200 seeded random)')


class SectionPos(Unit):
    prop = 'C04'
    name = 'C04.chunk-section-pos'
    functions = (BC + 'ChunkSectionPos.send', BC + 'ChunkSectionPos.read')
    trusted = ('struct.pack/unpack >Q',)
    CSP = MultiBlockChangePacket.ChunkSectionPos

    def run(self, I):
        E = I.E
        x = E.new_int('x', -(1 << 21), (1 << 21) - 1)
        y = E.new_int('y', -(1 << 19), (1 << 19) - 1)
        z = E.new_int('z', -(1 << 21), (1 << 21) - 1)
        sock = OutSocket()
        try:
            I.call(raw(self.CSP, 'send'), self.CSP, (x, y, z), sock)
        except PyRaise as e:
            E.check('send.no-raise', False, note='raised %r' % (e.exc,))
            return None
        ts = sock.out.byte_terms()
        E.check('send.eight-bytes', ts is not None and len(ts) == 8)
        E.check('send.layout', SBool(ws.eq_bytes(ts, ws.be_terms(ws.pack_section(x.t, y.t, z.t), 8))),
                note='x 22 bits | z 22 bits | y 20 bits')
        E.must_fail('send.layout-wrong', SBool(ws.eq_bytes(ts, ws.be_terms(ws.pack_section(x.t, z.t, y.t), 8))))
        st = InStream(I, sock.out)
        try:
            p = I.call(raw(self.CSP, 'read'), self.CSP, st)
        except PyRaise as e:
            E.check('read.inverse', False, note='decoder raised %r' % (e.exc,))
            return None
        E.check('read.type', type(p) is self.CSP)
        E.check('read.inverse', And(p.x == x, p.y == y, p.z == z))
        E.check('read.consumed', st.remaining().length() == 0)
        return None

    def replay(self, model, label):
        x, y, z = _conc_pos(model)
        return replay_section(x, y, z)

    def bounded(self, rng, tier):
        fails, cnt = [], 0
        bx = [-(1 << 21), -(1 << 21) + 1, -1, 0, 1, (1 << 21) - 1]
        by = [-(1 << 19), -1, 0, 1, (1 << 19) - 1]
        for (x, y, z) in itertools.product(bx, by, bx):
            cnt += 1
            rp = replay_section(x, y, z)
            if rp['confirmed']:
                fails.append(dict(call=rp['call'], observed=rp['observed'], witness='section'))
                break
        return dict(name='C04.section.boundary-product', evaluations=cnt, failures=fails, bound='6x5x6 boundary triples')


def replay_section(x, y, z):
    CSP = MultiBlockChangePacket.ChunkSectionPos
    s = Sink()
    kind, val = native_call(CSP.send, (x, y, z), s)
    want = wire.be(wire.pack_section(x, y, z), 8, False)
    bad = None
    if kind != 'ok':
        bad = '%s %r' % (kind, val)
    elif s.data != want:
        bad = 'sent %s, protocol prescribes %s' % (s.data.hex(), want.hex())
    else:
        k2, p = native_call(CSP.read, io.BytesIO(s.data))
        if k2 != 'ok' or tuple(p) != (x, y, z):
            bad = 'decoded back as %s %r' % (k2, p)
    return dict(confirmed=bad is not None, call='ChunkSectionPos.send(%r)' % ((x, y, z),), observed=bad or 'conforms')


class BlockRecord(Unit):
    """Multi-block-change record on both sides of protocol 741."""
    prop = 'C04'
    name = 'C04.record'
    functions = (BC + 'Record.send_with_context', BC + 'Record.read_with_context')
    uses = ('S4 protocol_later_eq',)
    trusted = ('struct.pack/unpack >B, "B"',)
    Rec = MultiBlockChangePacket.Record

    def setup(self, I):
        install_version_contracts(I)
        unroll_varint(I)

    def run(self, I):
        E = I.E
        ctx, i = sym_context(I, 'known')
        new = I.truth(i >= I741)
        x = E.new_int('x', 0, 15)
        z = E.new_int('z', 0, 15)
        y = E.new_int('y', 0, 15 if new else 255)
        b = E.new_int('b', 0, (1 << 52) - 1 if new else (1 << 32) - 1)
        self.sym = (i, x, y, z, b)
        rec = self.Rec(x=x, y=y, z=z, block_state_id=b)
        sock = OutSocket()
        try:
            I.call(raw(self.Rec, 'send_with_context'), self.Rec, rec, sock, ctx)
        except PyRaise as e:
            E.check('send.no-raise', False, note='raised %r' % (e.exc,))
            return None
        ts = sock.out.byte_terms()
        E.check('send.bytes', ts is not None)
        if ts is None:
            return None
        if new:
            v = (b.t << 12) | (x.t << 8) | (z.t << 4) | y.t
            k = len(ts)
            E.check('send.layout-741+', SBool(z3.And(ws.varint_len_cond(v, k), ws.eq_bytes(ts, ws.varint_terms(v, k)))),
                    note='VarLong(block_state << 12 | x << 8 | z << 4 | y)')
        else:
            k = len(ts) - 2
            E.check('send.layout-pre-741',
                    SBool(z3.And(ts[0] == z3.Extract(7, 0, (x.t << 4) | z.t), ts[1] == z3.Extract(7, 0, y.t),
                                 ws.varint_len_cond(b.t, k), ws.eq_bytes(ts[2:], ws.varint_terms(b.t, k)))) if k >= 1 else False,
                    note='UnsignedByte(x << 4 | z), UnsignedByte(y), VarInt(block_state)')
        st = InStream(I, sock.out)
        try:
            r = I.call(raw(self.Rec, 'read_with_context'), self.Rec, st, ctx)
        except PyRaise as e:
            E.check('read.inverse', False, note='decoder raised %r' % (e.exc,))
            return None
        E.check('read.type', type(r) is self.Rec)
        E.check('read.inverse', And(r.x == x, r.y == y, r.z == z, r.block_state_id == b))
        E.check('read.consumed', st.remaining().length() == 0)
        return ('out', sock.out)

    def on_path(self, I, rec):
        m = I.E.model()
        if m is None or not rec['outcome']:
            return
        i, x, y, z, b = [m.value(v) for v in self.sym]
        s = Sink()
        kind, val = native_call(self.Rec.send_with_context, self.Rec(x=x, y=y, z=z, block_state_id=b), s, real_context(i))
        self.conformance_count += 1
        if kind != 'ok' or s.data != m.value(rec['outcome'][1]):
            raise EngineError('conformance: Record.send native %r vs symbolic %r' % (s.data, m.value(rec['outcome'][1])))

    def replay(self, model, label):
        g = lambda k: int(model.get(k, 0))
        return replay_record(g('i'), g('x'), g('y'), g('z'), g('b'))

    def bounded(self, rng, tier):
        fails, cnt = [], 0
        for i in (0, I741 - 1, I741, known_count() - 1):
            new = i >= I741
            for x, z in ((0, 0), (15, 0), (0, 15), (15, 15), (5, 10)):
                for y in ((0, 15, 7) if new else (0, 255, 128, 15)):
                    for b in (0, 1, 127, 128, (1 << 32) - 1) + (((1 << 52) - 1, 1 << 51) if new else ()):
                        cnt += 1
                        rp = replay_record(i, x, y, z, b)
                        if rp['confirmed']:
                            fails.append(dict(call=rp['call'], observed=rp['observed'], witness='record@%d' % i))
        return dict(name='C04.record.boundaries', evaluations=cnt, failures=fails[:1],
                    bound='4 version indices x boundary x/z/y/block-state values')


def replay_record(i, x, y, z, b):
    Rec = MultiBlockChangePacket.Record
    ctx = real_context(i)
    s = Sink()
    kind, val = native_call(Rec.send_with_context, Rec(x=x, y=y, z=z, block_state_id=b), s, ctx)
    if i >= I741:
        want = wire.varint_enc(b << 12 | x << 8 | z << 4 | y)
    else:
        want = bytes([x << 4 | z, y]) + wire.varint_enc(b)
    bad = None
    if kind != 'ok':
        bad = '%s %r' % (kind, val)
    elif s.data != want:
        bad = 'sent %s, protocol prescribes %s' % (s.data.hex(), want.hex())
    else:
        k2, r = native_call(Rec.read_with_context, io.BytesIO(s.data), ctx)
        if k2 != 'ok' or (r.x, r.y, r.z, r.block_state_id) != (x, y, z, b):
            bad = 'decoded back as %s %r' % (k2, r)
    return dict(confirmed=bad is not None, call='Record(x=%d,y=%d,z=%d,block_state_id=%d).send @protocol %d'
                % (x, y, z, b, protocol_of_index(i)), observed=bad or 'conforms')


def units(tier):
    from . import c08
    ou = c08.OrderUnit()
    # which of the two layouts is used is decided by the version-order predicates (switch at 443): their contract - a strict
    # total order by publication position over every known version - is claimed here too
    ou.prop, ou.name = 'C04', 'C04.version-order'
    # the 64-bit word (and the record bytes) go through UnsignedLong / UnsignedByte / VarLong: their byte-level contracts -
    # exact width, big-endian, a raise on a short or empty read instead of a smaller number - are claimed here too (the
    # packing units execute their bodies on whole words only; seeded change C04-r10: int.from_bytes of a short read)
    from . import c02
    from minecraft.networking.types import UnsignedLong, UnsignedByte
    carriers = []
    for T in (UnsignedLong, UnsignedByte):
        for u in (c02.IntScalar(T), c02.ScalarPrefix(T)):
            u.prop, u.name = 'C04', 'C04.carrier.' + u.name.split('.', 1)[1]
            carriers.append(u)
    # "the packing of the CONNECTION'S protocol": a position goes out under the context write_packet stamps on the packet
    from .deps import dependency_units
    return [PositionSend(), PositionMonotone(), PositionAnyWord(), SectionPos(), BlockRecord(), ou] + carriers + dependency_units('C04')
