"""C03 — VarInt/VarLong decoding is bounded; encoding terminates and is canonical.

Contracts (sidecar; /repo untouched) on
  minecraft.networking.types.basic.VarInt.read / .send / .size  (and VarLong by inheritance)
Postconditions are written from the property statement and the protocol's
definition of VarInt (spec/wire.py), not from the sibling function.
"""
import io
import z3

from minecraft.networking.types import basic
from minecraft.networking.types.basic import VarInt, VarLong

from pyvc.driver import Unit
from pyvc.values import SInt, SBool, SBytes, W, mk_bool, And, Or, Not, byte_to_int, Unsupported
from pyvc.models import ArbitraryStream, OutSocket, InStream
from pyvc.interp import PyRaise
from pyvc.loops import LoopSpec
from pyvc.harness import native_call, CountingStream, Sink
from spec import wire

ASSUMPTIONS = [
    'struct.pack("B", v): one byte of value v for 0 <= v <= 255, struct.error otherwise (assumed, sampled)',
    'file_object.read(1) returns one byte or b"" at end of stream (S1, blocking file object)',
    'Python int semantics modelled in BV(128) with interval/solver no-overflow side obligations; '
    'termination obligations in unbounded Int theory',
]

READ_Q = 'minecraft.networking.types.basic.VarInt.read'
SEND_Q = 'minecraft.networking.types.basic.VarInt.send'
SIZE_Q = 'minecraft.networking.types.basic.VarInt.size'


# nominal maximum encoded length, from the property statement (not read from the code under test)
NOMINAL = {'VarInt': 5, 'VarLong': 10}


from .common import raw as _raw  # noqa: E402  (MRO-aware)


def _raw_old(cls, name):
    return cls.__dict__[name].__func__ if isinstance(cls.__dict__.get(name), (staticmethod, classmethod)) \
        else getattr(cls, name)


def _while_key(func, qual):
    """Key of the first while loop of a function or of one of its direct private helpers (by role, not by place)."""
    import ast
    from .common import reachable_loops
    ks = reachable_loops(func, VarInt, kind=ast.While, depth=1)
    return ks[0] if ks else None


def _while_key_old(func, qual):
    import ast, inspect
    src_lines, start = inspect.getsourcelines(func)
    import textwrap
    tree = ast.parse(textwrap.dedent(''.join(src_lines)))
    for n in ast.walk(tree):
        if isinstance(n, ast.While):
            return (qual, 'while@%d' % (n.lineno + start - 1))
    return None


def _spec_sum(byte_atoms):
    """sum((b_i & 0x7F) * 128^i) as a BV(W) term."""
    t = z3.BitVecVal(0, W)
    for i, b in enumerate(byte_atoms):
        t = t + (z3.ZeroExt(W - 8, b[1] & 0x7F) << (7 * i))
    return t


class ReadArbitrary(Unit):
    """read.bounded + read.value: for EVERY byte stream (symbolic bytes, symbolic length)."""
    prop = 'C03'
    trusted = ('S1: file_object.read(1) on a blocking stream',)

    def __init__(self, cls):
        self.cls = cls
        self.name = 'C03.read.%s' % cls.__name__
        self.functions = (READ_Q + ' [cls=%s]' % cls.__name__,)

    def setup(self, I):
        f = _raw(VarInt, 'read')
        key = _while_key(f, READ_Q)
        if key:
            # complete unrolling with an unwinding assertion: one iteration per byte read
            I.unroll[key] = NOMINAL[self.cls.__name__] + 2

    def run(self, I):
        E = I.E
        cls = self.cls
        mb = NOMINAL[cls.__name__]
        s = ArbitraryStream(I, 's')
        self.stream = s
        try:
            r = I.call(I.getattr_(cls, 'read'), s)
            outcome = ('value', r)
        except PyRaise as e:
            outcome = ('raise', e.exc)
        n = s.cursor
        E.check('read.bounded', s.reads <= mb + 1, note='at most max_bytes+1 one-byte reads')
        E.check('read.one-byte-reads', all(req == 1 for req, _got in s.log))
        cont = [mk_bool((b[1] & 0x80) != 0) for b in s.bytes]
        if outcome[0] == 'value':
            E.check('read.type', isinstance(r, SInt) or isinstance(r, int))
            E.check('read.stops-at-terminator', And(n >= 1, *(cont[:-1] + [Not(cont[-1])])) if n else False,
                    note='all bytes before the last have the top bit set, the last has it clear')
            rt = r.t if isinstance(r, SInt) else z3.BitVecVal(r, W)
            E.check('read.value', SBool(rt == _spec_sum(s.bytes)), note='r = sum((b_i & 0x7F) * 128^i)')
            E.check('read.nonneg', r >= 0)
            E.check('read.no-eof-on-return', not s.eof_seen)
            E.must_fail('read.value-wrong-radix',
                        SBool(rt == sum((z3.ZeroExt(W - 8, b[1] & 0x7F) << (8 * i)) for i, b in enumerate(s.bytes)))
                        if n > 1 else SBool(rt == z3.BitVecVal(255, W)))
        else:
            exc = outcome[1]
            if isinstance(exc, EOFError):
                E.check('read.eof-means-end', And(s.eof_seen, *cont),
                        note='EOFError only when the stream ended after continuation bytes')
            elif isinstance(exc, ValueError):
                E.check('read.toolong', And(n == mb + 1, *cont),
                        note='ValueError only after max_bytes+1 continuation bytes')
            else:
                E.check('read.outcome', False, note='unexpected exception %r' % (exc,))
        return outcome

    # -- conformance: executor vs CPython on one model per path ---------------------
    def _concrete_stream(self, model_get):
        total = model_get('s.total', 0)
        total = max(0, min(int(total), 64))
        return bytes((model_get('s[%d]' % i, 0) or 0) & 0xFF for i in range(total))

    def on_path(self, I, rec):
        E = I.E
        m = E.model()
        if m is None:
            return
        d = m.as_dict()
        data = self._concrete_stream(lambda k, dflt=0: d.get(k, dflt))
        st = CountingStream(data)
        kind, val = native_call(self.cls.read, st)
        sym = rec['outcome']
        if sym[0] == 'value':
            ok = kind == 'ok' and val == m.value(sym[1]) and st.tell() == self.stream.cursor
        else:
            ok = kind == 'raise' and type(val) is type(sym[1])
        self.conformance_count += 1
        if not ok:
            from pyvc.engine import EngineError
            raise EngineError('conformance: symbolic outcome %r vs native %r %r on %r' % (sym, kind, val, data))

    def replay(self, model, label):
        if label.startswith('frame.'):
            rp = replay_read_history()
            if rp['confirmed']:
                return rp
        data = self._concrete_stream(lambda k, dflt=0: model.get(k, dflt))
        return replay_read(self.cls, data)

    def bounded(self, rng, tier):
        """Bounded stand-in (cross-check of the engine, not counted as proof): every stream up to 2 bytes,
        every continuation shape up to max_bytes+3 with boundary payloads."""
        fails, n = [], 0
        rp = replay_read_history(rng)
        n += rp['n']
        if rp['confirmed']:
            fails.append(dict(call=rp['call'], observed=rp['observed'], witness='read-history'))
        mb = NOMINAL[self.cls.__name__]
        cases = [bytes([a]) for a in range(256)] + [b'']
        cases += [bytes([a, b]) for a in (0, 1, 0x7f, 0x80, 0x81, 0xff) for b in range(256)]
        for ln in range(1, mb + 4):
            for last in (0x00, 0x01, 0x7f, 0x80, 0xff):
                for fill in (0x80, 0xff, 0x81):
                    cases.append(bytes([fill] * (ln - 1) + [last]))
        for data in cases:
            n += 1
            rp = replay_read(self.cls, data)
            if rp['confirmed']:
                fails.append(dict(call=rp['call'], observed=rp['observed'], witness='read:' + data.hex()))
        return dict(name=self.name + '.enumeration', bound='all streams <= 1 byte, 6x256 two-byte streams, '
                    'continuation shapes up to max_bytes+3; 40 seeded histories of 8 reads mixing VarInt and VarLong',
                    evaluations=n, failures=fails[:3], exhaustive_for_bound=True)


def replay_read_history(rng=None):
    """HISTORIES of reads that mix VarInt and VarLong on short, long, over-long and truncated encodings: every call is
    judged on its own input, whatever was decoded before (seeded change C03-r10: a lazily grown class-level table shared by
    the two classes, with the over-long test only where the table grows)."""
    import random
    rng = rng or random.Random(5)
    shapes = [b'\x00', b'\x7f', b'\x80\x01', b'\xff' * 4 + b'\x0f', b'\xff' * 4 + b'\x7f', b'\x80' * 5 + b'\x01',
              b'\xff' * 6 + b'\x01', b'\xff' * 9 + b'\x01', b'\x80' * 9 + b'\x7f', b'\xff' * 10 + b'\x01', b'\x80' * 11 + b'\x00',
              b'\xff' * 12 + b'\x01', b'\x80' * 3, b'']
    n = 0
    for _ in range(40):
        hist = []
        for step in range(8):
            n += 1
            cls = rng.choice([VarInt, VarLong])
            data = rng.choice(shapes)
            hist.append('%s(%s)' % (cls.__name__, data.hex() or "''"))
            rp = replay_read(cls, data)
            if rp['confirmed']:
                return dict(confirmed=True, n=n, call='history of reads in one process: ' + ', '.join(hist),
                            observed='last call: ' + rp['observed'])
    return dict(confirmed=False, n=n, call='read histories', observed='conform')


def replay_read(cls, data):
    """Executable contract of read, evaluated on the real function."""
    st = CountingStream(data)
    kind, val = native_call(cls.read, st)
    spec = wire.varint_dec_spec(data, NOMINAL[cls.__name__])
    call = '%s.read(BytesIO(%r))' % (cls.__name__, data)
    bad = None
    if kind == 'hang':
        bad = 'did not terminate within the time bound'
    elif st.reads > NOMINAL[cls.__name__] + 1:
        bad = '%d reads > max_bytes+1' % st.reads
    elif spec[0] == 'value':
        if kind != 'ok' or val != spec[1] or st.tell() != spec[2]:
            bad = 'expected value %d consuming %d, got %s %r consuming %d' % (spec[1], spec[2], kind, val, st.tell())
    elif spec[0] == 'eof':
        if kind != 'raise' or not isinstance(val, EOFError):
            bad = 'expected EOFError, got %s %r' % (kind, val)
    else:
        if kind != 'raise' or not isinstance(val, ValueError):
            bad = 'expected ValueError (too long), got %s %r' % (kind, val)
    return dict(confirmed=bad is not None, call=call, observed=bad or 'conforms (%s %r)' % (kind, val))


class SendCanonical(Unit):
    """send.canonical + roundtrip, for every n in [0, 2^(32|64))."""
    prop = 'C03'
    trusted = ('struct.pack("B")', 'socket.send appends')

    def __init__(self, cls, bits):
        self.cls, self.bits = cls, bits
        self.name = 'C03.send.%s' % cls.__name__
        self.functions = (SEND_Q + ' [n < 2^%d]' % bits, READ_Q + ' [roundtrip, cls=%s]' % cls.__name__)

    def setup(self, I):
        f = _raw(VarInt, 'send')
        key = _while_key(f, SEND_Q)
        kmax = -(-self.bits // 7)
        if key:
            I.unroll[key] = kmax
        key = _while_key(_raw(VarInt, 'read'), READ_Q)
        if key:
            I.unroll[key] = NOMINAL[self.cls.__name__] + 2

    def run(self, I):
        E = I.E
        n = E.new_int('n', 0, (1 << self.bits) - 1)
        self.n = n
        sock = OutSocket()
        try:
            I.call(I.getattr_(getattr(self, 'cls', VarInt), 'send'), n, sock)
        except PyRaise as e:
            E.check('send.no-raise', False, note='raised %r for an in-domain value' % (e.exc,))
            return ('raise', e.exc)
        out = sock.out
        ts = out.byte_terms()
        E.check('send.sends-something', len(sock.sends) >= 1, note='the encoding is handed to the socket (in however many pieces)')
        if ts is None:
            E.check('send.bytes', False, note='output is not a byte sequence')
            return ('out', out)
        k = len(ts)
        # canonical length: k is the least number of 7-bit groups holding n
        E.check('send.length', And(n < (1 << (7 * k)), (n >= (1 << (7 * (k - 1)))) if k > 1 else True),
                note='|enc(n)| = least k with n < 128^k')
        for i, t in enumerate(ts):
            want = (z3.Extract(7, 0, (n.t >> (7 * i))) & 0x7F) | (0x80 if i < k - 1 else 0)
            E.check('send.byte', SBool(t == want), note='byte %d = ((n >> 7i) & 0x7F) | more-bit' % i)
        E.must_fail('send.byte-wrong', SBool(ts[0] == (z3.Extract(7, 0, n.t) if k > 1 else z3.Extract(8, 1, n.t))))
        # round trip through the real decoder
        st = InStream(I, out)
        try:
            r = I.call(I.getattr_(self.cls, 'read'), st)
        except PyRaise as e:
            E.check('roundtrip.value', False, note='decoder raised %r on enc(n)' % (e.exc,))
            return ('out', out)
        E.check('roundtrip.value', r == n)
        E.check('roundtrip.consumed', st.remaining().length() == 0)
        E.check('roundtrip.reads', st.reads == k)
        return ('out', out)

    def on_path(self, I, rec):
        m = I.E.model()
        if m is None or rec['outcome'][0] != 'out':
            return
        nv = m.value(self.n)
        s = Sink()
        kind, _ = native_call(self.cls.send, nv, s)
        self.conformance_count += 1
        if kind != 'ok' or s.data != m.value(rec['outcome'][1]):
            from pyvc.engine import EngineError
            raise EngineError('conformance: send(%d) native %r vs symbolic %r' % (nv, s.data, m.value(rec['outcome'][1])))

    def replay(self, model, label):
        return replay_send(self.cls, int(model.get('n', 0)))

    def bounded(self, rng, tier):
        fails, cnt = [], 0
        top = 1 << self.bits
        vals = set()
        for p in range(0, self.bits + 1):
            for d in (-1, 0, 1):
                v = (1 << p) + d
                if 0 <= v < top:
                    vals.add(v)
        vals.update(range(0, 1 << (14 if tier == 'quick' else 21)))
        vals.update(rng.randrange(top) for _ in range(2000))
        for v in sorted(vals):
            cnt += 1
            rp = replay_send(self.cls, v)
            if rp['confirmed']:
                fails.append(dict(call=rp['call'], observed=rp['observed'], witness='send:%d' % v))
        rp = replay_preempted_send(self.cls)
        cnt += rp['n']
        if rp['confirmed']:
            fails.insert(0, dict(call=rp['call'], observed=rp['observed'], witness='one-preemption'))
        return dict(name=self.name + '.enumeration', evaluations=cnt, failures=fails,
                    bound='every n < 2^%d, powers of two +-1 below 2^%d, 2000 seeded random; plus ONE PREEMPTION: 8 values x 3 values '
                          'of another thread x every line of send as the switch point (the other send runs to completion there)' %
                          (14 if tier == 'quick' else 21, self.bits))


def replay_preempted_send(cls):
    """One preemption, deterministically: send(a) runs under a trace function which, when a chosen line of `send` is about to
    execute, runs a complete send(b) of "another thread" (another connection in the process encodes a length prefix) and then
    lets send(a) go on.  Every line of send is tried as the switch point.  Both encodings must come out as if run alone: the
    encoder keeps no state outside its own frame (seeded change C03-r16: a class-level scratch buffer)."""
    import sys
    code = getattr(cls.send, '__code__', None)
    n = 0
    if code is None:
        return dict(confirmed=False, n=0, call='send under preemption', observed='send is not a Python function')
    top = 1 << (7 * NOMINAL[cls.__name__] - 1)
    for a in (0, 1, 127, 128, 300, 16384, 2097151, top - 1):
        for b in (5, 300, 2097152):
            k = 0
            while True:
                sa, sb = Sink(), Sink()
                state = dict(lines=0, fired=False, err=None)

                def local(frame, event, arg, k=k, state=state, sb=sb, b=b):
                    if event == 'line':
                        if state['lines'] == k and not state['fired']:
                            state['fired'] = True
                            sys.settrace(None)
                            try:
                                cls.send(b, sb)
                            except Exception as e:      # noqa
                                state['err'] = e
                            sys.settrace(glob)
                        state['lines'] += 1
                    return local

                def glob(frame, event, arg):
                    if event == 'call' and frame.f_code is code and not state['fired']:
                        return local
                    return None
                old = sys.gettrace()
                sys.settrace(glob)
                try:
                    try:
                        cls.send(a, sa)
                        err = None
                    except Exception as e:              # noqa
                        err = e
                finally:
                    sys.settrace(old)
                if not state['fired']:
                    break
                n += 1
                wa, wb = wire.varint_enc(a), wire.varint_enc(b)
                if err is not None or state['err'] is not None or sa.data != wa or sb.data != wb:
                    return dict(confirmed=True, n=n,
                                call='%s.send(%d, s1) preempted before its line %d by a complete %s.send(%d, s2) of another thread'
                                     % (cls.__name__, a, k + 1, cls.__name__, b),
                                observed='s1 received %s (canonical %s), s2 received %s (canonical %s)%s'
                                         % (sa.data.hex(), wa.hex(), sb.data.hex(), wb.hex(),
                                            '; raised %r' % (err or state['err'],) if (err or state['err']) else ''))
                k += 1
                if k > 200:
                    break
    return dict(confirmed=False, n=n, call='send under one preemption', observed='conforms')


def replay_send(cls, n):
    s = Sink()
    kind, val = native_call(cls.send, n, s)
    call = '%s.send(%d, sink)' % (cls.__name__, n)
    bad = None
    if kind == 'hang':
        bad = 'did not terminate within 2 s'
    elif n >= 0:
        want = wire.varint_enc(n)
        if kind != 'ok':
            bad = 'raised %r' % (val,)
        elif s.data != want:
            bad = 'sent %s, canonical encoding is %s' % (s.data.hex(), want.hex())
        else:
            st = CountingStream(s.data)
            k2, v2 = native_call(cls.read, st)
            if n < (1 << (7 * NOMINAL[cls.__name__])) and (k2 != 'ok' or v2 != n or st.tell() != len(want)):
                bad = 'decoding enc(n) gave %s %r' % (k2, v2)
            elif cls.size(n) != len(want) if n < (1 << 84) else False:
                bad = 'size(%d) = %d but the encoding has %d bytes' % (n, cls.size(n), len(want))
    return dict(confirmed=bad is not None, call=call, observed=bad or 'conforms')


class SendTerminates(Unit):
    """send.terminates: for EVERY integer (unbounded Int theory), by loop invariant + variant."""
    prop = 'C03'
    name = 'C03.send.terminates'
    int_mode = 'int'
    functions = (SEND_Q + ' [termination, all integers]',)
    trusted = ('struct.pack("B")',)

    def setup(self, I):
        f = _raw(VarInt, 'send')
        key = _while_key(f, SEND_Q)

        def the_value(frame):
            # the integer the loop consumes seven bits at a time: the one integer local the loop assigns
            names = [k for k, v in frame.locals.items() if k in spec.live and isinstance(v, (SInt, int)) and not isinstance(v, bool)]
            if len(names) != 1:
                raise Unsupported('encoder loop: expected exactly one loop-carried integer, found %r' % (names,))
            return names[0]

        def inv(I_, frame):
            return frame.locals[the_value(frame)] >= 0

        def variant(I_, frame):
            return frame.locals[the_value(frame)]

        def havoc(I_, frame):
            frame.locals[the_value(frame)] = I_.E.new_int('value@head')
            for k, v in list(frame.locals.items()):
                if isinstance(v, (bytes, SBytes)) and k in spec.assigned:
                    frame.locals[k] = SBytes([I_.E.new_blob('out@head')])      # the bytes produced so far
        if key is None:
            raise Unsupported('contract does not fit the code any more: send has no while loop any more')
        spec = LoopSpec('send.loop', inv, havoc, variant)
        I.loop_specs[key] = spec

    def run(self, I):
        E = I.E
        n = E.new_int('n')
        sock = OutSocket()
        try:
            I.call(I.getattr_(getattr(self, 'cls', VarInt), 'send'), n, sock)
        except PyRaise as e:
            # raising is a terminating outcome; it must not happen inside the encoder's domain
            E.check('send.raise-only-outside-domain', n < 0,
                    note='%r raised for a non-negative value' % (e.exc,))
            return 'raised'
        E.check('send.sends-something', len(sock.sends) >= 1, note='the encoding is handed to the socket (in however many pieces)')
        return 'returned'

    def replay(self, model, label):
        n = int(model.get('n', model.get('value@head', 0)))
        return replay_send(VarInt, n)

    def bounded(self, rng, tier):
        fails, cnt = [], 0
        for v in [-1, -2, -127, -128, -129, -(1 << 31), -(1 << 63), -(1 << 77)] + \
                 [-rng.randrange(1, 1 << 70) for _ in range(20)]:
            cnt += 1
            s = Sink()
            kind, val = native_call(VarInt.send, v, s, timeout=5.0)
            if kind == 'hang':
                fails.append(dict(call='VarInt.send(%d, sink)' % v, observed='did not terminate within 0.5 s',
                                  witness='send-negative'))
                break
        return dict(name='C03.send.negatives', evaluations=cnt, failures=fails,
                    bound='8 boundary negatives + 20 seeded random negatives, 0.5 s each')


class Size(Unit):
    prop = 'C03'
    name = 'C03.size'
    functions = (SIZE_Q + ' [0 <= n < 2^84]',)

    def run(self, I):
        E = I.E
        n = E.new_int('n', 0, (1 << 84) - 1)
        self.n = n
        try:
            r = I.call(I.getattr_(VarInt, 'size'), n)
        except PyRaise as e:
            E.check('size.no-raise', False, note='raised %r' % (e.exc,))
            return None
        if not isinstance(r, int):
            E.check('size.concrete', False, note='size is not a table constant')
            return None
        E.check('size.value', And(r >= 1, n < (1 << (7 * max(r, 0))), (n >= (1 << (7 * (r - 1)))) if r > 1 else True),
                note='size(n) = least k >= 1 with n < 128^k = |enc(n)| (the encoding of 0 is one byte)')
        # closed obligation on the table itself, where the function works from one
        table = getattr(basic, 'VARINT_SIZE_TABLE', None)
        if table is not None:
            keys = list(table.items())
            E.check('size.table-increasing', all(a[0] < b[0] and a[1] < b[1] for a, b in zip(keys, keys[1:])))
        return r

    def replay(self, model, label):
        n = int(model.get('n', 0))
        try:
            got = VarInt.size(n)
        except Exception as e:
            got = e
        want = wire.varint_len(n)
        return dict(confirmed=got != want, call='VarInt.size(%d)' % n, observed='%r, spec length %d' % (got, want))


def units(tier):
    from . import c02
    pb = c02.BufferContract()
    # "bytes produced" are observed through PacketBuffer: the sink accepts every send and hands back exactly what was sent
    pb.prop, pb.name = 'C03', 'C03.sink.PacketBuffer'
    return [ReadArbitrary(VarInt), ReadArbitrary(VarLong), SendCanonical(VarInt, 32), SendCanonical(VarLong, 64),
            SendTerminates(), Size(), pb]
