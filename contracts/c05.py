"""C05 — every packet class round-trips under every supported protocol version.

For every class of the eight state/direction tables the REAL write_fields and read (definition-driven or hand-written)
are executed symbolically with a SYMBOLIC chronological version index over all supported versions: the version ladders
of get_definition / read / write_fields split the index range into regions, each with a concrete layout.  Field values
are symbolic and range over each wire type's domain (for Angle / FixedPoint / EffectPosition / Pitch: the
wire-representable values).  Field types enter through their S2/S3 contracts (C02/C03) and, for Position /
ChunkSectionPos / multi-block Record, the inverse contract proved in C04.
Obligations per region: rt.fields (every field reads back equal), rt.consumed (buffer exhausted), rt.id (a
non-negative int, the table's id), repr.total (the textual representation can be produced).
"""
import ast
import io
import types

import z3

import minecraft
from minecraft.networking.connection import ConnectionContext
from minecraft.networking.packets import clientbound, serverbound, Packet, PacketBuffer
from minecraft.networking.packets import packet as packet_mod
from minecraft.networking.types import basic as B
from minecraft.networking.types import (VarInt, VarLong, Boolean, UnsignedByte, Byte, Short, UnsignedShort, Integer, Long,
                                        UnsignedLong, Float, Double, FixedPoint, Angle, String, UUID, Position, NBT,
                                        VarIntPrefixedByteArray, ShortPrefixedByteArray, TrailingByteArray, PrefixedArray,
                                        Vector, MutableRecord)
from minecraft.networking.packets.clientbound.play import (MapPacket, PlayerListItemPacket, SpawnObjectPacket,
                                                            CombatEventPacket, FacePlayerPacket, SoundEffectPacket,
                                                            ExplosionPacket, MultiBlockChangePacket, SpawnPlayerPacket,
                                                            EntityLookPacket, EntityPositionDeltaPacket, JoinGamePacket)
from minecraft.networking.packets.serverbound.login import PluginResponsePacket

from pyvc.driver import Unit
from pyvc.values import (SInt, SBool, SReal, SStr, SBytes, SOpaque, Blob, And, Or, Not, Implies, Unsupported, is_symbolic,
                         to_real)
from pyvc.interp import PyRaise
from pyvc.loops import ForSpec
from pyvc.harness import native_call
from .codec import install_all_codecs, SCALARS, dom, var_atom, peek_reader, _key_of
from .common import (install_version_contracts, sym_context, real_context, protocol_of_index, raw, loop_keys,
                     supported_indices)

ASSUMPTIONS = [
    'S2/S3 codec contracts (byte-level proofs: C02, C03); Position / ChunkSectionPos / multi-block Record through the '
    'inverse-under-the-same-context contract proved in C04',
    'NBT values are opaque (pynbt is external)',
    'floats are reals; Angle / FixedPoint / EffectPosition / Pitch fields range over their wire-representable values',
    'lists inside hand-written packets: byte-level units unroll them for lengths 0..2; icons, actions and properties are in '
    'addition proved for ANY length by loop contracts (c05_lists.py: writer output unfolded element by element in front of '
    'the reader); records / world names are PrefixedArray fields (any-length structure: C02.PrefixedArray.any-length)',
]
TABLES = {
    ('handshake', 'serverbound'): serverbound.handshake.get_packets,
    ('status', 'clientbound'): clientbound.status.get_packets, ('status', 'serverbound'): serverbound.status.get_packets,
    ('login', 'clientbound'): clientbound.login.get_packets, ('login', 'serverbound'): serverbound.login.get_packets,
    ('play', 'clientbound'): clientbound.play.get_packets, ('play', 'serverbound'): serverbound.play.get_packets,
}
INT_MODE_CLASSES = {'SpawnPlayerPacket', 'EntityLookPacket', 'EntityPositionDeltaPacket', 'SpawnObjectPacket', 'SoundEffectPacket'}
NBT_SORT = z3.DeclareSort('NBT')
I_ = minecraft.PROTOCOL_VERSION_INDICES


def all_classes():
    out = []
    for (state, direction), gp in TABLES.items():
        s = set()
        for p in minecraft.SUPPORTED_PROTOCOL_VERSIONS:
            s |= gp(ConnectionContext(protocol_version=p))
        for c in sorted(s, key=lambda c: c.__name__):
            out.append((state, direction, gp, c))
    return out


# ------------------------------------------------------------------------------------------
# atom-level contracts for the context-dependent / composite types proved in C04
# ------------------------------------------------------------------------------------------
def install_c04_contracts(I):
    def pair(tag, send_raw, read_raw, send_sig, read_sig):
        def send_model(I_, *a):
            value, socket = send_sig(a)
            atom = Blob(('enc', tag, _key_of(_as_terms(value))), I_.E.new_int(tag + '.len', 1, 16), decoded=value)
            I_.call_value(I_.getattr_(socket, 'send'), [SBytes([atom])], {})

        def read_model(I_, *a):
            fo = read_sig(a)
            rd = peek_reader(fo)
            if rd is not None:
                rd.skip_empty(I_)
            if rd is not None and rd.rest and isinstance(rd.rest[0], Blob) and rd.rest[0].key[:2] == ('enc', tag):
                return rd.rest.pop(0).decoded
            raise Unsupported('layout mismatch: %s.read over %r' % (tag, rd.rest[:1] if rd else None))
        I.override(send_raw, send_model, kind='contract')
        I.override(read_raw, read_model, kind='contract')
    pair('Position', raw(Position, 'send_with_context'), raw(Position, 'read_with_context'),
         lambda a: (a[0], a[1]), lambda a: a[0])
    CSP = MultiBlockChangePacket.ChunkSectionPos
    pair('ChunkSectionPos', raw(CSP, 'send'), raw(CSP, 'read'), lambda a: (a[1], a[2]), lambda a: a[1])
    Rec = MultiBlockChangePacket.Record
    pair('BlockRecord', raw(Rec, 'send_with_context'), raw(Rec, 'read_with_context'), lambda a: (a[1], a[2]), lambda a: a[1])


def install_repr_contracts(I):
    """Contracts used by __repr__: name_from_value is total (returns a name or None; proved for every enum of the library
    in C20.flags.roundtrip); nbt_to_snbt is total on NBT values (pynbt external; sampled in the bounded part)."""
    from minecraft.networking.types.enum import Enum, BitFieldEnum
    from minecraft.networking.packets.clientbound.play import join_game_and_respawn_packets as jg

    def name_model(orig):
        def model(I_, cls, value):
            if is_symbolic(value):
                return I_.E.new_str('enum-name') if I_.E.fork(2, 'enum-name') else None
            return I_.call_function(orig, [cls, value], {})
        return model
    I.override(raw(Enum, 'name_from_value'), name_model(raw(Enum, 'name_from_value')), kind='contract')
    I.override(raw(BitFieldEnum, 'name_from_value'), name_model(raw(BitFieldEnum, 'name_from_value')), kind='contract')

    def snbt(I_, tag):
        if isinstance(tag, SOpaque):
            return I_.E.new_str('snbt')
        return I_.call_function(jg.nbt_to_snbt, [tag], {})
    I.override(jg.nbt_to_snbt, snbt, kind='assumed')

    # Packet.field_string (base implementation) through its contract: total, returns a string
    # (proved from its body in unit C05.field-string); subclass overrides are still executed.
    def field_string(I_, self_, field):
        return I_.E.new_str('field-string')
    I.override(raw(Packet, 'field_string'), field_string, kind='contract')


def _as_terms(v):
    if isinstance(v, MutableRecord):
        return tuple(getattr(v, s) for s in type(v)._all_slots())
    if isinstance(v, tuple):
        return tuple(v)
    return v


# ------------------------------------------------------------------------------------------
# symbolic field values per wire type
# ------------------------------------------------------------------------------------------
def sym_value(I, T, name, ctx_i=None):
    E = I.E
    if isinstance(T, type):
        tn = T.__name__
        if T is VarInt:
            return E.new_int(name, 0, (1 << 31) - 1)
        if T is VarLong:
            return E.new_int(name, 0, (1 << 63) - 1)
        if tn in SCALARS and SCALARS[tn][1] in (True, False):
            return E.new_int(name, *dom(tn))
        if T is Boolean:
            return E.new_bool(name)
        if T in (Float, Double):
            return E.new_real(name)
        if T in (String, UUID):
            return E.new_str(name)
        if T in (VarIntPrefixedByteArray, TrailingByteArray, ShortPrefixedByteArray):
            return SBytes([E.new_blob(name, hi=32767)])
        if T is NBT:
            return E.new_opaque(name, NBT_SORT, 'nbt')
        if T is Position:
            return Position(E.new_int(name + '.x', -(1 << 25), (1 << 25) - 1), E.new_int(name + '.y', -(1 << 11), (1 << 11) - 1),
                            E.new_int(name + '.z', -(1 << 25), (1 << 25) - 1))
        if T is Angle:
            b = E.new_int(name + '.byte', 0, 255)
            return to_real(b) * 360 / 256
        if T is MultiBlockChangePacket.ChunkSectionPos:
            return T(E.new_int(name + '.x', -(1 << 21), (1 << 21) - 1), E.new_int(name + '.y', -(1 << 19), (1 << 19) - 1),
                     E.new_int(name + '.z', -(1 << 21), (1 << 21) - 1))
        if T is MultiBlockChangePacket.Record:
            return T(x=E.new_int(name + '.x', 0, 15), y=E.new_int(name + '.y', 0, 15), z=E.new_int(name + '.z', 0, 15),
                     block_state_id=E.new_int(name + '.b', 0, (1 << 31) - 1))
        if T is ExplosionPacket.Record:
            return T(*[E.new_int('%s.%d' % (name, k), -128, 127) for k in range(3)])
        if T is SoundEffectPacket.EffectPosition:
            return Vector(*[to_real(E.new_int('%s.%d' % (name, k), *dom('Integer'))) / 8 for k in range(3)])
        if T is SoundEffectPacket.Pitch:
            return to_real(E.new_int(name + '.byte', -128, 127)) * 2 / 127        # b / 63.5
    if isinstance(T, FixedPoint):
        n = E.new_int(name + '.n', *dom(T.integer_type.__name__))
        return to_real(n) / T.denominator
    if isinstance(T, PrefixedArray):
        k = E.fork(3, name + '.length')
        return [sym_value(I, T.element_type, '%s[%d]' % (name, j)) for j in range(k)]
    raise Unsupported('no symbolic domain for field type %r' % (T,))


def opt_str(E, name):
    return E.new_str(name) if E.fork(2, name + '.present') else None


# ------------------------------------------------------------------------------------------
# hand-written packets: which attributes to fill, with which domains
# ------------------------------------------------------------------------------------------
def fill_map(I, pkt, i):
    E = I.E
    later = lambda p: I.truth(i >= I_[p])
    v = dict(map_id=E.new_int('map_id', 0, (1 << 31) - 1), scale=E.new_int('scale', -128, 127))
    v['is_tracking_position'] = E.new_bool('tracking') if later(107) else True
    v['is_locked'] = E.new_bool('locked') if later(452) else False
    icons = []
    for j in range(E.fork(3, 'icons')):
        new = later(373)
        t = E.new_int('icon%d.type' % j, 0, (1 << 31) - 1 if new else 15)
        d = E.new_int('icon%d.dir' % j, 0, 255 if new else 15)
        loc = (E.new_int('icon%d.x' % j, -128, 127), E.new_int('icon%d.z' % j, -128, 127))
        nm = opt_str(E, 'icon%d.name' % j) if later(364) else None
        icons.append(MapPacket.MapIcon(t, d, loc, nm))
    v['icons'] = icons
    if E.fork(2, 'has-pixels'):
        v['width'] = E.new_int('width', 1, 255)
        v['height'] = E.new_int('height', 0, 255)
        v['offset'] = (E.new_int('off_x', -128, 127), E.new_int('off_z', -128, 127))
        v['pixels'] = SBytes([E.new_blob('pixels', hi=65535)])
    else:
        v['width'], v['height'], v['offset'], v['pixels'] = 0, 0, None, None
    return v


def fill_player_list(I, pkt, i, variant=None):
    E = I.E
    PL = PlayerListItemPacket
    kinds = [PL.AddPlayerAction, PL.UpdateGameModeAction, PL.UpdateLatencyAction, PL.UpdateDisplayNameAction,
             PL.RemovePlayerAction]
    cls = kinds[variant[0]] if variant else kinds[E.fork(5, 'action-type')]
    actions = []
    for j in range(variant[1] if variant else E.fork(3, 'actions')):
        a = cls()
        a.uuid = E.new_str('a%d.uuid' % j)
        if cls is PL.AddPlayerAction:
            a.name = E.new_str('a%d.name' % j)
            a.properties = []
            for q in range(E.fork(2, 'a%d.props' % j)):
                pr = PL.PlayerProperty()
                pr.name, pr.value, pr.signature = E.new_str('p%d.name' % j), E.new_str('p%d.value' % j), opt_str(E, 'p%d.sig' % j)
                a.properties.append(pr)
            a.gamemode, a.ping = E.new_int('a%d.gm' % j, 0, (1 << 31) - 1), E.new_int('a%d.ping' % j, 0, (1 << 31) - 1)
            a.display_name = opt_str(E, 'a%d.display' % j)
        elif cls is PL.UpdateGameModeAction:
            a.gamemode = E.new_int('a%d.gm' % j, 0, (1 << 31) - 1)
        elif cls is PL.UpdateLatencyAction:
            a.ping = E.new_int('a%d.ping' % j, 0, (1 << 31) - 1)
        elif cls is PL.UpdateDisplayNameAction:
            a.display_name = opt_str(E, 'a%d.display' % j)
        actions.append(a)
    return dict(action_type=cls, actions=actions)


def fill_spawn_object(I, pkt, i):
    E = I.E
    later = lambda p: I.truth(i >= I_[p])
    v = dict(entity_id=E.new_int('entity_id', 0, (1 << 31) - 1))
    if later(49):
        v['object_uuid'] = E.new_str('uuid')
    v['type_id'] = E.new_int('type_id', 0, (1 << 31) - 1) if later(458) else E.new_int('type_id', -128, 127)
    for a in 'xyz':
        v[a] = E.new_real(a) if later(100) else E.new_int(a, *dom('Integer'))
    for a in ('pitch', 'yaw'):
        v[a] = to_real(E.new_int(a + '.byte', 0, 255)) * 360 / 256
    v['data'] = E.new_int('data', *dom('Integer'))
    if later(49) or I.truth(v['data'] > 0):
        for a in ('velocity_x', 'velocity_y', 'velocity_z'):
            v[a] = E.new_int(a, *dom('Short'))
    return v


def fill_combat(I, pkt, i):
    E = I.E
    CE = CombatEventPacket
    k = E.fork(3, 'event')
    if k == 0:
        ev = CE.EnterCombatEvent()
    elif k == 1:
        ev = CE.EndCombatEvent()
        ev.duration, ev.entity_id = E.new_int('duration', 0, (1 << 31) - 1), E.new_int('entity_id', *dom('Integer'))
    else:
        ev = CE.EntityDeadEvent()
        ev.player_id, ev.entity_id, ev.message = (E.new_int('player_id', 0, (1 << 31) - 1), E.new_int('entity_id', *dom('Integer')),
                                                 E.new_str('message'))
    return dict(event=ev)


def fill_face_player(I, pkt, i):
    E = I.E
    v = {}
    if I.truth(i >= I_[353]):
        v['origin'] = E.new_int('origin', 0, (1 << 31) - 1)
        for a in 'xyz':
            v[a] = E.new_real(a)
        if E.fork(2, 'entity'):
            v['entity_id'], v['entity_origin'] = E.new_int('entity_id', 0, (1 << 31) - 1), E.new_int('entity_origin', 0, (1 << 31) - 1)
        else:
            v['entity_id'] = None
    else:
        if E.fork(2, 'entity'):
            v['entity_id'] = E.new_int('entity_id', 0, (1 << 31) - 1)
        else:
            v['entity_id'] = None
            for a in 'xyz':
                v[a] = E.new_real(a)
    return v


def fill_plugin_response(I, pkt, i):
    E = I.E
    v = dict(message_id=E.new_int('message_id', 0, (1 << 31) - 1))
    if E.fork(2, 'successful'):
        v['successful'], v['data'] = True, SBytes([E.new_blob('data')])
    else:
        v['successful'], v['data'] = False, None
    return v


HANDWRITTEN = {MapPacket: fill_map, PlayerListItemPacket: fill_player_list, SpawnObjectPacket: fill_spawn_object,
               CombatEventPacket: fill_combat, FacePlayerPacket: fill_face_player, PluginResponsePacket: fill_plugin_response}


class RoundTrip(Unit):
    prop = 'C05'
    uses = ('S2/S3 codec contracts', 'S4 version order', 'C04 position/record contracts')
    max_paths = 60000
    wall_budget_s = 240

    def __init__(self, state, direction, get_packets, cls, variant=None):
        self.state, self.direction, self.get_packets, self.cls = state, direction, get_packets, cls
        self.variant = variant
        self.name = 'C05.%s.%s.%s%s' % (state, direction, cls.__name__, '' if variant is None else '[%s]' % ','.join(map(str, variant)))
        self.int_mode = 'int' if cls.__name__ in INT_MODE_CLASSES else 'bv'
        q = cls.__module__ + '.' + cls.__qualname__
        self.functions = (q + '.read', q + '.write_fields', q + '.get_definition / definition', q + '.__repr__')
        self.nonlinear_ok = False

    def setup(self, I):
        install_version_contracts(I)
        install_all_codecs(I)
        install_c04_contracts(I)
        install_repr_contracts(I)

    def run(self, I):
        E = I.E
        cls = self.cls
        ctx, i = sym_context(I, 'supported')
        self.sym_i = i
        # only versions for which the class is registered
        if not I.truth(cls in I.call(self.get_packets, ctx)):
            return None
        pkt = I.call(cls)
        I.setattr_(pkt, 'context', ctx)
        if cls in HANDWRITTEN:
            vals = HANDWRITTEN[cls](I, pkt, i, self.variant) if self.variant is not None else HANDWRITTEN[cls](I, pkt, i)
        else:
            try:
                definition = I.getattr_(pkt, 'definition')
            except PyRaise as e:
                E.check('rt.definition', False, note='%r' % (e.exc,))
                return None
            vals = {}
            for field in definition:
                for name, T in field.items():
                    vals[name] = sym_value(I, T, name)
        for k, v in vals.items():
            I.setattr_(pkt, k, v)
        self.last_vals = vals
        buf = I.call(PacketBuffer)
        try:
            I.call(I.getattr_(pkt, 'write_fields'), buf)
        except PyRaise as e:
            E.check('rt.write', False, note='write_fields raised %r for wire-representable values' % (e.exc,))
            return None
        I.call(I.getattr_(buf, 'reset_cursor'))
        pkt2 = I.call(cls)
        I.setattr_(pkt2, 'context', ctx)
        try:
            I.call(I.getattr_(pkt2, 'read'), buf)
        except PyRaise as e:
            E.check('rt.read', False, note='read raised %r on the bytes just written' % (e.exc,))
            return None
        except Unsupported as e:
            if 'layout mismatch' in str(e) or 'ord of an opaque' in str(e):
                E.check('rt.read', False, note='reader and writer disagree about the layout: %s' % e)
                return None
            raise
        for k, v in vals.items():
            try:
                got = I.getattr_(pkt2, k)
            except PyRaise as e:
                E.check('rt.fields[%s]' % k, False, note='field missing after read: %r' % (e.exc,))
                continue
            E.check('rt.fields[%s]' % k, self.same(I, got, v), note='reads back equal')
        rest = SBytes.of(I.call(I.getattr_(buf, 'read')))
        E.check('rt.consumed', rest.length() == 0, note='the payload is consumed exactly')
        if cls is SpawnObjectPacket:
            return None       # its field_enum formats the concrete protocol number: repr is covered by the bounded part only
        # the id shown by repr comes from the ladder verified in C05.ids; fixing it here keeps the version regions of
        # the ladder from multiplying the paths of this unit
        pkt2.__dict__['id'] = 0x7E
        try:
            r = I.call(I.getattr_(pkt2, '__repr__'))
            E.check('repr.total', isinstance(r, (str, SStr)))
        except PyRaise as e:
            E.check('repr.total', False, note='__repr__ raised %r' % (e.exc,))
        return None

    def same(self, I, a, b):
        if isinstance(a, SReal) or isinstance(b, SReal):
            try:
                return SBool(to_real(a).t == to_real(b).t)
            except Unsupported:
                return False
        if isinstance(a, (list, tuple)) and isinstance(b, (list, tuple)):
            if len(a) != len(b):
                return False
            return And(*[self.same(I, x, y) for x, y in zip(a, b)]) if a else True
        if isinstance(a, MutableRecord) and isinstance(b, MutableRecord) and type(a) is type(b):
            return And(*[self.same(I, getattr(a, s, None), getattr(b, s, None)) for s in type(a)._all_slots()])
        return I.equals(a, b)

    def witness_key(self, model, label):
        return None

    def replay(self, model, label):
        i = int(model.get('i', supported_indices()[-1]))
        return replay_roundtrip(self.cls, i, label)

    def bounded(self, rng, tier):
        fails, cnt = [], 0
        idxs = supported_indices()
        pick = idxs if tier == 'thorough' else sorted(set(idxs[::6] + [idxs[0], idxs[-1]]))
        for i in pick:
            ctx = real_context(i)
            if self.cls not in self.get_packets(ctx):
                continue
            for variant in range(2):
                cnt += 1
                rp = replay_roundtrip(self.cls, i, 'v%d' % variant, rng)
                if rp['confirmed']:
                    fails.append(dict(call=rp['call'], observed=rp['observed'], witness='%s@%d' % (self.cls.__name__, protocol_of_index(i))))
                    break
            if fails:
                break
        return dict(name=self.name + '.concrete', evaluations=cnt, failures=fails,
                    bound='%d supported versions x 2 value sets, byte level on the real code' % len(pick))


# ------------------------------------------------------------------------------------------
# concrete round trip on the real code (replay + bounded)
# ------------------------------------------------------------------------------------------
def conc_value(T, rng, variant):
    import pynbt
    r = rng
    if isinstance(T, type):
        tn = T.__name__
        if T is VarInt:
            return [0, (1 << 31) - 1][variant] if r is None else r.choice([0, 1, 127, 128, (1 << 31) - 1, r.getrandbits(31)])
        if T is VarLong:
            return r.choice([r.getrandbits(60), (1 << 63) - 1, 1 << 42]) if r else [5, (1 << 63) - 1][variant]
        if tn in SCALARS and SCALARS[tn][1] in (True, False):
            lo, hi = dom(tn)
            return r.choice([lo, hi, 0, r.randint(lo, hi)]) if r else [lo, hi][variant]
        if T is Boolean:
            return bool(variant) if r is None else r.random() < 0.5
        if T in (Float, Double):
            return [0.0, -1.5][variant] if r is None else r.choice([0.0, -1.5, 1024.25, float(r.randint(-1000, 1000))])
        if T is String:
            return ['', 'héllo €'][variant] if r is None else r.choice(['', 'x', 'héllo €', 'a' * 200])
        if T is UUID:
            return '12345678-9abc-def0-1234-56789abcdef0'
        if T in (VarIntPrefixedByteArray, TrailingByteArray, ShortPrefixedByteArray):
            return [b'', bytes(range(200))][variant] if r is None else bytes(r.getrandbits(8) for _ in range(r.randrange(0, 300)))
        if T is NBT:
            return pynbt.TAG_Compound({'k': pynbt.TAG_Int(7)})
        if T is Position:
            return Position(-(1 << 25), (1 << 11) - 1, 5) if variant else Position(1, -2, (1 << 25) - 1)
        if T is Angle:
            return 360 * (r.randrange(256) if r else 200) / 256
        if T is MultiBlockChangePacket.ChunkSectionPos:
            return T(-(1 << 21), (1 << 19) - 1, 7)
        if T is MultiBlockChangePacket.Record:
            # a large id makes the VarLong form of the record (protocol >= 741) need more than five bytes
            return T(x=15, y=3, z=0, block_state_id=(1 << 30) + 909 if variant else 909)
        if T is ExplosionPacket.Record:
            return T(-128, 127, 3)
        if T is SoundEffectPacket.EffectPosition:
            return Vector(1.5, -2.125, 1000.0)
        if T is SoundEffectPacket.Pitch:
            return 2.0           # 127 / 63.5: representable as byte, as binary32 and after scaling
    if isinstance(T, FixedPoint):
        lo, hi = dom(T.integer_type.__name__)
        return (hi if variant else lo) / T.denominator
    if isinstance(T, PrefixedArray):
        return [conc_value(T.element_type, rng, j % 2) for j in range(3 if variant else 0)]
    raise AssertionError(T)


def conc_handwritten(cls, ctx, rng, variant):
    v = {}
    later = ctx.protocol_later_eq
    if cls is MapPacket:
        v = dict(map_id=3, scale=-1, is_tracking_position=(bool(variant) if later(107) else True),
                 is_locked=(bool(variant) if later(452) else False), width=2 if variant else 0)
        new = later(373)
        v['icons'] = [MapPacket.MapIcon(300 if new else 15, 200 if new else 15, (-128, 127), 'n' if later(364) else None),
                      MapPacket.MapIcon(0, 0, (0, 0), None)][:2 if variant else 0]
        if variant:
            v.update(height=3, offset=(127, -128), pixels=bytes(range(6)))
        else:
            v.update(height=0, offset=None, pixels=None)
    elif cls is PlayerListItemPacket:
        PL = PlayerListItemPacket
        a = PL.AddPlayerAction(uuid='12345678-9abc-def0-1234-56789abcdef0', name='n', gamemode=1, ping=2, display_name='d' if variant else None,
                               properties=[PL.PlayerProperty(name='a', value='b', signature='s' if variant else None)])
        b = PL.RemovePlayerAction(uuid='12345678-9abc-def0-1234-56789abcdef0')
        if variant == 2:      # present-but-empty optional strings
            e = PL.AddPlayerAction(uuid='12345678-9abc-def0-1234-56789abcdef0', name='', gamemode=0, ping=0, display_name='',
                                   properties=[PL.PlayerProperty(name='', value='', signature='')])
            return dict(action_type=PL.AddPlayerAction, actions=[e])
        if variant == 3:
            return dict(action_type=PL.UpdateDisplayNameAction,
                        actions=[PL.UpdateDisplayNameAction(uuid='12345678-9abc-def0-1234-56789abcdef0', display_name='')])
        v = dict(action_type=PL.AddPlayerAction if variant else PL.RemovePlayerAction, actions=[a, a] if variant else [b])
    elif cls is SpawnObjectPacket:
        v = dict(entity_id=9, type_id=70, pitch=360 * 3 / 256, yaw=0.0, data=-3 if variant == 2 else 5 if variant else 0)
        if later(49):
            v['object_uuid'] = '12345678-9abc-def0-1234-56789abcdef0'
        for a in 'xyz':
            v[a] = 1.5 if later(100) else 7
        if later(49) or v['data'] > 0:
            v.update(velocity_x=1, velocity_y=-2, velocity_z=3)
    elif cls is CombatEventPacket:
        CE = CombatEventPacket
        v = dict(event=CE.EntityDeadEvent(player_id=1, entity_id=-2, message='m') if variant else CE.EndCombatEvent(duration=5, entity_id=6))
    elif cls is FacePlayerPacket:
        if later(353):
            v = dict(origin=1, x=1.0, y=2.0, z=3.0, entity_id=5 if variant else None)
            if variant:
                v['entity_origin'] = 0
        else:
            v = dict(entity_id=5) if variant else dict(entity_id=None, x=1.0, y=2.0, z=3.0)
    elif cls is PluginResponsePacket:
        v = dict(message_id=4, successful=bool(variant), data=b'xyz' if variant else None)
    return v


def replay_roundtrip(cls, i, label, rng=None):
    ctx = real_context(i)
    variant = 1 if label.endswith('1') else 0
    results = []
    for var in ((variant,) if rng is not None or label.startswith('v') else
                (0, 1, 2, 3) if cls.__name__ == 'PlayerListItemPacket' else (0, 1, 2) if cls.__name__ == 'SpawnObjectPacket' else (0, 1)):
        pkt = cls(ctx)
        if cls in HANDWRITTEN:
            vals = conc_handwritten(cls, ctx, rng, var)
        else:
            vals = {}
            for field in pkt.definition:
                for name, T in field.items():
                    vals[name] = conc_value(T, rng, var)
        for k, v in vals.items():
            setattr(pkt, k, v)
        buf = PacketBuffer()
        call = '%s round trip at protocol %d' % (cls.__name__, protocol_of_index(i))
        k, e = native_call(pkt.write_fields, buf)
        if k != 'ok':
            return dict(confirmed=True, call=call, observed='write_fields: %s %r' % (k, e))
        buf.reset_cursor()
        p2 = cls(ctx)
        k, e = native_call(p2.read, buf)
        if k != 'ok':
            return dict(confirmed=True, call=call, observed='read of the bytes just written: %s %r' % (k, e))
        for name, v in vals.items():
            got = getattr(p2, name, '<missing>')
            if name == 'dimension_codec' or isinstance(v, type(None)) and got is None:
                continue
            if hasattr(v, 'value') and hasattr(got, 'value'):
                a, b = PacketBuffer(), PacketBuffer()
                NBT.send(v, a)
                NBT.send(got, b)
                if a.get_writable() != b.get_writable():
                    return dict(confirmed=True, call=call, observed='NBT field %s differs' % name)
                continue
            if got != v:
                return dict(confirmed=True, call=call, observed='field %s reads back %r, written %r' % (name, got, v))
        if buf.read():
            return dict(confirmed=True, call=call, observed='payload not consumed exactly')
        k, e = native_call(repr, p2)
        if k != 'ok':
            return dict(confirmed=True, call=call, observed='repr: %s %r' % (k, e))
    return dict(confirmed=False, call='%s round trip at protocol %d' % (cls.__name__, protocol_of_index(i)), observed='conforms')


# ------------------------------------------------------------------------------------------
# user-defined packets: a definition list of ANY length with abstract field types
# ------------------------------------------------------------------------------------------
class AbsName(object):
    def __init__(self, j):
        self.j = j


class GenericDefinition(Unit):
    prop = 'C05'
    name = 'C05.generic-definition'
    int_mode = 'int'
    functions = ('minecraft.networking.packets.packet.Packet.write_fields', 'minecraft.networking.packets.packet.Packet.read',
                 'minecraft.networking.packets.packet.Packet.fields')

    def setup(self, I):
        unit = self

        class AbsType(object):
            def __init__(self, j):
                self.j = j

            def send_with_context(self, value, socket, context):
                E = I.E
                E.check('generic.write-order', And(unit.count == self.j, getattr(value, 'j', None) is self.j, socket is unit.buf,
                                                   context is unit.ctx),
                        note='field j is written j-th, with the value of attribute j, to the buffer, under the packet context')
                unit.count = unit.count + 1

            def read_with_context(self, file_object, context):
                E = I.E
                E.check('generic.read-order', And(unit.count == self.j, file_object is unit.buf, context is unit.ctx))
                unit.count = unit.count + 1
                return ('value', self.j)

        class AbsField(object):
            def __init__(self, j):
                self.j = j

            def items(self):
                return [(AbsName(self.j), AbsType(self.j))]

        from pyvc.models import AbstractSeq

        class AbsDef(AbstractSeq):
            def __init__(self, n):
                self.n = n

        class GPacket(Packet):
            def __getattr__(self, name):
                if isinstance(name, AbsName):
                    return types.SimpleNamespace(j=name.j)
                raise AttributeError(name)

            def __setattr__(self, name, value):
                if isinstance(name, AbsName):
                    I.E.check('generic.read-assigns', value == ('value', name.j), note='attribute j receives the j-th decoded value')
                    unit.assigned = unit.assigned + 1
                    return
                object.__setattr__(self, name, value)
        self.GPacket, self.AbsDef = GPacket, AbsDef
        from .common import reachable_loops, ByIterable
        keys = set()
        for fn in (raw(Packet, 'write_fields'), raw(Packet, 'read')):
            keys |= set(reachable_loops(fn, Packet, kind=ast.For, depth=1))
        if not keys:
            raise Unsupported('contract does not fit the code any more: no loop over the definition in Packet.read / write_fields')
        # the contract belongs to "the loop over the definition list", wherever it is written (inline in both methods or
        # in a shared helper); loops over anything else (the items of one field) run normally
        spec = ForSpec('definition', lambda I_, it: it.n, lambda I_, it, j: AbsField(j),
                       lambda I_, fr, j: unit.count == j, lambda I_, fr, j: setattr(unit, 'count', j))
        for k in keys:
            I.loop_specs[k] = ByIterable(lambda it: isinstance(it, AbsDef), spec)

    def run(self, I):
        E = I.E
        n = E.new_int('n_fields', 0, None)
        which = E.fork(2, 'direction')
        self.count, self.assigned = 0, 0
        pkt = self.GPacket()
        self.ctx = ConnectionContext(protocol_version=757)
        object.__setattr__(pkt, 'context', self.ctx)
        object.__setattr__(pkt, 'definition', self.AbsDef(n))
        self.buf = types.SimpleNamespace()
        I.call(raw(Packet, 'write_fields' if which == 0 else 'read'), pkt, self.buf)
        E.check('generic.all-fields-once', self.count == n, note='every field of the definition, exactly once, in order')
        return None

    def replay(self, model, label):
        return replay_generated(None)

    def bounded(self, rng, tier):
        fails, cnt = [], 0
        for _ in range(200 if tier == 'quick' else 2000):
            cnt += 1
            rp = replay_generated(rng)
            if rp['confirmed']:
                fails.append(dict(call=rp['call'], observed=rp['observed'], witness='generated-definition'))
                break
        return dict(name='C05.generated-definitions', evaluations=cnt, failures=fails,
                    bound='seeded random field-list definitions of library types (incl. nested arrays), random values, real code')


def replay_generated(rng):
    import random
    rng = rng or random.Random(9)
    pool = [VarInt, Boolean, UnsignedByte, Byte, Short, UnsignedShort, Integer, Long, UnsignedLong, Double, String, UUID,
            VarIntPrefixedByteArray, PrefixedArray(VarInt, Short), PrefixedArray(VarInt, PrefixedArray(VarInt, String))]
    defn, vals = [], {}
    for j in range(rng.randrange(0, 8)):
        T = rng.choice(pool)
        defn.append({'f%d' % j: T})
        vals['f%d' % j] = conc_value(T, rng, rng.randrange(2))
    if rng.random() < 0.3:
        defn.append({'tail': TrailingByteArray})
        vals['tail'] = bytes(rng.getrandbits(8) for _ in range(rng.randrange(0, 20)))

    class G(Packet):
        id = 0x7E
        packet_name = 'generated'
        definition = defn
    ctx = ConnectionContext(protocol_version=757)
    p = G(ctx, **vals)
    buf = PacketBuffer()
    k, e = native_call(p.write_fields, buf)
    call = 'generated packet %r' % ([list(d.items())[0][1] if isinstance(list(d.items())[0][1], type) else 'array' for d in defn],)
    if k != 'ok':
        return dict(confirmed=True, call=call, observed='write_fields: %s %r' % (k, e))
    buf.reset_cursor()
    q = G(ctx)
    k, e = native_call(q.read, buf)
    if k != 'ok' or any(getattr(q, n) != v for n, v in vals.items()) or buf.read():
        return dict(confirmed=True, call=call, observed='read back %s; differs or not consumed' % k)
    k, e = native_call(repr, q)
    if k != 'ok':
        return dict(confirmed=True, call=call, observed='repr raised %r' % (e,))
    return dict(confirmed=False, call=call, observed='conforms')


class Ids(Unit):
    """rt.id: for every class and every supported version on which it is registered, get_id is a non-negative int and the
    instance property `id` reports the same value (what Packet.write prefixes: C01.write.frame)."""
    prop = 'C05'
    name = 'C05.ids'
    int_mode = 'int'
    functions = ('minecraft.networking.packets.packet.Packet.id', 'minecraft.networking.packets.packet.Packet.get_id',
                 'get_id of every registered class')
    max_paths = 20000

    def setup(self, I):
        install_version_contracts(I)

    def run(self, I):
        E = I.E
        classes = all_classes()
        state, direction, gp, cls = classes[E.fork(len(classes), 'class')]
        ctx, i = sym_context(I, 'supported')
        if not I.truth(cls in I.call(gp, ctx)):
            return None
        pkt = I.call(cls)
        I.setattr_(pkt, 'context', ctx)
        try:
            pid = I.call(cls.get_id, ctx)
            E.check('rt.id[%s]' % cls.__name__, isinstance(pid, int) and not isinstance(pid, bool) and pid >= 0 and
                    I.getattr_(pkt, 'id') == pid, note='a non-negative integer id, the one the instance reports')
        except PyRaise as e:
            E.check('rt.id[%s]' % cls.__name__, False, note='get_id raised %r' % (e.exc,))
        return None

    def replay(self, model, label):
        i = int(model.get('i', 0))
        name = label.split('[')[-1].rstrip(']')
        for state, direction, gp, cls in all_classes():
            if cls.__name__ == name:
                ctx = real_context(i)
                k, v = native_call(cls.get_id, ctx)
                bad = cls in gp(ctx) and not (k == 'ok' and isinstance(v, int) and v >= 0 and cls(ctx).id == v)
                return dict(confirmed=bad, call='%s.get_id at protocol %d' % (name, protocol_of_index(i)), observed='%s %r' % (k, v))
        return dict(confirmed=False, call='get_id', observed='')


class FieldString(Unit):
    """Packet.field_string / field_enum (base implementations) are total: for every field value and every enum outcome
    they return a string."""
    prop = 'C05'
    name = 'C05.field-string'
    functions = ('minecraft.networking.packets.packet.Packet.field_string', 'minecraft.networking.packets.packet.Packet.field_enum')

    def setup(self, I):
        install_version_contracts(I)
        from minecraft.networking.types.enum import Enum, BitFieldEnum

        def name_model(I_, cls, value):
            return I_.E.new_str('enum-name') if I_.E.fork(2, 'enum-name') else None
        I.override(raw(Enum, 'name_from_value'), name_model, kind='contract')
        I.override(raw(BitFieldEnum, 'name_from_value'), name_model, kind='contract')

    def run(self, I):
        E = I.E
        classes = [c for _s, _d, _g, c in all_classes()]
        cls = classes[E.fork(len(classes), 'class')]
        pkt = cls.__new__(cls)
        ctx, i = sym_context(I, 'supported')
        pkt.__dict__['context'] = ctx
        names = ['game_mode', 'difficulty', 'flags', 'action_id', 'displayed_skin_parts', 'no_such_field', 'x']
        field = names[E.fork(len(names), 'field')]
        kind = E.fork(3, 'value')
        if kind < 2:
            pkt.__dict__[field] = E.new_int('value') if kind == 0 else E.new_str('value')
        try:
            r = I.call(raw(Packet, 'field_string'), pkt, field)
            E.check('field-string.total', isinstance(r, (str, SStr)))
        except PyRaise as e:
            E.check('field-string.total', False, note='%s.%s: %r' % (cls.__name__, field, e.exc))
        return None

    def replay(self, model, label):
        return dict(confirmed=False, call='Packet.field_string', observed='')


class JoinGameModes(Unit):
    """JoinGamePacket keeps ONE piece of information - (pure game mode, hardcore) - in three settable views (game_mode,
    pure_game_mode, is_hardcore) and two wire layouts (hardcore as bit 3 of the game-mode byte before protocol 738, as a
    field of its own from 738).  Whatever ORDER the views are set in, under every supported version: the views read back
    (m, h), and the game-mode byte that write_fields sends is m | 8*h before 738 and m from 738.  (Seeded change C07-r11:
    pure_game_mode set AFTER is_hardcore drops the hardcore bit.)"""
    prop = 'C05'
    name = 'C05.JoinGame.mode-views'
    functions = tuple('minecraft.networking.packets.clientbound.play.join_game_and_respawn_packets.JoinGamePacket.' + n
                      for n in ('game_mode', 'is_hardcore', 'pure_game_mode'))
    # every order sets BOTH views at the end (a view set twice, or the combined byte set first, gets another value first)
    ORDERS = (('hardcore', 'pure'), ('pure', 'hardcore'), ('combined',), ('combined', 'hardcore', 'pure'),
              ('combined', 'pure', 'hardcore'), ('hardcore', 'pure', 'hardcore'), ('pure', 'hardcore', 'pure'))

    def setup(self, I):
        install_version_contracts(I)

    def run(self, I):
        E = I.E
        ctx, i = sym_context(I, 'supported')
        m = E.new_int('mode', 0, 7)
        h = bool(E.fork(2, 'hardcore'))
        order = self.ORDERS[E.fork(len(self.ORDERS), 'order')]
        other_m = E.new_int('earlier-mode', 0, 7)
        pkt = JoinGamePacket()
        pkt.context = ctx
        for k, step in enumerate(order):
            final = k == max(j for j, x in enumerate(order) if x == step)
            if step == 'hardcore':
                I.setattr_(pkt, 'is_hardcore', h if final else (not h))
            elif step == 'pure':
                I.setattr_(pkt, 'pure_game_mode', m if final else other_m)
            else:
                I.setattr_(pkt, 'game_mode', (m + 8 if h else m) if order == ('combined',) else (other_m + 8 if not h else other_m))
        later738 = I.truth(i >= I_[738])
        try:
            gm = I.getattr_(pkt, 'game_mode')
            pure = I.getattr_(pkt, 'pure_game_mode')
            hard = I.getattr_(pkt, 'is_hardcore')
        except PyRaise as e:
            if order == ('combined',) and later738:
                return None          # from 738 is_hardcore is a field of its own: setting game_mode alone does not define it
            E.check('modes.readable', False, note='order %r: %r' % (order, e.exc))
            return None
        if order == ('combined',):
            if later738:
                return None
            E.check('modes.combined', And(I.equals(pure, m), bool(hard) == h if isinstance(hard, bool) else I.equals(hard, h)))
            return None
        E.check('modes.pure-reads-back', I.equals(pure, m), note='order %r' % (order,))
        E.check('modes.hardcore-reads-back', (hard is h) if isinstance(hard, bool) else I.equals(hard, h), note='order %r' % (order,))
        E.check('modes.wire-byte', I.equals(gm, m) if later738 else I.equals(gm, m + 8 if h else m),
                note='order %r: game_mode on the wire = mode%s' % (order, '' if later738 else ' | 8 * hardcore'))
        return None

    def replay(self, model, label):
        return replay_join_modes()

    def bounded(self, rng, tier):
        rp = replay_join_modes()
        return dict(name='C05.JoinGame.mode-views.concrete', evaluations=rp['n'], exhaustive_for_bound=True,
                    bound='modes 0..7 x hardcore x 6 setter orders x protocols {47, 498, 578, 736, 751, 757}; written bytes decoded',
                    failures=[dict(call=rp['call'], observed=rp['observed'], witness='join-game-modes')] if rp['confirmed'] else [])


def replay_join_modes():
    import itertools
    n = 0
    for proto, m, h in itertools.product((47, 498, 578, 736, 751, 757), range(8), (False, True)):
        ctx = ConnectionContext(protocol_version=proto)
        for order in JoinGameModes.ORDERS:
            if order == ('combined',):
                continue
            n += 1
            pkt = JoinGamePacket(context=ctx)
            for k, step in enumerate(order):
                final = k == max(j for j, x in enumerate(order) if x == step)
                if step == 'hardcore':
                    pkt.is_hardcore = h if final else (not h)
                elif step == 'pure':
                    pkt.pure_game_mode = m if final else (m + 1) % 8
                else:
                    pkt.game_mode = ((m + 3) % 8) | (0 if h else 8)
            want = m if ctx.protocol_later_eq(738) else (m | 8 if h else m)
            if pkt.pure_game_mode != m or bool(pkt.is_hardcore) != h or pkt.game_mode != want:
                return dict(confirmed=True, n=n, call='JoinGamePacket at protocol %d, views set in the order %r to mode %d, hardcore %r'
                            % (proto, order, m, h), observed='pure_game_mode = %r, is_hardcore = %r, game_mode (the wire byte) = %r, '
                            'expected %d / %r / %d' % (pkt.pure_game_mode, pkt.is_hardcore, pkt.game_mode, m, h, want))
    return dict(confirmed=False, n=n, call='JoinGame mode views', observed='consistent')


def _own_units(tier):
    us = []
    for t in all_classes():
        if t[3] is PlayerListItemPacket:
            # one unit per (action type, number of actions) so that the string-heavy cases run in parallel
            us += [RoundTrip(*t, variant=(k, n)) for k in range(5) for n in range(3)]
        else:
            us.append(RoundTrip(*t))
    # longest first, for the process pool
    us.sort(key=lambda u: 0 if u.cls in (PlayerListItemPacket, JoinGamePacket, MapPacket) else 1)
    from . import c05_lists, c02
    ts = []
    for u in c02.units(tier):
        # the round trips above go through the field types' contracts (S2/S3); their byte-level proofs - every value of the
        # domain can be written, decoding inverts encoding, for VarInt AND VarLong, arrays of any length, the buffer they
        # are observed through - are claimed here too, so a field type that stops round-tripping fails this property as well
        u.prop, u.name = 'C05', 'C05.types.' + u.name.split('.', 1)[1]
        ts.append(u)
    return us + [GenericDefinition(), FieldString(), Ids(), JoinGameModes()] + c05_lists.units(tier) + ts


def units(tier):
    from .deps import dependency_units
    return _own_units(tier) + dependency_units('C05')
