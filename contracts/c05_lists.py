"""C05 - lists of ANY length inside hand-written packets (MapPacket.icons, PlayerListItemPacket.actions,
AddPlayerAction.properties).

The byte-level round-trip units of c05.py unroll these lists for lengths 0..2.  Here the two loops (the writer's
`for x in self.<list>` and the reader's `for i in range(count)`) get loop contracts over an abstract list of symbolic
length n:

  writer loop   invariant(j): the buffer holds  PREFIX ++ Rep(0, j)   where Rep(a, b) stands for the encodings of the
                elements a..b-1 as the writer's own loop body produces them (a definition, so the obligations of the
                arbitrary iteration are: the body only APPENDS to the buffer, does not raise for a wire-representable
                element, and changes nothing else).
  reader loop   invariant(j): the stream holds  Rep(j, n) ++ TRAILER  and the accumulator holds j elements equal to
                the elements 0..j-1.  Arbitrary iteration j: Rep(j, n) is unfolded once at the front into
                W(e_j) ++ Rep(j+1, n), where W(e_j) are the bytes the WRITER's loop body (executed from its AST) emits for
                an arbitrary element e_j; the reader's body must consume exactly W(e_j), append exactly one element,
                and that element must equal e_j field by field.
  exit          Rep(n, n) is empty, the accumulator has n elements: the remaining fields are compared as usual.

Induction over j (the loop contract scheme of pyvc/loops.py) gives the round trip for every n.  What is assumed: the
S2/S3 codec contracts (C02/C03), the S4 version order (C08).
"""
import ast
import inspect
import textwrap

import z3

import minecraft
from minecraft.networking.packets import PacketBuffer
from minecraft.networking.packets.clientbound.play import MapPacket, PlayerListItemPacket
from minecraft.networking.types import MutableRecord

from pyvc.driver import Unit
from pyvc.values import SInt, SBool, SStr, SBytes, Blob, And, Unsupported
from pyvc.interp import PyRaise, Frame
from pyvc.loops import ForSpec
from pyvc.models import AbstractSeq, SymBytesIO
from .common import install_version_contracts, sym_context, raw, reachable_loops, reachable_loop_nodes, ByIterable
from .codec import install_all_codecs, peek_reader

I_ = minecraft.PROTOCOL_VERSION_INDICES


class AbsElems(AbstractSeq):
    """The list field of the packet being written: n abstract elements."""

    def __init__(self, n):
        self.n = n

    def __sym_len__(self):
        return self.n


class AbsAccum(object):
    """The reader's accumulator after j iterations: j elements, element k equal to e_k (that is the invariant)."""

    def __init__(self, n):
        self.n = n
        self.appended = []

    def append(self, x):
        self.appended.append(x)
        self.n = self.n + 1


def _loop_node(func, pred):
    lines, _ = inspect.getsourcelines(func)
    tree = ast.parse(textwrap.dedent(''.join(lines)))
    fors = sorted((n for n in ast.walk(tree) if isinstance(n, ast.For) and pred(n)), key=lambda n: n.lineno)
    return fors


def same(I, a, b):
    if isinstance(a, (list, tuple)) and isinstance(b, (list, tuple)):
        if len(a) != len(b):
            return False
        return And(*[same(I, x, y) for x, y in zip(a, b)]) if a else True
    if isinstance(a, MutableRecord) and isinstance(b, MutableRecord) and type(a) is type(b):
        return And(*[same(I, getattr(a, s, None), getattr(b, s, None)) for s in type(a)._all_slots()])
    if type(a).__module__.startswith('minecraft') and type(a) is type(b) and hasattr(a, '__dict__'):
        keys = sorted(set(a.__dict__) | set(b.__dict__))
        return And(*[same(I, a.__dict__.get(k, '<unset>'), b.__dict__.get(k, '<unset>')) for k in keys]) if keys else True
    return I.equals(a, b)


class ElementLoops(Unit):
    """Generic part; subclasses say which packet, which list, how an element looks, and what surrounds the list."""
    prop = 'C05'
    uses = ('S2/S3 codec contracts', 'S4 version order')
    int_mode = 'bv'
    max_paths = 20000
    wall_budget_s = 200

    # -- to be provided ------------------------------------------------------------------
    writer = reader = None            # the two functions (raw) that contain the loops
    owner = None                      # class through which helpers of the loops are reached

    def make_owner(self, I, ctx, i):          # object whose writer/reader methods are called; returns (w_obj, r_obj)
        raise NotImplementedError

    def set_list(self, obj, value):
        raise NotImplementedError

    def get_list(self, obj):
        raise NotImplementedError

    def make_element(self, I, i, tag):
        raise NotImplementedError

    def call_writer(self, I, w_obj, buf):
        raise NotImplementedError

    def call_reader(self, I, r_obj, buf):
        raise NotImplementedError

    def other_fields(self, w_obj):            # names compared after the round trip (besides the list)
        return []

    # ------------------------------------------------------------------------------------
    def setup(self, I):
        install_version_contracts(I)
        install_all_codecs(I)
        unit = self
        wnodes = reachable_loop_nodes(self.writer, self.owner, kind=ast.For, depth=1)
        wkeys = [k for _f, _n, k in wnodes]
        rkeys = reachable_loops(self.reader, self.owner, kind=ast.For, depth=1)
        if not wkeys or not rkeys:
            raise Unsupported('contract does not fit the code any more: no element loop in %s / %s'
                              % (self.writer.__qualname__, self.reader.__qualname__))

        # ---- writer loop ------------------------------------------------------------
        def w_length(I_, it):
            if not isinstance(it, AbsElems):
                raise Unsupported('element-loop contract applied to a loop over %s' % type(it).__name__)
            return it.n

        def w_element(I_, it, j):
            unit.w_elem = unit.make_element(I_, unit.sym_i, 'w')
            return unit.w_elem

        def w_content(fr):
            bufs = [v for v in fr.locals.values() if isinstance(v, PacketBuffer)]
            if len({id(b) for b in bufs}) != 1:
                raise Unsupported('writer loop: expected exactly one PacketBuffer local, found %d' % len(bufs))
            return bufs[0]

        def w_inv(I_, fr, j):
            buf = w_content(fr)
            atoms = list(SBytes.of(buf.bytes.content).atoms)
            if isinstance(j, int) and j == 0:
                unit.w_prefix = atoms                    # whatever was written before the loop
                return True
            # after the arbitrary iteration: the body has only appended to what the loop head held
            head = unit.w_head
            return len(atoms) >= len(head) and all(a is b for a, b in zip(atoms, head))

        def w_havoc(I_, fr, j):
            unit.w_locals = dict(fr.locals)               # the environment of the writer's loop (for writer_body_output)
            buf = w_content(fr)
            rep = Blob(('rep', 'written', id(unit)), I_.E.new_int('rep.len', 0, None))
            unit.w_head = list(unit.w_prefix) + [rep]
            unit.w_rep = rep
            buf.bytes.content = SBytes(unit.w_head)
        for f, node, k in wnodes:
            def length_at(I_, it, f=f, node=node):
                unit.w_loop = (f, node)                   # the loop that actually iterates over the list
                return w_length(I_, it)
            I.loop_specs[k] = ByIterable(lambda it: isinstance(it, AbsElems),
                                         ForSpec('write-elements', length_at, w_element, w_inv, w_havoc))

        # ---- reader loop ------------------------------------------------------------
        def r_length(I_, it):
            n = getattr(it, 'n', None)
            if n is None:
                raise Unsupported('element-loop contract applied to a loop over %s' % type(it).__name__)
            unit.r_n = n
            return n

        def r_element(I_, it, j):
            return j

        def r_stream(fr):
            cands = [v for v in fr.locals.values() if peek_reader(v) is not None]
            if len({id(c) for c in cands}) != 1:
                raise Unsupported('reader loop: expected exactly one stream local, found %d' % len(cands))
            return peek_reader(cands[0])

        def r_inv(I_, fr, j):
            rd = r_stream(fr)
            acc = unit.get_list(unit.r_obj)
            if isinstance(j, int) and j == 0:
                rd.skip_empty(I_)
                ok = bool(rd.rest) and rd.rest[0] is unit.w_rep and isinstance(acc, list) and acc == []
                unit.r_trailer = list(rd.rest[1:])
                return ok
            if getattr(unit, 'r_expect', None) is None:
                return True                                   # exit branch: assumed, nothing to check
            if unit.r_phase == 'head':
                unit.r_phase = 'body'                         # the invariant as assumed at the head of iteration j
                return True
            # after the arbitrary iteration j: exactly W(e_j) consumed, exactly one equal element appended
            exp_rest, elem = unit.r_expect
            rd.skip_empty(I_)
            rest_ok = len(rd.rest) == len(exp_rest) and all(a is b for a, b in zip(rd.rest, exp_rest))
            one = isinstance(acc, AbsAccum) and len(acc.appended) == 1
            I_.E.check('list.reader-consumes-exactly-one-element', rest_ok,
                       note='iteration j of the reader consumes exactly the bytes the writer emitted for element j')
            I_.E.check('list.reader-appends-one', one, note='exactly one element appended per iteration')
            if one:
                I_.E.check('list.element-equal', same(I_, acc.appended[0], elem),
                           note='the element read back equals the element written, field by field')
            return True

        def r_havoc(I_, fr, j):
            E = I_.E
            rd = r_stream(fr)
            unit.set_list(unit.r_obj, AbsAccum(j))
            unit.r_phase = 'head'
            if j is unit.r_n:                                 # loop exit: j = n
                rd.rest = list(unit.r_trailer)                # Rep(n, n) is empty
                unit.r_expect = None
                return
            # arbitrary iteration: unfold Rep(j, n) once at the front
            e = unit.make_element(I_, unit.sym_i, 'r')
            w_bytes = unit.writer_body_output(I_, e)
            rest = Blob(('rep', 'rest', id(unit)), E.new_int('rest.len', 0, None))
            tail = [rest] + list(unit.r_trailer)
            rd.rest = list(w_bytes) + tail
            unit.r_expect = (tail, e)
        from pyvc.builtins_model import SymRange
        for k in rkeys:
            I.loop_specs[k] = ByIterable(lambda it: isinstance(it, SymRange),
                                         ForSpec('read-elements', r_length, r_element, r_inv, r_havoc))

    def writer_body_output(self, I, elem):
        """The atoms the writer's loop body emits for one element (its AST executed on a scratch buffer, in the
        environment the writer's loop had)."""
        if getattr(self, 'w_loop', None) is None or getattr(self, 'w_locals', None) is None:
            raise Unsupported('writer loop over the list was not reached before the reader needed its output')
        f, node = self.w_loop
        if not isinstance(node.target, ast.Name):
            raise Unsupported('writer loop: the loop target is not a simple name')
        scratch = I.call(PacketBuffer)
        fr = Frame(f.__globals__, None, f.__module__ + '.' + f.__qualname__ + '[loop body]')
        for k, v in self.w_locals.items():
            fr.locals[k] = scratch if isinstance(v, PacketBuffer) else v
        fr.locals[node.target.id] = elem
        I.exec_block(node.body, fr)
        return list(SBytes.of(scratch.bytes.content).atoms)

    def writer_loop_function(self):
        return self.writer

    def run(self, I):
        E = I.E
        ctx, i = sym_context(I, 'supported')
        self.sym_i = i
        self.r_expect = None
        self.w_loop = self.w_locals = None
        if not self.applicable(I, ctx, i):
            return None
        self.n = E.new_int('n', 0, (1 << 31) - 1)         # the count travels as a VarInt
        w_obj, r_obj = self.make_owner(I, ctx, i)
        self.w_obj_for_body, self.r_obj = w_obj, r_obj
        self.set_list(w_obj, AbsElems(self.n))
        buf = I.call(PacketBuffer)
        try:
            self.call_writer(I, w_obj, buf)
        except PyRaise as e:
            E.check('list.write-no-raise', False, note='writer raised %r for wire-representable values' % (e.exc,))
            return None
        I.call(I.getattr_(buf, 'reset_cursor'))
        try:
            self.call_reader(I, r_obj, buf)
        except PyRaise as e:
            E.check('list.read-no-raise', False, note='reader raised %r on the bytes just written' % (e.exc,))
            return None
        except Unsupported as e:
            if 'layout mismatch' in str(e) or 'ord of an opaque' in str(e):
                E.check('list.read-no-raise', False, note='reader and writer disagree about the layout: %s' % e)
                return None
            raise
        acc = self.get_list(r_obj)
        E.check('list.length', isinstance(acc, AbsAccum) and And(acc.n == self.n, len(acc.appended) == 0),
                note='exactly n elements after the loop (each equal to its original by the loop invariant)')
        for k in self.other_fields(w_obj):
            E.check('list.other-fields[%s]' % k, same(I, getattr(r_obj, k, '<missing>'), getattr(w_obj, k)))
        rest = SBytes.of(I.call(I.getattr_(buf, 'read')))
        E.check('list.consumed', rest.length() == 0, note='the payload is consumed exactly')
        return None

    def applicable(self, I, ctx, i):
        return True

    def replay(self, model, label):
        return self.concrete(None)

    def bounded(self, rng, tier):
        rp = self.concrete(rng)
        return dict(name=self.name + '.long-lists', evaluations=rp['n'], bound=rp['bound'],
                    failures=[dict(call=rp['call'], observed=rp['observed'], witness='long-list')] if rp['confirmed'] else [])


# ------------------------------------------------------------------------------------------
class MapIcons(ElementLoops):
    name = 'C05.play.clientbound.MapPacket.icons-any-length'
    functions = ('minecraft.networking.packets.clientbound.play.map_packet.MapPacket.read [icon loop, any length]',
                 'minecraft.networking.packets.clientbound.play.map_packet.MapPacket.write_fields [icon loop, any length]')
    writer, reader, owner = staticmethod(raw(MapPacket, 'write_fields')), staticmethod(raw(MapPacket, 'read')), MapPacket

    def make_owner(self, I, ctx, i):
        E = I.E
        later = lambda p: I.truth(i >= I_[p])
        w, r = I.call(MapPacket), I.call(MapPacket)
        for p in (w, r):
            I.setattr_(p, 'context', ctx)
        w.map_id, w.scale = E.new_int('map_id', 0, (1 << 31) - 1), E.new_int('scale', -128, 127)
        w.is_tracking_position = E.new_bool('tracking') if later(107) else True
        w.is_locked = E.new_bool('locked') if later(452) else False
        if E.fork(2, 'has-pixels'):
            w.width, w.height = E.new_int('width', 1, 255), E.new_int('height', 0, 255)
            w.offset = (E.new_int('off_x', -128, 127), E.new_int('off_z', -128, 127))
            w.pixels = SBytes([E.new_blob('pixels', hi=65535)])
        else:
            w.width, w.height, w.offset, w.pixels = 0, 0, None, None
        return w, r

    def other_fields(self, w):
        return ['map_id', 'scale', 'is_tracking_position', 'is_locked', 'width', 'height', 'offset', 'pixels']

    def set_list(self, obj, value):
        obj.icons = value

    def get_list(self, obj):
        return obj.icons

    def make_element(self, I, i, tag):
        E = I.E
        later = lambda p: I.truth(i >= I_[p])
        new = later(373)
        t = E.new_int('%s.icon.type' % tag, 0, (1 << 31) - 1 if new else 15)
        d = E.new_int('%s.icon.dir' % tag, 0, 255 if new else 15)
        loc = (E.new_int('%s.icon.x' % tag, -128, 127), E.new_int('%s.icon.z' % tag, -128, 127))
        nm = (E.new_str('%s.icon.name' % tag) if E.fork(2, '%s.icon.named' % tag) else None) if later(364) else None
        return MapPacket.MapIcon(t, d, loc, nm)

    def call_writer(self, I, w, buf):
        I.call(I.getattr_(w, 'write_fields'), buf)

    def call_reader(self, I, r, buf):
        I.call(I.getattr_(r, 'read'), buf)

    def applicable(self, I, ctx, i):
        from minecraft.networking.packets import clientbound
        return I.truth(MapPacket in I.call(clientbound.play.get_packets, ctx))

    def concrete(self, rng):
        import random
        from minecraft.networking.connection import ConnectionContext
        rng = rng or random.Random(5)
        n = 0
        for p in (47, 107, 340, 393, 404, 452, 498, 578, 757):
            if p not in minecraft.SUPPORTED_PROTOCOL_VERSIONS:
                continue
            ctx = ConnectionContext(protocol_version=p)
            for count in (3, 17, 130, 300):
                n += 1
                new = p >= 373
                icons = [MapPacket.MapIcon(rng.randrange(0, 1 << 20) if new else rng.randrange(16), rng.randrange(256 if new else 16),
                                           (rng.randrange(-128, 128), rng.randrange(-128, 128)),
                                           rng.choice([None, '', 'n%d' % k]) if p >= 364 else None) for k in range(count)]
                pkt = MapPacket(ctx)
                pkt.map_id, pkt.scale, pkt.is_tracking_position, pkt.is_locked = 7, 2, True, False
                pkt.icons, pkt.width, pkt.height, pkt.offset, pkt.pixels = icons, 0, 0, None, None
                def once():
                    buf = PacketBuffer()
                    pkt.write_fields(buf)
                    buf.reset_cursor()
                    p2 = MapPacket(ctx)
                    p2.read(buf)
                    return 'icons read back differ' if p2.icons != icons else 'payload not consumed exactly' if buf.read() else None
                from pyvc.harness import native_call
                k, v = native_call(once, timeout=20)
                if k != 'ok' or v:
                    return dict(confirmed=True, n=n, bound='', call='MapPacket with %d icons at protocol %d' % (count, p),
                                observed=v if k == 'ok' else '%s %r' % (k, v))
        return dict(confirmed=False, n=n, call='MapPacket with long icon lists', observed='conforms',
                    bound='icon lists of 3, 17, 130, 300 elements at 9 protocols on the real code')


def _native_roundtrip(build, check, cases):
    from pyvc.harness import native_call
    n = 0
    for case in cases:
        n += 1
        k, v = native_call(lambda: check(*build(*case)), timeout=20)
        if k != 'ok':
            return dict(confirmed=True, n=n, bound='', call='case %r' % (case,), observed='%s %r' % (k, v))
        if v:
            return dict(confirmed=True, n=n, bound='', call='case %r' % (case,), observed=v)
    return dict(confirmed=False, n=n, call='long lists', observed='conforms', bound='')


PL = PlayerListItemPacket
ACTION_KINDS = (PL.AddPlayerAction, PL.UpdateGameModeAction, PL.UpdateLatencyAction, PL.UpdateDisplayNameAction,
                PL.RemovePlayerAction)


def make_property(E, tag):
    pr = PL.PlayerProperty()
    pr.name, pr.value = E.new_str('%s.prop.name' % tag), E.new_str('%s.prop.value' % tag)
    pr.signature = E.new_str('%s.prop.sig' % tag) if E.fork(2, '%s.prop.signed' % tag) else None
    return pr


def make_action(E, cls, tag, nprops):
    a = cls()
    a.uuid = E.new_str('%s.uuid' % tag)
    if cls is PL.AddPlayerAction:
        a.name = E.new_str('%s.name' % tag)
        a.properties = [make_property(E, '%s.%d' % (tag, q)) for q in range(nprops)]
        a.gamemode, a.ping = E.new_int('%s.gm' % tag, 0, (1 << 31) - 1), E.new_int('%s.ping' % tag, 0, (1 << 31) - 1)
        a.display_name = E.new_str('%s.display' % tag) if E.fork(2, '%s.display.present' % tag) else None
    elif cls is PL.UpdateGameModeAction:
        a.gamemode = E.new_int('%s.gm' % tag, 0, (1 << 31) - 1)
    elif cls is PL.UpdateLatencyAction:
        a.ping = E.new_int('%s.ping' % tag, 0, (1 << 31) - 1)
    elif cls is PL.UpdateDisplayNameAction:
        a.display_name = E.new_str('%s.display' % tag) if E.fork(2, '%s.display.present' % tag) else None
    return a


class PlayerListActions(ElementLoops):
    """PlayerListItemPacket.actions of any length, for one action type per unit (the element's own property list is
    unrolled for 0..1 properties here; its any-length contract is the unit below)."""
    writer, reader, owner = staticmethod(raw(PL, 'write_fields')), staticmethod(raw(PL, 'read')), PL
    int_mode = 'int'

    def __init__(self, kind):
        self.kind = ACTION_KINDS[kind]
        self.name = 'C05.play.clientbound.PlayerListItemPacket.actions-any-length[%s]' % self.kind.__name__
        q = 'minecraft.networking.packets.clientbound.play.player_list_item_packet.PlayerListItemPacket.'
        self.functions = (q + 'read [action loop, any length]', q + 'write_fields [action loop, any length]',
                          q + '%s._read' % self.kind.__name__, q + '%s._send' % self.kind.__name__)

    def make_owner(self, I, ctx, i):
        w, r = I.call(PL), I.call(PL)
        for p in (w, r):
            I.setattr_(p, 'context', ctx)
        w.action_type = self.kind
        self.nprops = I.E.fork(2, 'properties') if self.kind is PL.AddPlayerAction else 0
        return w, r

    def other_fields(self, w):
        return ['action_type']

    def set_list(self, obj, value):
        obj.actions = value

    def get_list(self, obj):
        return obj.actions

    def make_element(self, I, i, tag):
        return make_action(I.E, self.kind, tag, self.nprops)

    def call_writer(self, I, w, buf):
        I.call(I.getattr_(w, 'write_fields'), buf)

    def call_reader(self, I, r, buf):
        I.call(I.getattr_(r, 'read'), buf)

    def applicable(self, I, ctx, i):
        from minecraft.networking.packets import clientbound
        return I.truth(PL in I.call(clientbound.play.get_packets, ctx))

    def concrete(self, rng):
        from minecraft.networking.connection import ConnectionContext
        kind = self.kind

        def build(p, count):
            ctx = ConnectionContext(protocol_version=p)
            acts = []
            for k in range(count):
                a = kind(uuid='12345678-9abc-def0-1234-%012x' % k)
                if kind is PL.AddPlayerAction:
                    a.name, a.gamemode, a.ping, a.display_name = 'n%d' % k, k % 4, k, (None, '', 'd')[k % 3]
                    a.properties = [PL.PlayerProperty(name='p%d' % q, value='v', signature=(None, 's')[q % 2]) for q in range(k % 5)]
                elif kind is PL.UpdateGameModeAction:
                    a.gamemode = k % 4
                elif kind is PL.UpdateLatencyAction:
                    a.ping = k * 1000
                elif kind is PL.UpdateDisplayNameAction:
                    a.display_name = (None, '', 'd%d' % k)[k % 3]
                acts.append(a)
            pkt = PL(ctx)
            pkt.action_type, pkt.actions = kind, acts
            return ctx, pkt

        def check(ctx, pkt):
            buf = PacketBuffer()
            pkt.write_fields(buf)
            buf.reset_cursor()
            p2 = PL(ctx)
            p2.read(buf)
            if p2.actions != pkt.actions:
                return 'actions read back differ'
            if buf.read():
                return 'payload not consumed exactly'
            return None
        rp = _native_roundtrip(build, check, [(p, c) for p in (47, 340, 757) for c in (3, 40, 300)])
        rp['bound'] = 'action lists of 3, 40, 300 elements (0..4 properties each) at 3 protocols on the real code'
        return rp


class AddPlayerProperties(ElementLoops):
    """AddPlayerAction.properties of any length (the loops inside _send / _read of one action)."""
    name = 'C05.play.clientbound.PlayerListItemPacket.properties-any-length'
    writer = staticmethod(raw(PL.AddPlayerAction, '_send'))
    reader = staticmethod(raw(PL.AddPlayerAction, '_read'))
    owner = PL.AddPlayerAction
    int_mode = 'int'
    functions = ('minecraft.networking.packets.clientbound.play.player_list_item_packet.PlayerListItemPacket.AddPlayerAction._read '
                 '[property loop, any length]',
                 'minecraft.networking.packets.clientbound.play.player_list_item_packet.PlayerListItemPacket.AddPlayerAction._send '
                 '[property loop, any length]',
                 'minecraft.networking.packets.clientbound.play.player_list_item_packet.PlayerListItemPacket.PlayerProperty.read',
                 'minecraft.networking.packets.clientbound.play.player_list_item_packet.PlayerListItemPacket.PlayerProperty.send')

    def make_owner(self, I, ctx, i):
        E = I.E
        w, r = PL.AddPlayerAction(), PL.AddPlayerAction()
        w.name = E.new_str('name')
        w.gamemode, w.ping = E.new_int('gm', 0, (1 << 31) - 1), E.new_int('ping', 0, (1 << 31) - 1)
        w.display_name = E.new_str('display') if E.fork(2, 'display.present') else None
        return w, r

    def other_fields(self, w):
        return ['name', 'gamemode', 'ping', 'display_name']

    def set_list(self, obj, value):
        obj.properties = value

    def get_list(self, obj):
        return obj.properties

    def make_element(self, I, i, tag):
        return make_property(I.E, tag)

    def call_writer(self, I, w, buf):
        I.call(I.getattr_(w, '_send'), buf)

    def call_reader(self, I, r, buf):
        I.call(I.getattr_(r, '_read'), buf)

    def concrete(self, rng):
        def build(count):
            a = PL.AddPlayerAction(uuid='12345678-9abc-def0-1234-56789abcdef0', name='n', gamemode=1, ping=2, display_name=None)
            a.properties = [PL.PlayerProperty(name='p%d' % q, value='v' * (q % 7), signature=(None, '', 's')[q % 3]) for q in range(count)]
            return (a,)

        def check(a):
            buf = PacketBuffer()
            a.send(buf)
            buf.reset_cursor()
            b = PL.AddPlayerAction()
            b.read(buf)
            if b != a:
                return 'action read back differs'
            if buf.read():
                return 'payload not consumed exactly'
            return None
        rp = _native_roundtrip(build, check, [(c,) for c in (3, 40, 300)])
        rp['bound'] = 'property lists of 3, 40, 300 elements on the real code'
        return rp


def units(tier):
    return [MapIcons()] + [PlayerListActions(k) for k in range(5)] + [AddPlayerProperties()]
