"""S3 — scalar codec contracts at *atom* level (DESIGN.md §2.2 "codec atoms", §5 S3).

A typed atom Enc(T, v) is a blob whose meaning is *by definition* the spec
encoding of v under wire type T (spec/wire.py: big-endian two's complement,
IEEE-754 for Float/Double).  That the real T.send emits exactly these bytes and
the real T.read inverts them is what C02 proves at byte level against the
bodies; callers (FixedPoint, Angle, packets in C05/C07, ...) are verified
against the contracts below, never against the bodies.

  T.send(v, s)  requires v in dom(T) (else raises struct.error, as the body does)
                ensures  s.out' = s.out || Enc(T, v)
  T.read(f)     on a stream whose next |T| bytes are Enc(T, v): returns v, consumes exactly |T| bytes;
                on raw bytes: returns the spec decoding; on fewer than |T| bytes: raises struct.error.
"""
import struct
import z3

from minecraft.networking.types import basic as B

from pyvc.values import (SInt, SBool, SReal, SBytes, SOpaque, Blob, Unsupported, is_symbolic, And, mk_bool,
                         term_bool, to_real)
from pyvc.builtins_model import bytes_int, unpack_f32, unpack_f64
from .common import raw

SCALARS = {
    'Boolean': (1, 'bool'), 'UnsignedByte': (1, False), 'Byte': (1, True), 'Short': (2, True),
    'UnsignedShort': (2, False), 'Integer': (4, True), 'Long': (8, True), 'UnsignedLong': (8, False),
    'Float': (4, 'f'), 'Double': (8, 'f'),
}


def dom(tname):
    n, kind = SCALARS[tname]
    if kind is True:
        return -(1 << (8 * n - 1)), (1 << (8 * n - 1)) - 1
    if kind is False:
        return 0, (1 << (8 * n)) - 1
    return None


def _term(v):
    if isinstance(v, (SInt, SBool, SReal, SOpaque)):
        return v.t
    if isinstance(v, bool):
        return z3.BoolVal(v)
    if isinstance(v, int):
        return z3.IntVal(v)
    if isinstance(v, float):
        return to_real(v).t
    raise Unsupported('cannot make an atom of %r' % (type(v),))


def enc_atom(tname, v):
    n, _ = SCALARS[tname]
    return Blob(('enc', tname, _term(v)), n, decoded=v)


def send_contract(tname):
    n, kind = SCALARS[tname]

    def model(I, value, socket):
        if kind in (True, False):
            if isinstance(value, (SReal, float)):
                raise struct.error('required argument is not an integer')
            if isinstance(value, SBool):
                value = I.call_value(int, [value], {})
            if not isinstance(value, (SInt, int)) or isinstance(value, bool) and False:
                raise Unsupported('%s.send of %s' % (tname, type(value).__name__))
            lo, hi = dom(tname)
            if not I.truth(And(value >= lo, value <= hi)):
                raise struct.error('argument out of range')
        elif kind == 'bool':
            if isinstance(value, (SInt, SReal)):
                value = value != 0
            elif not isinstance(value, (SBool, bool)):
                value = I.truth(value)
        else:
            if not isinstance(value, (SReal, SInt, int, float, SOpaque)):
                raise struct.error('required argument is not a float')
        I.call_value(I.getattr_(socket, 'send'), [SBytes([enc_atom(tname, value)])], {})
        return None
    return model


def read_contract(tname):
    n, kind = SCALARS[tname]

    def model(I, file_object):
        data = SBytes.of(I.call_value(I.getattr_(file_object, 'read'), [n], {}))
        if len(data.atoms) == 1 and isinstance(data.atoms[0], Blob):
            k = data.atoms[0].key
            if k[0] == 'enc' and k[1] == tname:
                return data.atoms[0].decoded
            if k[0] == 'enc' and k[1] in SCALARS and SCALARS[k[1]][0] == n and \
                    SCALARS[k[1]][1] in (True, False) and kind in (True, False):
                # same width, other signedness: reinterpret the two's-complement bits
                v = data.atoms[0].decoded
                lo, hi = dom(tname)
                if isinstance(v, SInt):
                    m = 1 << (8 * n)
                    if kind is True:
                        return v - m if I.truth(v > hi) else v
                    return v + m if I.truth(v < 0) else v
        L = data.length()
        if isinstance(L, int):
            if L != n:
                raise struct.error('unpack requires a buffer of %d bytes' % n)
        elif not I.truth(L == n):
            raise struct.error('unpack requires a buffer of %d bytes' % n)
        ts = data.byte_terms()
        if ts is None:
            raise Unsupported('layout mismatch: %s.read over %r' % (tname, data))
        if kind in (True, False):
            return bytes_int(ts, kind, I.E.int_mode)
        if kind == 'bool':
            return mk_bool(ts[0] != z3.BitVecVal(0, 8))
        cat = z3.Concat(*ts)
        return SReal((unpack_f32 if n == 4 else unpack_f64)(cat))
    return model


def install_scalar_contracts(I, names=None):
    for tname in (names or SCALARS):
        T = getattr(B, tname)
        I.override(raw(T, 'send'), send_contract(tname), kind='contract')
        I.override(raw(T, 'read'), read_contract(tname), kind='contract')
