"""S3 — scalar codec contracts at *atom* level (DESIGN.md §2.2 "codec atoms", §5 S3).

A typed atom Enc(T, v) is a blob whose meaning is *by definition* the spec
encoding of v under wire type T (spec/wire.py: big-endian two's complement,
IEEE-754 for Float/Double).  That the real T.send emits exactly these bytes and
the real T.read inverts them is what C02 proves at byte level against the
bodies; callers (FixedPoint, Angle, packets in C05/C07, ...) are verified
against the contracts below, never against the bodies.

  T.send(v, s)  requires v in dom(T) (else raises struct.error, as the body does)
                ensures  s.out' = s.out || Enc(T, v)
  T.read(f)     on a stream whose next |T| bytes are Enc(T, v): returns v, consumes exactly |T| bytes;
                on raw bytes: returns the spec decoding; on fewer than |T| bytes: raises struct.error.
"""
import struct
import z3

from minecraft.networking.types import basic as B

from pyvc.values import (SInt, SBool, SReal, SBytes, SOpaque, Blob, Unsupported, is_symbolic, And, mk_bool,
                         term_bool, to_real)
from pyvc.builtins_model import bytes_int, unpack_f32, unpack_f64
from .common import raw

SCALARS = {
    'Boolean': (1, 'bool'), 'UnsignedByte': (1, False), 'Byte': (1, True), 'Short': (2, True),
    'UnsignedShort': (2, False), 'Integer': (4, True), 'Long': (8, True), 'UnsignedLong': (8, False),
    'Float': (4, 'f'), 'Double': (8, 'f'),
}


def dom(tname):
    n, kind = SCALARS[tname]
    if kind is True:
        return -(1 << (8 * n - 1)), (1 << (8 * n - 1)) - 1
    if kind is False:
        return 0, (1 << (8 * n)) - 1
    return None


def _term(v):
    from pyvc.values import SStr
    if isinstance(v, (SInt, SBool, SReal, SOpaque, SStr)):
        return v.t
    if isinstance(v, str):
        return z3.StringVal(v)
    if isinstance(v, bool):
        return z3.BoolVal(v)
    if isinstance(v, int):
        return z3.IntVal(v)
    if isinstance(v, float):
        return to_real(v).t
    raise Unsupported('cannot make an atom of %r' % (type(v),))


def enc_atom(tname, v):
    n, _ = SCALARS[tname]
    return Blob(('enc', tname, _term(v)), n, decoded=v)


def send_contract(tname):
    n, kind = SCALARS[tname]

    def model(I, value, socket):
        if kind in (True, False):
            if isinstance(value, (SReal, float)):
                raise struct.error('required argument is not an integer')
            if isinstance(value, SBool):
                value = I.call_value(int, [value], {})
            if not isinstance(value, (SInt, int)) or isinstance(value, bool) and False:
                raise Unsupported('%s.send of %s' % (tname, type(value).__name__))
            lo, hi = dom(tname)
            if not I.truth(And(value >= lo, value <= hi)):
                raise struct.error('argument out of range')
        elif kind == 'bool':
            if isinstance(value, (SInt, SReal)):
                value = value != 0
            elif not isinstance(value, (SBool, bool)):
                value = I.truth(value)
        else:
            if not isinstance(value, (SReal, SInt, int, float, SOpaque)):
                raise struct.error('required argument is not a float')
        I.call_value(I.getattr_(socket, 'send'), [SBytes([enc_atom(tname, value)])], {})
        return None
    return model


def read_contract(tname):
    n, kind = SCALARS[tname]

    def model(I, file_object):
        data = SBytes.of(I.call_value(I.getattr_(file_object, 'read'), [n], {}))
        if len(data.atoms) == 1 and isinstance(data.atoms[0], Blob):
            k = data.atoms[0].key
            if k[0] == 'enc' and k[1] == tname:
                return data.atoms[0].decoded
            if k[0] == 'enc' and k[1] in SCALARS and SCALARS[k[1]][0] == n and \
                    SCALARS[k[1]][1] in (True, False) and kind in (True, False):
                # same width, other signedness: reinterpret the two's-complement bits
                v = data.atoms[0].decoded
                lo, hi = dom(tname)
                if isinstance(v, SInt):
                    m = 1 << (8 * n)
                    if kind is True:
                        return v - m if I.truth(v > hi) else v
                    return v + m if I.truth(v < 0) else v
        L = data.length()
        if isinstance(L, int):
            if L != n:
                raise struct.error('unpack requires a buffer of %d bytes' % n)
        elif not I.truth(L == n):
            raise struct.error('unpack requires a buffer of %d bytes' % n)
        ts = data.byte_terms()
        if ts is None:
            raise Unsupported('layout mismatch: %s.read over %r' % (tname, data))
        if kind in (True, False):
            return bytes_int(ts, kind, I.E.int_mode)
        if kind == 'bool':
            return mk_bool(ts[0] != z3.BitVecVal(0, 8))
        cat = z3.Concat(*ts)
        return SReal((unpack_f32 if n == 4 else unpack_f64)(cat))
    return model


def install_scalar_contracts(I, names=None):
    for tname in (names or SCALARS):
        T = getattr(B, tname)
        I.override(raw(T, 'send'), send_contract(tname), kind='contract')
        I.override(raw(T, 'read'), read_contract(tname), kind='contract')


# ------------------------------------------------------------------------------------------
# variable-length types at atom level: VarInt/VarLong (S2), String, UUID, byte arrays, NBT
# ------------------------------------------------------------------------------------------
def peek_reader(obj):
    """The ByteReader behind a ghost stream / PacketBuffer, or None."""
    from pyvc.models import InStream, SymBytesIO, ByteReader
    if isinstance(obj, InStream):
        return obj.reader
    if isinstance(obj, SymBytesIO):
        return obj.reader
    b = getattr(obj, '__dict__', {}).get('bytes')
    if isinstance(b, SymBytesIO):
        return b.reader
    return None


def varint_length(v, mode):
    """|enc(v)| for v >= 0 as an int or SInt (ite chain over the ten thresholds)."""
    if isinstance(v, int):
        from spec import wire
        return wire.varint_len(v)
    from pyvc.values import ite
    n = 10
    for k in range(9, 0, -1):
        n = ite(v < (1 << (7 * k)), k, n)
    return n


def _key_of(v):
    if isinstance(v, SBytes):
        return tuple(('lit', a) if isinstance(a, bytes) else (('byte', a[1]) if isinstance(a, tuple) else ('blob', a.key))
                     for a in v.atoms)
    if isinstance(v, (bytes, bytearray)):
        return (('lit', bytes(v)),)
    if isinstance(v, str):
        return z3.StringVal(v)
    if isinstance(v, (tuple, list)):
        return tuple(_key_of(x) for x in v)
    return _term(v)


def var_atom(tname, v, length):
    return Blob(('enc', tname, _key_of(v)), length, decoded=v)


_NOMINAL_MAX = {'VarInt': 5, 'VarLong': 10}      # what C03 proves about the two decoders


def install_varint_contracts(I, limit_bits=None):
    """S2 at atom level, proved at byte level in C03:
         send(v, s): v < 0 raises ValueError; else s.out' = s.out || Enc(VarInt, v)
         read(f): next atom Enc(VarInt, v) -> v, consuming it; anything else: the real body is executed."""
    for T in (B.VarInt,):
        raw_send, raw_read = raw(T, 'send'), raw(T, 'read')

        def send_model(I_, value, socket, _raw=raw_send):
            if not isinstance(value, (SInt, int)) or isinstance(value, bool):
                if isinstance(value, SBool):
                    value = I_.call_value(int, [value], {})
                else:
                    return I_.call_function(_raw, [value, socket], {})
            if I_.truth(value < 0):
                raise ValueError('Cannot encode a negative value as a VarInt')
            atom = var_atom('VarInt', value, varint_length(value, I_.E.int_mode))
            I_.call_value(I_.getattr_(socket, 'send'), [SBytes([atom])], {})
            return None

        def read_model(I_, *a, _raw=raw_read):
            # classmethod (cls, file_object) or staticmethod (file_object): follow whatever the code declares
            if len(a) == 2:
                cls, file_object = a
            elif len(a) == 1:
                cls, file_object = B.VarInt, a[0]
            else:
                raise Unsupported('VarInt.read contract: unexpected call shape %r' % (a,))
            rd = peek_reader(file_object)
            if rd is not None:
                rd.skip_empty(I_)
            if rd is not None and rd.rest and isinstance(rd.rest[0], Blob) and rd.rest[0].key[:2] == ('enc', 'VarInt'):
                atom = rd.rest.pop(0)
                v = atom.decoded
                # VarInt.read has max_bytes 5, VarLong 10: longer encodings raise ValueError("too long")
                if I_.truth(atom.length > _NOMINAL_MAX[cls.__name__] if not isinstance(atom.length, int) else atom.length > _NOMINAL_MAX[cls.__name__]):
                    raise ValueError('Tried to read too long of a VarInt')
                return v
            return I_.call_function(_raw, list(a), {})
        I.override(raw_send, send_model, kind='contract')
        I.override(raw_read, read_model, kind='contract')


def _simple_var_type(tname, length_of, check=None):
    def send_model(I_, value, socket):
        if check is not None:
            check(I_, value)
        I_.call_value(I_.getattr_(socket, 'send'), [SBytes([var_atom(tname, value, length_of(I_, value))])], {})

    def make_read(raw_read):
        def read_model(I_, file_object):
            rd = peek_reader(file_object)
            if rd is not None:
                rd.skip_empty(I_)
            if rd is not None and rd.rest and isinstance(rd.rest[0], Blob) and rd.rest[0].key[:2] == ('enc', tname):
                return rd.rest.pop(0).decoded
            return I_.call_function(raw_read, [file_object], {})
        return read_model
    return send_model, make_read


def _len_bytes(I_, v):
    return I_.call_value(len, [v], {})


def install_string_contracts(I):
    """String / UUID / byte arrays / NBT as single typed atoms (byte-level proofs: C02)."""
    from pyvc.values import SStr, utf8_len

    def str_len(I_, s):
        n = utf8_len(s.t, I_.E.int_mode) if isinstance(s, SStr) else len(s.encode('utf-8'))
        return varint_length(n, I_.E.int_mode) + n

    def str_check(I_, s):
        if not isinstance(s, (str, SStr)):
            raise AttributeError("%r object has no attribute 'encode'" % type(s).__name__)

    def arr_len(I_, v):
        n = _len_bytes(I_, v)
        return varint_length(n, I_.E.int_mode) + n

    def arr_check(I_, v):
        if not isinstance(v, (bytes, bytearray, SBytes)):
            raise TypeError('a bytes-like object is required')

    specs = {
        'String': (str_len, str_check),
        'UUID': (lambda I_, v: 16, str_check),
        'VarIntPrefixedByteArray': (arr_len, arr_check),
        'TrailingByteArray': (_len_bytes, arr_check),
        'ShortPrefixedByteArray': (lambda I_, v: _len_bytes(I_, v) + 2, arr_check),
        'NBT': (lambda I_, v: I_.E.new_int('nbt.len', 1, (1 << 31) - 1), None),
    }
    ATOM_LENGTH.update({k: v[0] for k, v in specs.items()})
    for tname, (lf, chk) in specs.items():
        T = getattr(B, tname)
        send_model, make_read = _simple_var_type(tname, lf, chk)
        I.override(raw(T, 'send'), send_model, kind='contract')
        I.override(raw(T, 'read'), make_read(raw(T, 'read')), kind='contract')


ATOM_LENGTH = {}


def make_atom(I, tname, v):
    """The typed atom Enc(T, v) exactly as the send contract of T emits it (for reference encoders)."""
    if tname in SCALARS:
        return enc_atom(tname, v)
    if tname in ('VarInt', 'VarLong'):
        return var_atom('VarInt', v, varint_length(v, I.E.int_mode))
    return var_atom(tname, v, ATOM_LENGTH[tname](I, v))


def install_all_codecs(I):
    install_scalar_contracts(I)
    install_varint_contracts(I)
    install_string_contracts(I)


def install_buffer_model(I):
    """io.BytesIO -> SymBytesIO (assumed contract S1 for in-memory buffers; PacketBuffer's own five methods are
    executed from their real bodies on top of it)."""
    import io
    from pyvc.models import SymBytesIO
    I.override(io.BytesIO, lambda I_, *a: SymBytesIO(I_, *a), kind='assumed')


_install_all_prev = install_all_codecs


def install_all_codecs(I):
    _install_all_prev(I)
    install_buffer_model(I)
