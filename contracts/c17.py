"""C17 — session server hash equals Java's signed-hex SHA-1 for all inputs.

Under contract: encryption.generate_verification_hash, minecraft_sha1_hash_digest, _number_from_bytes.
sha1 / int.from_bytes / format are assumed contracts (uninterpreted digest; two's-complement value;
signed lower-case hex), sampled against spec/javahex.py in the bounded part.  The use of the hash in
LoginReactor.react (same secret as encrypted and keyed) is obligation C10.enc.step.
"""
import hashlib
import os

import z3

from minecraft.networking import encryption

from pyvc.driver import Unit
from pyvc.values import SInt, SBool, SStr, SBytes, SByteArray, Blob, And, Unsupported
from pyvc.interp import PyRaise
from pyvc.builtins_model import _hexstr
from pyvc.harness import native_call
from spec.javahex import java_hex

ASSUMPTIONS = [
    'hashlib.sha1: the digest is a function of the concatenation of the update() arguments in call order (uninterpreted)',
    'int.from_bytes(b, "big", signed=True) is the two\'s-complement big-endian value of b',
    'format(n, "x") is signed lower-case hex without leading zeros (= BigInteger.toString(16)); sampled against '
    'spec/javahex.py',
    'str.encode("utf-8") is the UTF-8 encoding',
]
Q = 'minecraft.networking.encryption.'


class GhostSha1(object):
    """hashlib.sha1(): records the update() trace; digest() = 20 fresh bytes standing for SHA1(concat(trace))."""
    instances = []

    def __init__(self, I, *a):
        self.I = I
        self.trace = [SBytes.of(x) for x in a]
        self.digests = 0
        GhostSha1.instances.append(self)

    def update(self, data):
        if self.digests:
            raise Unsupported('update after digest')
        self.trace.append(SBytes.of(data))

    def digest(self):
        self.digests += 1
        E = self.I.E
        return SBytes([('byte', z3.BitVec('digest[%d]' % k, 8)) for k in range(20)])


class HashUnit(Unit):
    prop = 'C17'
    name = 'C17.hash'
    int_mode = 'int'
    functions = (Q + 'generate_verification_hash', Q + 'minecraft_sha1_hash_digest', Q + '_number_from_bytes')
    trusted = ('hashlib.sha1', 'int.from_bytes', 'format(n, "x")', 'utf-8 codec')

    def setup(self, I):
        I.override(hashlib.sha1, lambda I_, *a: GhostSha1(I_, *a), kind='assumed')
        # the module imported the name: resolve through the module global too
        I.global_overrides[('minecraft.networking.encryption', 'sha1')] = hashlib.sha1

    def run(self, I):
        E = I.E
        GhostSha1.instances = []
        server_id = E.new_str('server_id')
        secret = SBytes([E.new_blob('secret', 16)])
        pubkey = SBytes([E.new_blob('pubkey')])
        # "for every server id, secret and key": the secret and the key are bytes-LIKE - a bytearray (what a caller that builds
        # them incrementally holds) is hashed as its content, like bytes (seeded change C17-r11: repr of the bytearray hashed)
        rep = E.fork(3, 'bytes-like-kind')
        a_secret = SByteArray(secret) if rep == 1 else secret
        a_pubkey = SByteArray(pubkey) if rep == 2 else pubkey
        try:
            r = I.call(encryption.generate_verification_hash, server_id, a_secret, a_pubkey)
        except PyRaise as e:
            E.check('hash.no-raise', False, note='raised %r' % (e.exc,))
            return None
        E.check('hash.one-digest', len(GhostSha1.instances) == 1 and GhostSha1.instances[0].digests >= 1,
                note='one SHA-1 computation over the three inputs')
        h = GhostSha1.instances[0]
        cat = SBytes()
        for t in h.trace:
            cat = cat + t
        want = server_id.encode('utf-8') + secret + pubkey
        E.check('hash.order', cat == want, note='SHA-1 over utf8(server_id) || shared_secret || public_key, nothing else')
        E.must_fail('hash.order-swapped', _safe_eq(cat, server_id.encode('utf-8') + pubkey + secret))
        # signed big-endian value of the digest, written out independently
        total = z3.IntVal(0)
        for k in range(20):
            total = total + z3.BV2Int(z3.BitVec('digest[%d]' % k, 8), False) * (1 << (8 * (19 - k)))
        total = total - z3.If(z3.BV2Int(z3.BitVec('digest[0]', 8), False) >= 128, z3.IntVal(1 << 160), z3.IntVal(0))
        E.check('hex.signed', SBool(r.t == _hexstr(total)) if isinstance(r, SStr) else False,
                note='result = hex(signed big-endian integer of the 20 digest bytes)')
        E.must_fail('hex.unsigned', SBool(r.t == _hexstr(total + z3.If(z3.BV2Int(z3.BitVec('digest[0]', 8), False) >= 128,
                                                                     z3.IntVal(1 << 160), z3.IntVal(0))))
                    if isinstance(r, SStr) else True)
        return None

    def replay(self, model, label):
        # the counter-model is a digest, which cannot be inverted: search inputs whose real digest shows the failure
        for n in range(400):
            sid = ['Notch', 'jeb_', 'simon'][n] if n < 3 else 's%d' % n
            rp = replay_hash(sid, b'' if n < 3 else b'0123456789abcdef', b'' if n < 3 else b'key')
            if rp['confirmed']:
                return rp
        return rp

    def bounded(self, rng, tier):
        fails, cnt = [], 0
        vectors = [('Notch', '4ed1f46bbe04bc756bcb17c0c7ce3e4632f06a48'),
                   ('jeb_', '-7c9d5b0044c130109a5d7b5fb5c317c02b4e28c1'),
                   ('simon', '88e16a1019277b15d58faf0541e11910eb756f6')]
        for sid, want in vectors:
            cnt += 1
            got = encryption.generate_verification_hash(sid, b'', b'')
            if got != want:
                fails.append(dict(call='generate_verification_hash(%r, b"", b"")' % sid, observed='%s, published %s' % (got, want),
                                  witness='vector:' + sid))
        # digests with a set top bit, leading zero nibbles and leading zero bytes: search over server ids
        found = {'neg': 0, 'zero-nibble': 0, 'zero-byte': 0}
        n = 0
        while min(found.values()) < 3 and n < 200000:
            n += 1
            sid = 's%d' % n
            d = hashlib.sha1(sid.encode() + b'k' + b'p').digest()
            kinds = []
            if d[0] & 0x80:
                kinds.append('neg')
            if d[0] < 0x10:
                kinds.append('zero-nibble')
            if d[0] == 0:
                kinds.append('zero-byte')
            if not kinds or all(found[k] >= 3 for k in kinds):
                continue
            for k in kinds:
                found[k] += 1
            cnt += 1
            rp = replay_hash(sid, b'k', b'p')
            if rp['confirmed']:
                fails.append(dict(call=rp['call'], observed=rp['observed'], witness='hash'))
        # one digest for every possible leading byte (sign boundary 0x7f/0x80, 0x00, 0xff, ...)
        lead, n = {}, 0
        while len(lead) < 256 and n < 100000:
            n += 1
            d = hashlib.sha1(('t%d' % n).encode() + b'K' + b'P').digest()
            if d[0] not in lead:
                lead[d[0]] = 't%d' % n
        for b0 in sorted(lead):
            cnt += 1
            rp = replay_hash(lead[b0], b'K', b'P')
            if rp['confirmed']:
                fails.append(dict(call=rp['call'], observed=rp['observed'], witness='hash'))
                break
        for sec, key in ((bytearray(b'0123456789abcdef'), b'key'), (b'0123456789abcdef', bytearray(b'key')),
                         (memoryview(b'0123456789abcdef'), memoryview(b'key')), (bytearray(16), bytearray(b'\x30\x81'))):
            cnt += 1
            k, got = native_call(encryption.generate_verification_hash, 'srv', sec, key)
            want = java_hex(hashlib.sha1(b'srv' + bytes(sec) + bytes(key)).digest())
            if k != 'ok' or got != want:
                fails.append(dict(call='generate_verification_hash("srv", %s(...), %s(...))' % (type(sec).__name__, type(key).__name__),
                                  observed='%s %r, Java gives %s for the same bytes' % (k, got, want), witness='hash-bytes-like'))
                break
        for _ in range(300):
            cnt += 1
            sid = ''.join(chr(rng.choice([rng.randrange(32, 127), rng.randrange(0xa0, 0x800), 0x20ac])) for _ in range(rng.randrange(0, 20)))
            rp = replay_hash(sid, bytes(rng.getrandbits(8) for _ in range(16)), bytes(rng.getrandbits(8) for _ in range(rng.randrange(0, 200))))
            if rp['confirmed']:
                fails.append(dict(call=rp['call'], observed=rp['observed'], witness='hash'))
                break
        return dict(name='C17.hash.vectors', evaluations=cnt, failures=fails[:2],
                    bound='3 published vectors, searched digests (top bit set / leading zero nibble / leading zero byte: %r), '
                          'one digest per leading byte value 0..255, bytearray / memoryview arguments, 300 seeded random triples' % (found,))


def _safe_eq(a, b):
    try:
        return a == b
    except Unsupported:
        return False


def replay_hash(sid, secret, key):
    k, got = native_call(encryption.generate_verification_hash, sid, secret, key)
    want = java_hex(hashlib.sha1(sid.encode('utf-8') + secret + key).digest())
    bad = k != 'ok' or got != want
    return dict(confirmed=bad, call='generate_verification_hash(%r, %r, %r)' % (sid, secret, key[:8]),
                observed='%s %r, Java gives %s' % (k, got, want))


def units(tier):
    from . import c02
    from minecraft.networking.types import String
    su = c02.ArrayUnit(String)
    # the server id that is hashed is the one String.read decoded from the encryption request: it must be exactly the
    # string the server sent (strict UTF-8, nothing stripped or normalised), else the digest is of a different id
    su.prop, su.name = 'C17', 'C17.server-id.string-decoding'
    # "the server hash SENT to the session service": the step that computes the hash and hands it to join() - on every
    # attempt, also after the service answered with an error
    from . import c10
    es = c10.EncStep()
    es.prop, es.name = 'C17', 'C17.hash-sent-to-join'
    from .deps import dependency_units
    return [HashUnit(), su, es] + dependency_units('C17')
