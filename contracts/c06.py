"""C06 — per-version packet id tables are total and injective.

Every get_id and get_packets is executed symbolically ONCE over a symbolic chronological index i
(S4 contract); its strongest postcondition is recorded as a region table (path condition over i ->
result).  Totality and injectivity are then lemmas over those postconditions: one solver query per
(table, class) and per (table, pair of classes), over all supported versions at once.  Collisions on
known-but-unsupported versions are reported, as the property prescribes, and do not fail the check.
"""
import itertools
import os
import time

import z3

import minecraft
from minecraft.networking import connection as conn_mod
from minecraft.networking.connection import ConnectionContext, PacketReactor, LoginReactor, PlayingReactor, StatusReactor
from minecraft.networking.packets import clientbound, serverbound

from pyvc.driver import Unit
from pyvc.engine import Engine, Obligation, DISCHARGED, FAILED, UNKNOWN
from pyvc.interp import Interp, PyRaise, qualname_of
from pyvc.values import SInt, SBool, And, Or, Not, Unsupported
from .common import (install_version_contracts, sym_context, real_context, protocol_of_index, known_count,
                     supported_indices, ranges, raw)

ASSUMPTIONS = [
    'S4: ConnectionContext predicates <=> comparisons of chronological indices (contract proved in C08)',
    'set union / membership on sets of classes (Python set semantics; class objects hash by identity)',
]

TABLES = [
    ('handshake', 'clientbound', clientbound.handshake.get_packets),
    ('handshake', 'serverbound', serverbound.handshake.get_packets),
    ('status', 'clientbound', clientbound.status.get_packets),
    ('status', 'serverbound', serverbound.status.get_packets),
    ('login', 'clientbound', clientbound.login.get_packets),
    ('login', 'serverbound', serverbound.login.get_packets),
    ('play', 'clientbound', clientbound.play.get_packets),
    ('play', 'serverbound', serverbound.play.get_packets),
]

_I = z3.Int('i')


def summarize(fn, args_builder, unit, stats):
    """Strongest postcondition of fn(ctx) as a list of (region formula over i, outcome)."""
    E = Engine(unit + '.summary', timeout_ms=20000)
    E.int_mode = 'int'
    I = Interp(E)
    install_version_contracts(I)
    regions = []

    def run(E_):
        ctx, i = sym_context(I, 'known', 'i')
        try:
            r = I.call(fn, *args_builder(ctx))
            return ('val', r)
        except PyRaise as e:
            return ('raise', e.exc)

    def on_path(E_, rec):
        regions.append((z3.And(*E_.pc) if E_.pc else z3.BoolVal(True), rec['outcome']))
    E.explore(run, on_path)
    stats['paths'] += len(E.paths)
    stats['queries'] += E.queries
    stats['solver'] += E.solver_time
    stats['hashes'].update(I.index.hashes())
    stats['functions'].update(I.functions_seen)
    return regions


def supported_formula():
    return z3.Or(*[z3.And(_I >= a, _I <= b) for a, b in ranges(supported_indices())])


def known_formula():
    return z3.And(_I >= 0, _I < known_count())


class IdTable(Unit):
    prop = 'C06'
    int_mode = 'int'
    uses = ('S4 version-order contract',)

    def __init__(self, state, direction, get_packets):
        self.state, self.direction, self.get_packets = state, direction, get_packets
        self.name = 'C06.%s.%s' % (state, direction)
        self.functions = (qualname_of(get_packets),)
        self.reported = []

    def run(self, I):
        E = I.E
        stats = dict(paths=0, queries=0, solver=0.0, hashes={}, functions={})
        t0 = time.time()
        member_regions = summarize(self.get_packets, lambda ctx: (ctx,), self.name, stats)
        classes = []
        for f, out in member_regions:
            if out[0] != 'val':
                self._record(E, 'members.total', FAILED, note='get_packets raised %r' % (out[1],))
                continue
            for c in out[1]:
                if c not in classes:
                    classes.append(c)
        classes.sort(key=lambda c: c.__name__)
        # regions.cover: the regions of get_packets cover every known index
        s = z3.Solver()
        s.add(known_formula(), z3.Not(z3.Or(*[f for f, _ in member_regions])))
        self._record(E, 'regions.cover', DISCHARGED if s.check() == z3.unsat else FAILED)
        member = {c: z3.Or(*[f for f, out in member_regions if out[0] == 'val' and c in out[1]]) for c in classes}
        ids = {}
        fns = list(self.functions)
        for c in classes:
            getid = c.get_id
            fns.append(qualname_of(getid))
            regs = summarize(getid, lambda ctx: (ctx,), self.name + '.' + c.__name__, stats)
            ids[c] = regs
            # id.total: on the membership region (supported versions) get_id returns an int >= 0, raises on no path
            for f, out in regs:
                s = z3.Solver()
                s.add(f, member[c], supported_formula())
                ok_val = out[0] == 'val' and isinstance(out[1], int) and not isinstance(out[1], bool) and out[1] >= 0
                if ok_val:
                    self._record(E, 'id.total[%s]' % c.__name__, DISCHARGED)
                elif s.check() == z3.unsat:
                    self._record(E, 'id.total[%s]' % c.__name__, DISCHARGED,
                                 note='non-integer outcome %r only outside the membership region' % (out[1],))
                else:
                    i0 = s.model().eval(_I, model_completion=True).as_long()
                    self._record(E, 'id.total[%s]' % c.__name__, FAILED,
                                 model={'i': i0, 'A': c.__name__, 'kind': 'total'},
                                 note='get_id gives %r at protocol %d' % (out[1], protocol_of_index(i0)))
            s = z3.Solver()
            s.add(known_formula(), z3.Not(z3.Or(*[f for f, _ in regs])))
            self._record(E, 'regions.cover[%s]' % c.__name__, DISCHARGED if s.check() == z3.unsat else FAILED)
        self.functions = tuple(fns)
        self.classes = classes
        # id.injective: per unordered pair, over all supported versions; witnesses enumerated
        sup = supported_formula()
        for A, B in itertools.combinations(classes, 2):
            label = 'id.injective[%s/%s]' % (A.__name__, B.__name__)
            clash = z3.Or(*[z3.And(fa, fb) for fa, oa in ids[A] for fb, ob in ids[B]
                            if oa[0] == 'val' and ob[0] == 'val' and oa[1] == ob[1]] or [z3.BoolVal(False)])
            s = z3.Solver()
            s.add(known_formula(), member[A], member[B], clash)
            witnesses = []
            while s.check() == z3.sat:
                i0 = s.model().eval(_I, model_completion=True).as_long()
                witnesses.append(i0)
                s.add(_I != i0)
                if len(witnesses) > 400:
                    break
            supset = set(supported_indices())
            bad = [w for w in witnesses if w in supset]
            rep = [w for w in witnesses if w not in supset]
            for w in rep:
                key = '%s/%s@%d' % (A.__name__, B.__name__, protocol_of_index(w))
                self.reported.append(key)
                if key not in self.baseline():
                    # a collision on a known version that is not supported BY DEFAULT, and that the tree did not have when the
                    # baseline was taken: the set of supported versions is extensible at run time (the documented way to use a
                    # snapshot), and from that moment this is a collision on a supported version (seeded change C06-r11).  The
                    # collisions already present on such versions stay "reported only", as the property prescribes.
                    self._record(E, 'id.injective-once-supported[%s/%s]' % (A.__name__, B.__name__), FAILED,
                                 model={'i': w, 'A': A.__name__, 'B': B.__name__, 'kind': 'collision'},
                                 note='NEW collision at known-but-unsupported protocol %d (not among the %d reported ones of the '
                                      'baseline)' % (protocol_of_index(w), len(self.baseline())))
            if not bad:
                self._record(E, label, DISCHARGED,
                             note='' if not rep else '%d collisions on unsupported known versions (reported only)' % len(rep))
            if bad:
                # the blocking-clause loop ended with unsat: no collision of this pair outside the enumerated witnesses
                self._record(E, label.replace('id.injective', 'id.injective-residual'), DISCHARGED,
                             note='no further collision beyond the %d enumerated witnesses' % len(witnesses))
            for w in bad:
                self._record(E, label, FAILED, model={'i': w, 'A': A.__name__, 'B': B.__name__, 'kind': 'collision'},
                             note='both resolve to the same id at protocol %d' % protocol_of_index(w))
        E.queries += stats['queries']
        E.solver_time += stats['solver']
        E.notes.append('summaries: %d paths over the symbolic version index' % stats['paths'])
        if os.environ.get('VERIF_C06_WRITE_BASELINE'):
            import json
            path = os.path.join(os.path.dirname(os.path.abspath(__file__)), 'c06_unsupported_baseline.json')
            try:
                cur = json.load(open(path))
            except (IOError, ValueError):
                cur = {}
            cur[self.name.replace('C06.', '')] = sorted(self.reported)
            json.dump(cur, open(path, 'w'), indent=1, sort_keys=True)
        if self.reported:
            E.notes.append('reported (not failing): %d id collisions on known-but-unsupported versions in %s: %s'
                           % (len(self.reported), self.name, ', '.join(sorted(self.reported)[:12]) + ' ...'))
        I.index.files.update({})
        for k, v in stats['functions'].items():
            I.functions_seen.setdefault(k, v)
        self._hashes = stats['hashes']
        for fn, sha in stats['hashes'].items():
            I.index.files.setdefault(fn, (None, sha, None))
        return None

    def baseline(self):
        if not hasattr(self, '_baseline'):
            import json
            path = os.path.join(os.path.dirname(os.path.abspath(__file__)), 'c06_unsupported_baseline.json')
            try:
                self._baseline = set(json.load(open(path)).get(self.name.split('.dep.')[-1].replace('C06.', ''), []))
            except (IOError, ValueError):
                self._baseline = set()
        return self._baseline

    def _record(self, E, label, status, model=None, note=''):
        E.obligations.append(Obligation(E.unit, label, 0, status, 'z3-%s' % z3.get_version_string(), 0.0,
                                        model=model, note=note))

    def _cls(self, name):
        for c in getattr(self, 'classes', []):
            if c.__name__ == name:
                return c
        return None

    def witness_key(self, model, label):
        if model.get('kind') == 'collision':
            return '%s:%s/%s@%d' % (self.name, model['A'], model['B'], protocol_of_index(model['i']))
        if model.get('kind') == 'total':
            return '%s:%s@%d' % (self.name, model['A'], protocol_of_index(model['i']))
        return None

    def replay(self, model, label):
        i = int(model.get('i', 0))
        ctx = real_context(i)
        members = self.get_packets(ctx)
        A = self._cls(model.get('A'))
        if model.get('kind') == 'total':
            k, v = native_call_id(A, ctx)
            bad = A in members and not (k == 'ok' and isinstance(v, int) and v >= 0)
            return dict(confirmed=bad, call='%s.get_id(protocol %d)' % (A.__name__, protocol_of_index(i)),
                        observed='%s %r' % (k, v))
        B = self._cls(model.get('B'))
        ka, va = native_call_id(A, ctx)
        kb, vb = native_call_id(B, ctx)
        bad = A in members and B in members and ka == kb == 'ok' and va == vb
        return dict(confirmed=bad, call='%s.get_id / %s.get_id at protocol %d (%s %s)'
                    % (A.__name__, B.__name__, protocol_of_index(i), self.state, self.direction),
                    observed='ids %r and %r' % (va, vb))

    def bounded(self, rng, tier):
        """Cross-check of the summaries: brute force over every known version on the real functions."""
        fails, cnt = [], 0
        found = set()
        supset = set(supported_indices())
        for i in range(known_count()):
            ctx = real_context(i)
            seen = {}
            for c in self.get_packets(ctx):
                cnt += 1
                k, v = native_call_id(c, ctx)
                if i in supset and not (k == 'ok' and isinstance(v, int) and v >= 0):
                    found.add('%s:%s@%d' % (self.name, c.__name__, protocol_of_index(i)))
                if k == 'ok' and v in seen and i in supset:
                    a, b = sorted([seen[v].__name__, c.__name__])
                    found.add('%s:%s/%s@%d' % (self.name, a, b, protocol_of_index(i)))
                seen.setdefault(v, c)
        for w in sorted(found):
            fails.append(dict(call='brute force over the real get_id functions', observed='collision/partiality ' + w, witness=w))
        self._brute = found
        return dict(name=self.name + '.brute-force', evaluations=cnt, failures=fails, exhaustive_for_bound=True,
                    bound='all %d known versions x every member class' % known_count())


def native_call_id(c, ctx):
    try:
        return 'ok', c.get_id(ctx)
    except Exception as e:
        return 'raise', e


class ReactorMap(Unit):
    """reactor.map: the id -> class dict built by PacketReactor.__init__ (real body) has one key per member class and
    maps each key to the class whose id it is, for every supported version, whatever the set iteration order."""
    prop = 'C06'
    int_mode = 'int'
    uses = ('S4 version-order contract',)
    max_paths = 20000

    def __init__(self, cls):
        self.cls = cls
        self.name = 'C06.reactor.%s' % cls.__name__
        self.functions = ('minecraft.networking.connection.PacketReactor.__init__ [%s]' % cls.__name__,)

    def setup(self, I):
        install_version_contracts(I)

    def run(self, I):
        E = I.E
        ctx, i = sym_context(I, 'supported', 'i')
        conn = object.__new__(conn_mod.Connection)
        conn.__dict__['context'] = ctx
        reactor = object.__new__(self.cls)
        try:
            I.call(raw(PacketReactor, '__init__'), reactor, conn)
        except PyRaise as e:
            E.check('reactor.init-total', False, note='raised %r' % (e.exc,))
            return None
        table = reactor.clientbound_packets
        members = I.call(self.cls.__dict__['get_clientbound_packets'].__func__, ctx)
        self.last = (table, members)
        dup = len(table) != len(members)
        if dup:
            # every version index of this region is a witness: enumerate them (blocking clauses)
            ws = []
            while len(ws) < 400:
                m = E.model(And(*[i != w for w in ws]) if ws else None)
                if m is None:
                    break
                ws.append(m.value(i))
            E.obligations.append(Obligation(E.unit, 'reactor.map-size-residual', E.path_id, DISCHARGED, 'z3', 0.0,
                                            note='region fully enumerated: %d witnesses' % len(ws)))
            for w in ws:
                E.obligations.append(Obligation(E.unit, 'reactor.map-size', E.path_id, FAILED, 'z3', 0.0, model={'i': w},
                                                note='fewer ids than member classes at protocol %d' % protocol_of_index(w)))
        else:
            E.check('reactor.map-size', True, note='one key per member class (no two classes share an id)')
        ok = True
        for k, c in table.items():
            ok = ok and c in members and I.call(c.get_id, ctx) == k
        E.check('reactor.map-values', ok, note='each key maps to the class whose id it is')
        return None

    def witness_key(self, model, label):
        i = int(model.get('i', 0))
        ctx = real_context(i)
        seen, out = {}, []
        for c in sorted(self.cls.get_clientbound_packets(ctx), key=lambda c: c.__name__):
            try:
                v = c.get_id(ctx)
            except Exception:
                continue
            if v in seen:
                out.append('%s/%s' % (seen[v].__name__, c.__name__))
            seen.setdefault(v, c)
        state = {'LoginReactor': 'login', 'PlayingReactor': 'play', 'StatusReactor': 'status'}.get(self.cls.__name__, 'handshake')
        return 'C06.%s.clientbound:%s@%d' % (state, ','.join(out), protocol_of_index(i)) if out else None

    def replay(self, model, label):
        i = int(model.get('i', 0))
        ctx = real_context(i)
        conn = object.__new__(conn_mod.Connection)
        conn.context = ctx
        r = self.cls(conn)
        members = self.cls.get_clientbound_packets(ctx)
        bad = len(r.clientbound_packets) != len(members)
        return dict(confirmed=bad, call='%s(connection at protocol %d)' % (self.cls.__name__, protocol_of_index(i)),
                    observed='%d ids for %d member classes (%s)' % (len(r.clientbound_packets), len(members),
                                                                    self.witness_key(model, label)))


def _own_units(tier):
    us = [IdTable(*t) for t in TABLES]
    us += [ReactorMap(c) for c in (PacketReactor, StatusReactor, LoginReactor, PlayingReactor)]
    return us


def units(tier):
    from .deps import dependency_units
    return _own_units(tier) + dependency_units('C06')
