"""C07 — core packets match the published protocol for every supported release.

Oracle: spec/protocol_ref.py (trusted input, written from the protocol documentation, shares no code
with pyCraft) + the spec encoders of spec/wire.py.  For each README-listed release protocol and each
core packet: membership, id, and the layout emitted by the REAL write_fields (executed symbolically
with symbolic field values, field types through their S2/S3 contracts) must equal the reference field
list; the REAL read on the reference sequence must return the values.
"""
import io
import struct
import uuid as uuid_mod

import z3

import minecraft
from minecraft.networking.connection import ConnectionContext
from minecraft.networking.packets import clientbound, serverbound, Packet, PacketBuffer
from minecraft.networking.types import basic as B

from pyvc.driver import Unit
from pyvc.values import SInt, SBool, SBytes, SStr, SReal, SOpaque, Blob, And, Unsupported
from pyvc.models import OutSocket, InStream, SymBytesIO
from pyvc.interp import PyRaise
from pyvc.harness import native_call
from spec import wire, protocol_ref as ref
from .codec import install_all_codecs, enc_atom, var_atom, varint_length, make_atom, SCALARS, dom
from .common import raw

ASSUMPTIONS = [
    'spec/protocol_ref.py (ids and field lists per release) is a trusted input transcribed from the protocol documentation',
    'field types emit/parse their spec encodings (S2/S3 contracts, proved at byte level in C02/C03)',
    'NBT values are opaque (pynbt is external): only their position in the layout is checked',
    'signedness of one-byte fields is not distinguished at layout level (same width, same bits)',
]

TABLE = {
    ('handshake', 'serverbound'): serverbound.handshake.get_packets, ('handshake', 'clientbound'): clientbound.handshake.get_packets,
    ('status', 'serverbound'): serverbound.status.get_packets, ('status', 'clientbound'): clientbound.status.get_packets,
    ('login', 'serverbound'): serverbound.login.get_packets, ('login', 'clientbound'): clientbound.login.get_packets,
    ('play', 'serverbound'): serverbound.play.get_packets, ('play', 'clientbound'): clientbound.play.get_packets,
}

KIND_ATOM = {'varint': 'VarInt', 'long': 'Long', 'int': 'Integer', 'byte': 'Byte', 'ubyte': 'UnsignedByte',
             'ushort': 'UnsignedShort', 'bool': 'Boolean', 'float': 'Float', 'double': 'Double', 'string': 'String',
             'uuid': 'UUID', 'bytes': 'VarIntPrefixedByteArray', 'nbt': 'NBT'}
NBT_SORT = z3.DeclareSort('NBT')


def find_class(state, direction, ctx, packet_name):
    cands = [c for c in TABLE[(state, direction)](ctx) if c.packet_name == packet_name]
    return cands[0] if len(cands) == 1 else None


def sym_value(E, kind, name):
    if kind == 'varint':
        return E.new_int(name, 0, (1 << 31) - 1)
    if kind in ('long', 'int', 'byte', 'ubyte', 'ushort'):
        lo, hi = dom(KIND_ATOM[kind])
        return E.new_int(name, lo, hi)
    if kind == 'bool':
        return E.new_bool(name)
    if kind in ('float', 'double'):
        return E.new_real(name)
    if kind in ('string', 'uuid'):
        return E.new_str(name)
    if kind == 'bytes':
        return SBytes([E.new_blob(name)])
    if kind == 'nbt':
        return E.new_opaque(name, NBT_SORT, 'nbt')
    if kind == 'strings':
        return [E.new_str(name + '0'), E.new_str(name + '1')]
    raise AssertionError(kind)


def spec_atoms(I, kind, v):
    """Reference encoding of one field as typed atoms."""
    E = I.E
    if kind == 'strings':
        out = [var_atom('VarInt', len(v), varint_length(len(v), E.int_mode))]
        for s in v:
            out += spec_atoms(I, 'string', s)
        return out
    return [make_atom(I, KIND_ATOM[kind], v)]


class CorePacket(Unit):
    prop = 'C07'
    uses = ('S2/S3 codec contracts', 'S4 version order (real bodies, concrete context)')
    trusted = ('spec/protocol_ref.py',)

    def __init__(self, protocol):
        self.p = protocol
        self.name = 'C07.release-%d' % protocol
        self.functions = ('minecraft.networking.packets.packet.Packet.write_fields', 'minecraft.networking.packets.packet.Packet.read',
                          'get_id / get_definition / get_packets of the core classes at protocol %d' % protocol)

    def setup(self, I):
        install_all_codecs(I)

    def run(self, I):
        E = I.E
        p = self.p
        table = ref.reference(p)
        keys = sorted(table)
        key = keys[E.fork(len(keys), 'packet')]
        state, direction, want_id, fields = table[key]
        ctx = ConnectionContext(protocol_version=p)
        cls = find_class(state, direction, ctx, ref.PACKET_NAMES[key])
        E.check('ref.membership[%s]' % key, cls is not None,
                note='a unique class named %r is registered for %s %s' % (ref.PACKET_NAMES[key], state, direction))
        if cls is None:
            return None
        try:
            got_id = I.call(cls.get_id, ctx)
        except PyRaise as e:
            E.check('ref.id[%s]' % key, False, note='get_id raised %r' % (e.exc,))
            return None
        E.check('ref.id[%s]' % key, got_id == want_id, note='id 0x%02X, reference 0x%02X' % (got_id, want_id)
                if isinstance(got_id, int) else '')
        # layout of the real writer
        pkt = I.call(cls)
        I.setattr_(pkt, 'context', ctx)
        vals = {}
        for kind, name in fields:
            vals[name] = sym_value(E, kind, name)
            I.setattr_(pkt, name, vals[name])
        buf = I.call(PacketBuffer)
        try:
            I.call(I.getattr_(pkt, 'write_fields'), buf)
        except PyRaise as e:
            E.check('ref.layout[%s]' % key, False, note='write_fields raised %r' % (e.exc,))
            return None
        out = I.call(I.getattr_(buf, 'get_writable'))
        want = []
        for kind, name in fields:
            want += spec_atoms(I, kind, vals[name])
        try:
            same = SBytes.of(out) == SBytes(want)
        except Unsupported as e:
            same = False
        import os
        if os.environ.get('VERIF_DEBUG') and same is not True:
            print('LAYOUT', key, '\n  got ', out, '\n  want', SBytes(want), same)
        E.check('ref.layout[%s]' % key, same, note='fields in reference order with reference wire kinds')
        # the real reader on the reference sequence
        pkt2 = I.call(cls)
        I.setattr_(pkt2, 'context', ctx)
        buf2 = I.call(PacketBuffer)
        I.call(I.getattr_(buf2, 'send'), SBytes(want))
        I.call(I.getattr_(buf2, 'reset_cursor'))
        try:
            I.call(I.getattr_(pkt2, 'read'), buf2)
            ok = True
            for kind, name in fields:
                r = I.equals(I.getattr_(pkt2, name), vals[name])
                ok = And(ok, r)
            E.check('ref.decode[%s]' % key, ok, note='reading the reference encoding returns the field values')
            E.check('ref.consumed[%s]' % key, SBytes.of(I.call(I.getattr_(buf2, 'read'))).length() == 0)
        except PyRaise as e:
            E.check('ref.decode[%s]' % key, False, note='read raised %r' % (e.exc,))
        return None

    def witness_key(self, model, label):
        return '%s:%s' % (self.name, label)

    def replay(self, model, label):
        key = label.split('[')[-1].rstrip(']')
        r = None
        for variant in range(NVARIANTS):
            r = r or concrete_check(self.p, key, variant)
        return dict(confirmed=r is not None, call='core packet %s at protocol %d against the reference encoder' % (key, self.p),
                    observed=r or 'byte-level check with boundary values conforms')

    def bounded(self, rng, tier):
        fails, cnt = [], 0
        for key in sorted(ref.reference(self.p)):
            for variant in range(NVARIANTS):
                cnt += 1
                r = concrete_check(self.p, key, variant, rng)
                if r is not None:
                    fails.append(dict(call='%s at protocol %d (byte level)' % (key, self.p), observed=r,
                                      witness='%s:%s' % (self.name, key)))
                    break
        return dict(name=self.name + '.byte-level', evaluations=cnt, failures=fails,
                    bound='every core packet x %d boundary/seeded value sets (VarInt values and string/array lengths on both sides of '
                    'the 1/2/3-byte length boundaries), independent byte-level encoder' % NVARIANTS)


# ---- byte-level independent encoder (concrete) ---------------------------------------------------
NVARIANTS = 6


def conc_value(kind, variant, rng=None):
    r = rng
    if kind == 'varint':
        return [0, (1 << 31) - 1, 300, 127, 16383, 128][variant]
    if kind == 'string' and variant >= 3:
        return ['y' * 127, 'z' * 16383, 'w' * 128][variant - 3]
    if kind == 'bytes' and variant >= 3:
        return [b'a' * 127, b'b' * 16383, b'c' * 128][variant - 3]
    variant %= 3
    if kind in ('long', 'int', 'byte', 'ubyte', 'ushort'):
        lo, hi = dom(KIND_ATOM[kind])
        return [lo, hi, (r.randint(lo, hi) if r else 1)][variant]
    if kind == 'bool':
        return [False, True, True][variant]
    if kind in ('float', 'double'):
        return [0.0, -1.5, 1024.25][variant]
    if kind == 'string':
        return ['', 'x' * 200, 'héllo €'][variant]
    if kind == 'uuid':
        return ['00000000-0000-0000-0000-000000000000', 'ffffffff-ffff-ffff-ffff-ffffffffffff',
                '12345678-9abc-def0-1234-56789abcdef0'][variant]
    if kind == 'bytes':
        return [b'', bytes(range(200)), b'\x00\xff'][variant]
    if kind == 'strings':
        return [[], ['minecraft:overworld', 'minecraft:the_nether'], ['a']][variant]
    if kind == 'nbt':
        import pynbt
        return pynbt.TAG_Compound({'k': pynbt.TAG_Int(variant)})
    raise AssertionError(kind)


def conc_bytes(kind, v):
    if kind == 'varint':
        return wire.varint_enc(v)
    if kind in ('long', 'int', 'byte', 'ubyte', 'ushort'):
        n, signed = SCALARS[KIND_ATOM[kind]]
        return wire.be(v, n, signed)
    if kind == 'bool':
        return b'\x01' if v else b'\x00'
    if kind == 'float':
        return struct.pack('>f', v)
    if kind == 'double':
        return struct.pack('>d', v)
    if kind == 'string':
        e = v.encode('utf-8')
        return wire.varint_enc(len(e)) + e
    if kind == 'uuid':
        return bytes.fromhex(v.replace('-', ''))
    if kind == 'bytes':
        return wire.varint_enc(len(v)) + v
    if kind == 'strings':
        return wire.varint_enc(len(v)) + b''.join(conc_bytes('string', s) for s in v)
    if kind == 'nbt':
        import pynbt
        b = io.BytesIO()
        pynbt.NBTFile(value=v).save(b)
        return b.getvalue()
    raise AssertionError(kind)


def concrete_check(p, key, variant, rng=None):
    state, direction, want_id, fields = ref.reference(p)[key]
    ctx = ConnectionContext(protocol_version=p)
    cls = find_class(state, direction, ctx, ref.PACKET_NAMES[key])
    if cls is None:
        return 'no unique class named %r in %s %s' % (ref.PACKET_NAMES[key], state, direction)
    if cls.get_id(ctx) != want_id:
        return 'id 0x%02X, reference 0x%02X' % (cls.get_id(ctx), want_id)
    pkt = cls(ctx)
    vals = {}
    for kind, name in fields:
        vals[name] = conc_value(kind, variant, rng)
        setattr(pkt, name, vals[name])
    buf = PacketBuffer()
    k, e = native_call(pkt.write_fields, buf)
    if k != 'ok':
        return 'write_fields: %s %r' % (k, e)
    want = b''.join(conc_bytes(kind, vals[name]) for kind, name in fields)
    if buf.get_writable() != want:
        return 'wrote %s.., reference encoder gives %s..' % (buf.get_writable()[:32].hex(), want[:32].hex())
    # whole frame through Packet.write: length, id, fields
    sock = PacketBuffer()
    pkt.write(sock)
    frame = wire.varint_enc(len(wire.varint_enc(want_id) + want)) + wire.varint_enc(want_id) + want
    if sock.get_writable() != frame:
        return 'frame %s.. differs from reference frame %s..' % (sock.get_writable()[:24].hex(), frame[:24].hex())
    pkt2 = cls(ctx)
    b2 = PacketBuffer()
    b2.send(want)
    b2.reset_cursor()
    k, e = native_call(pkt2.read, b2)
    if k != 'ok':
        return 'read of the reference encoding: %s %r' % (k, e)
    for kind, name in fields:
        got = getattr(pkt2, name)
        if kind == 'nbt':
            continue
        if got != vals[name]:
            return 'field %s decoded as %r, sent %r' % (name, got, vals[name])
    if b2.read():
        return 'read left bytes unconsumed'
    return None


def units(tier):
    us = [CorePacket(p) for p in ref.RELEASES]
    # the layouts above go through the field types' contracts; the byte-level contracts of those types (C02 / C03 units,
    # FixedPoint / Angle / dispatch excluded: no core packet uses them) are claimed here too, so a field type that stops
    # emitting the published encoding fails this property, not only C02 / C03
    from . import c02
    for u in c02.units(tier):
        if type(u).__name__ in ('FixedPointUnit', 'AngleUnit', 'Dispatch'):
            continue
        u.prop, u.name = 'C07', 'C07.types.' + u.name.split('.', 1)[1]
        us.append(u)
    # "under the connection's protocol": the packet is encoded under the context write_packet stamps on it
    from .deps import dependency_units
    # join game: the game-mode byte on the wire comes out of three settable views - in whatever order they were set
    from . import c05
    jm = c05.JoinGameModes()
    jm.prop, jm.name = 'C07', 'C07.join-game.mode-views'
    return us + [jm] + dependency_units('C07')
