"""C12 — concurrent writers: every packet hits the wire once, whole and in order.

The schedule quantifier itself is out of reach of this family (no thread semantics).  What is decided is the
mechanism the property rests on, as an ownership contract with ghost lock depth:
  lock.discipline   every path to Packet.write / the queue head holds the write lock (checked at each call site,
                    plus a closed-world scan of the package for call sites nobody has a contract for)
  frame.contiguous  one Packet.write = length prefix + body, two sends, nothing in between (C01.write.frame)
  queue.fifo        queued writes append at the tail; the only remover takes the head (C11.fifo.pop + scan)
  disconnect.flush  non-immediate: pop until the queue is empty (variant: queue length), then shutdown/close;
                    immediate: no pop, no send
Under the ASSUMED mutual exclusion of RLock these give: each packet is one contiguous frame, per-thread order is
kept.  Interleavings are not explored.
"""
import ast
import os
import socket as socket_mod
import threading
import types
from collections import deque

import minecraft
from minecraft.networking import connection as conn_mod
from minecraft.networking.connection import Connection, ConnectionContext, NetworkingThread
from minecraft.networking.packets import Packet

from pyvc.driver import Unit, REPO
from pyvc.values import And, Or, Not, Unsupported
from pyvc.interp import PyRaise
from pyvc.loops import LoopSpec
from pyvc.models import GhostLock
from pyvc.harness import native_call
from .common import harness_connection, native_connection, lock_name, raw, loop_keys
from .c11 import AbsDeque, AbsItem
from . import c01

ASSUMPTIONS = [
    'threading.RLock provides mutual exclusion and re-entrancy (assumed; interleavings are not explored)',
    'collections.deque append/popleft are atomic FIFO operations',
    'residual, not covered: the cipher-wrapper swap in LoginReactor.react and an unlocked deque.append racing with the '
    'final flush of disconnect()',
]
C_ = 'minecraft.networking.connection.Connection.'

# call sites that are allowed to reach the wire / the queue head, each verified by the unit named
EXPECTED_SITES = {
    ('_write_packet', 'Connection.write_packet'): 'C12.lock.write_packet',
    ('_write_packet', 'Connection._pop_packet'): 'requires-lock (callee of the three sites below)',
    ('_pop_packet', 'Connection.disconnect'): 'C12.disconnect.flush',
    ('_pop_packet', 'NetworkingThread._run'): 'C11.run-loop write.under-lock',
    ('packet.write', 'Connection._write_packet'): 'requires-lock (C13 dispatch order)',
    ('queue.popleft', 'Connection._pop_packet'): 'C11.fifo.pop',
    ('queue.append', 'Connection.write_packet'): 'C12.lock.write_packet',
    # other atomic ways of adding ONE packet at the tail: what the queue looks like afterwards is checked by the same unit
    ('queue.extend', 'Connection.write_packet'): 'C12.lock.write_packet (queue.append-at-tail checks the resulting queue)',
    ('queue.insert', 'Connection.write_packet'): 'C12.lock.write_packet (queue.append-at-tail checks the resulting queue)',
}


def _package_functions():
    """{owner name: (FunctionDef, path)} for every function / method of the package, plus the parsed trees."""
    funcs, trees = {}, []
    root = os.path.join(REPO, 'minecraft')
    for dp, dn, fn in os.walk(root):
        for f in fn:
            if not f.endswith('.py'):
                continue
            path = os.path.join(dp, f)
            tree = ast.parse(open(path).read(), path)
            trees.append((path, tree))
            for cls in [n for n in ast.walk(tree) if isinstance(n, ast.ClassDef)] + [tree]:
                for fdef in [n for n in getattr(cls, 'body', []) if isinstance(n, ast.FunctionDef)]:
                    owner = (cls.name + '.' if isinstance(cls, ast.ClassDef) else '') + fdef.name
                    funcs.setdefault(owner, []).append((fdef, path))
    return funcs


LOCK_ATTR = ['_write_lock']


def _lexically_locked(fdef):
    """ids of the AST nodes of `fdef` that run with the write lock held: inside `with <lock>:`, or inside the `try` of the
    equivalent spelling `<lock>.acquire()` immediately followed by `try: ... finally: <lock>.release()` (the lock may be read
    into a local first)."""
    def is_lock(expr):
        src = ast.unparse(expr)
        return src.split('.')[-1] == LOCK_ATTR[0] or src in aliases
    aliases = set()
    for a in ast.walk(fdef):
        if isinstance(a, ast.Assign) and len(a.targets) == 1 and isinstance(a.targets[0], ast.Name) and \
                ast.unparse(a.value).split('.')[-1] == LOCK_ATTR[0]:
            aliases.add(a.targets[0].id)
    locked = set()
    for w in ast.walk(fdef):
        if isinstance(w, ast.With) and any(is_lock(it.context_expr) for it in w.items):
            for inner in ast.walk(w):
                locked.add(id(inner))
        for field in ('body', 'orelse', 'finalbody'):
            stmts = getattr(w, field, None)
            if not isinstance(stmts, list):
                continue
            for a, b in zip(stmts, stmts[1:]):
                if isinstance(a, ast.Expr) and isinstance(a.value, ast.Call) and isinstance(a.value.func, ast.Attribute) and \
                        a.value.func.attr == 'acquire' and is_lock(a.value.func.value) and isinstance(b, ast.Try):
                    lock_src = ast.unparse(a.value.func.value)
                    releases = [r for r in b.finalbody if isinstance(r, ast.Expr) and isinstance(r.value, ast.Call) and
                                isinstance(r.value.func, ast.Attribute) and r.value.func.attr == 'release' and
                                ast.unparse(r.value.func.value) == lock_src]
                    if releases:
                        for part in b.body + b.handlers + b.orelse:
                            for inner in ast.walk(part):
                                locked.add(id(inner))
    return locked


def locked_only_functions(funcs):
    """Names of functions ALL of whose call sites in the package (matched by name: closed world, over-approximate) are
    lexically under the write lock or inside a function that is itself locked-only.  Such a function 'requires the
    lock' and every caller provides it - extracting locked code into a private helper keeps the discipline."""
    calls = {}            # short name -> list of (owner of the calling function, lexically locked?)
    for owner, defs in funcs.items():
        for fdef, _path in defs:
            locked = _lexically_locked(fdef)
            for c in ast.walk(fdef):
                if isinstance(c, ast.Call):
                    nm = c.func.attr if isinstance(c.func, ast.Attribute) else c.func.id if isinstance(c.func, ast.Name) else None
                    if nm:
                        calls.setdefault(nm, []).append((owner, id(c) in locked))
            # a function passed around as a value (callback, Thread target ...) may be called from anywhere
            for n in ast.walk(fdef):
                if isinstance(n, ast.Attribute) and isinstance(n.ctx, ast.Load):
                    calls.setdefault('$ref:' + n.attr, []).append(owner)
    result = set()
    changed = True
    while changed:
        changed = False
        for owner in funcs:
            short = owner.split('.')[-1]
            if owner in result or not short.startswith('_') or short.startswith('__'):
                continue                      # public methods can be called by users without the lock
            sites = calls.get(short, [])
            if not sites:
                continue
            if all(lk or caller in result for caller, lk in sites):
                # referenced other than by a call?  (self._helper passed as a value)
                ncalls = len(sites)
                nrefs = len(calls.get('$ref:' + short, []))
                if nrefs > ncalls:
                    continue
                result.add(owner)
                changed = True
    return result


def scan_sites():
    """All call sites, in the whole package, of the operations that touch the wire or remove from the queue."""
    found = {}
    LOCK_ATTR[0] = lock_name()
    funcs = _package_functions()
    locked_only = locked_only_functions(funcs)
    for owner, defs in funcs.items():
        for fdef, path in defs:
            locked = _lexically_locked(fdef)
            for c in ast.walk(fdef):
                if not (isinstance(c, ast.Call) and isinstance(c.func, ast.Attribute)):
                    continue
                a = c.func.attr
                src = ast.unparse(c.func.value)
                key = None
                if a in ('_write_packet', '_pop_packet'):
                    key = (a, owner)
                elif a == 'write' and c.args and 'socket' in ast.unparse(c.args[0]):
                    key = ('packet.write', owner)
                elif '_outgoing_packet_queue' in src and a in ('pop', 'popleft', 'clear', 'remove', 'append', 'appendleft',
                                                               'extend', 'extendleft', 'insert', 'rotate', 'reverse'):
                    key = ('queue.' + a, owner)
                if key:
                    tag = ' [lexically under the write lock]' if id(c) in locked else \
                        ' [in a helper that is only ever called under the write lock]' if owner in locked_only else ''
                    found.setdefault(key, []).append('%s:%d%s' % (os.path.relpath(path, REPO), c.lineno, tag))
            # assignments replacing the queue object
            for asg in ast.walk(fdef):
                if isinstance(asg, ast.Assign):
                    for t in asg.targets:
                        if isinstance(t, ast.Attribute) and t.attr == '_outgoing_packet_queue':
                            found.setdefault(('queue.assign', owner), []).append(
                                '%s:%d' % (os.path.relpath(path, REPO), asg.lineno))
    return found


class CallSites(Unit):
    prop = 'C12'
    name = 'C12.lock.callsites'
    int_mode = 'int'
    functions = ('closed-world scan of minecraft/**.py for call sites of _write_packet, _pop_packet, Packet.write(socket), '
                 'and mutators of _outgoing_packet_queue',)

    def run(self, I):
        E = I.E
        found = scan_sites()
        allowed = dict(EXPECTED_SITES)
        allowed[('queue.assign', 'Connection._connect')] = 'fresh queue per transport (C16.connect-model)'
        for key, where in sorted(found.items()):
            lexical = all(w.endswith(('[lexically under the write lock]', '[in a helper that is only ever called under the write lock]'))
                          for w in where) and not (key[0].startswith('queue.') and key[0] not in ('queue.popleft',))
            # a syntactic scan over-approximates: a site it cannot classify is a VIOLATION only if a directed schedule shows
            # frames interleaving on the real code (kind 'frame'), otherwise undecided - never an alarm by itself
            E.check('callsite[%s in %s]' % key, key in allowed or lexical, kind='frame',
                    note='%s - %s' % (', '.join(where), allowed.get(key, 'lexically inside "with ..._write_lock"' if lexical else
                                                                     'NO CONTRACT: a new path to the wire/queue without the lock')))
        for key in sorted(allowed):
            if key not in found:
                E.notes.append('call site %s in %s no longer exists (code was restructured)' % key)
        E.check('callsites.some-path-to-the-wire', any(k[0] in ('_write_packet', 'packet.write') for k in found),
                note='the scan still sees the code that writes frames (else it is looking at the wrong thing)')
        return None

    def replay(self, model, label):
        rp = replay_directed_all()
        return rp if rp['confirmed'] else dict(confirmed=False, call='call-site scan', observed=label)


class WritePacketLock(Unit):
    """write_packet: forced -> _write_packet under the lock; queued -> append at the tail, nothing written."""
    prop = 'C12'
    name = 'C12.lock.write_packet'
    int_mode = 'int'
    functions = (C_ + 'write_packet',)

    def run(self, I):
        E = I.E
        lock = GhostLock()
        conn = harness_connection()
        ctx = ConnectionContext(protocol_version=757)
        old = [Packet(), Packet()]
        conn.__dict__[lock_name()] = lock
        conn.__dict__.update(context=ctx, _outgoing_packet_queue=deque(old))
        calls = []
        I.override(raw(Connection, '_write_packet'), lambda I_, c, p: calls.append((p, lock.depth)), kind='contract')
        force = bool(E.fork(2, 'force'))
        pkt = Packet()
        if E.fork(2, 'packet-used-before'):
            # the same packet object was sent on ANOTHER connection before (another protocol version): it must be encoded
            # under THIS connection's context, whatever it carried (seeded change C07-r9)
            pkt.context = ConnectionContext(protocol_version=47)
        I.call(raw(Connection, 'write_packet'), conn, pkt, force)
        q = list(conn._outgoing_packet_queue)
        E.check('write_packet.context', pkt.context is ctx,
                note='write_packet stamps the packet with this connection\'s context, also when it already carried one')
        if force:
            E.check('lock.held-at-_write_packet', calls == [(pkt, 1)], note='forced write: exactly one _write_packet, lock held')
            E.check('forced.not-queued', q == old)
        else:
            E.check('queue.append-at-tail', q == old + [pkt] and calls == [],
                    note='queued write: appended after everything queued before, nothing written')
        E.check('lock.released', lock.depth == 0)
        return None

    def replay(self, model, label):
        rp = replay_context_stamp()
        return rp if rp['confirmed'] else replay_directed_all()

    def bounded(self, rng, tier):
        fails, cnt = [], 1
        rp = replay_context_stamp()
        if rp['confirmed']:
            fails.append(dict(call=rp['call'], observed=rp['observed'], witness='context-stamp'))
        for enabled in (False, True):
            for second in ('forced', 'drain'):
                cnt += 1
                rp = replay_directed(enabled, second)
                if rp['confirmed']:
                    fails.append(dict(call=rp['call'], observed=rp['observed'], witness='directed-schedule'))
        return dict(name='%s.directed-schedules' % self.name, evaluations=cnt, failures=fails[:1],
                    bound='4 directed two-thread schedules (intruder between the two sends of a frame)')


def replay_context_stamp():
    """One packet object written on two connections of different protocol versions: each must emit the id of ITS version."""
    from minecraft.networking.packets import serverbound
    out = {}
    p = serverbound.play.ChatPacket()
    p.message = 'hi'
    for proto in (47, 754, 47):
        conn = native_connection()
        setattr(conn, lock_name(), threading.RLock())
        conn.context = ConnectionContext(protocol_version=proto)
        conn._outgoing_packet_queue = deque()
        conn.options = types.SimpleNamespace(compression_enabled=False, compression_threshold=-1)
        chunks = []
        conn.socket = types.SimpleNamespace(send=lambda d, chunks=chunks: chunks.append(bytes(d)))
        k, v = native_call(conn.write_packet, p, True)
        data = b''.join(chunks)
        want_id = serverbound.play.ChatPacket.get_id(conn.context)
        if k != 'ok' or len(data) < 2 or data[1] != want_id:
            return dict(confirmed=True, call='one ChatPacket object written (forced) on connections of protocol 47, 754, 47 in turn',
                        observed='at protocol %d: %s %r, bytes %s (packet id must be 0x%02x)' % (proto, k, v, data.hex(), want_id))
    return dict(confirmed=False, call='packet object reused across connections', observed='conforms')


class DisconnectFlush(Unit):
    prop = 'C12'
    name = 'C12.disconnect.flush'
    int_mode = 'int'
    functions = (C_ + 'disconnect [flush loop]', C_ + '_pop_packet')

    def setup(self, I):
        from .common import reachable_loops
        keys = reachable_loops(raw(Connection, 'disconnect'), Connection, kind=ast.While, depth=1)
        if len(keys) != 1:
            raise Unsupported('contract does not fit the code any more: disconnect no longer has exactly one loop')
        unit = self

        def inv(I_, fr):
            return And(unit.written == unit.queue.head, unit.queue.n == unit.n0 - unit.written, unit.queue.n >= 0)

        def havoc(I_, fr):
            k = I_.E.new_int('flushed@head', 0, None)
            unit.written = k
            unit.queue.head = k
            unit.queue.n = unit.n0 - k
        I.loop_specs[keys[0]] = LoopSpec('flush', inv, havoc, lambda I_, fr: unit.queue.n + 1)

    def run(self, I):
        E = I.E
        unit = self
        self.n0 = E.new_int('queue-length', 0, None)
        self.queue = AbsDeque(self.n0)
        self.written = 0
        lock = GhostLock()
        log = []
        immediate = bool(E.fork(2, 'immediate'))

        def _write_packet(I_, c, p):
            E.check('lock.held-at-_write_packet', lock.depth >= 1)
            E.check('flush.fifo', p.idx == unit.written, note='flushed in queue order')
            unit.written = unit.written + 1
            log.append('write')
        I.override(raw(Connection, '_write_packet'), _write_packet, kind='contract')
        depth_at = {}

        def ev(name):
            depth_at[name] = lock.depth
            log.append(name)
        # fault at a particular point: shutdown() of a socket whose peer has gone raises socket.error (ENOTCONN); "then closes
        # the socket" must hold on that path too (seeded change C12-r8)
        shutdown_raises = bool(E.fork(2, 'shutdown-raises'))

        def shutdown(how):
            ev('shutdown')
            if shutdown_raises:
                raise PyRaise(OSError(107, 'Transport endpoint is not connected'))
        sock = types.SimpleNamespace(shutdown=shutdown, close=lambda: ev('close'))
        fobj = types.SimpleNamespace(close=lambda: ev('file.close'))
        conn = harness_connection()
        conn.__dict__[lock_name()] = lock
        # who serves the connection at the moment: nobody (before connect / after the thread ended), one thread, or a
        # hand-over in progress (reconnect from a listener: the successor waits for its predecessor) - "sends everything
        # queued before it" holds in each of them (seeded change C12-r9: nothing flushed during a hand-over)
        tstate = E.fork(3, 'thread-state')
        cur = types.SimpleNamespace(interrupt=False) if tstate >= 1 else None
        new = types.SimpleNamespace(interrupt=False) if tstate == 2 else None
        conn.__dict__.update(_outgoing_packet_queue=self.queue, socket=sock, file_object=fobj, connected=True,
                             networking_thread=cur, new_networking_thread=new)
        try:
            I.call(raw(Connection, 'disconnect'), conn, immediate)
        except PyRaise as e:
            E.check('flush.no-raise', False, note='%r' % (e.exc,))
            return None
        if immediate:
            E.check('immediate.sends-nothing', 'write' not in log and unit.queue.head == 0,
                    note='immediate disconnect: no pop, no send on any path')
        else:
            E.check('flush.queue-empty-before-close', unit.queue.n == 0,
                    note='everything queued before the disconnect has been written when the socket is closed')
            E.check('flush.count', unit.written == self.n0)
        E.check('close.after-flush', log[-3:] == ['shutdown', 'file.close', 'close'] and 'write' not in log[-3:])
        E.check('close.under-lock', all(depth_at.get(k, 0) >= 1 for k in ('shutdown', 'file.close', 'close')),
                note='the teardown happens with the write lock still held: no forced write of another thread can land between '
                     'the flush (or the decision to send nothing) and the close')
        E.check('lock.released', lock.depth == 0)
        return None

    def replay(self, model, label):
        rp = replay_flush()
        if not rp['confirmed']:
            rp = replay_close_race()
        for enabled in (False, True):
            if not rp['confirmed']:
                rp = replay_directed(enabled, 'disconnect')
        return rp

    def bounded(self, rng, tier):
        rp = replay_flush()
        n = rp['n']
        if not rp['confirmed']:
            rp = replay_close_race()
            n += 4
        for enabled in (False, True):
            if not rp['confirmed']:
                rp = replay_directed(enabled, 'disconnect')
                n += 1
        return dict(name='C12.flush.concrete', evaluations=n, bound='queues of 0, 1, 5, 400 packets, immediate and not, shutdown() succeeding or raising ENOTCONN, no / one / two (hand-over) networking threads, '
                    'on the real Connection; 4 directed schedules of a forced write racing with the teardown',
                    failures=[dict(call=rp['call'], observed=rp['observed'], witness='flush')] if rp['confirmed'] else [])


def replay_close_race():
    """Directed schedule: another thread attempts a forced write while disconnect() is tearing the socket down."""
    for immediate in (True, False):
        for hook in ('before-shutdown', 'in-shutdown'):
            log, started = [], []
            conn = native_connection()
            lock = threading.RLock()
            conn.context = ConnectionContext(protocol_version=757)
            conn._outgoing_packet_queue = deque()
            conn.early_outgoing_packet_listeners, conn.outgoing_packet_listeners = [], []
            conn.options = types.SimpleNamespace(compression_enabled=False, compression_threshold=-1)
            conn.connected = True
            conn.networking_thread, conn.new_networking_thread = None, None

            def intruder():
                p = c01._Raw()
                p.id, p.raw = 1, b'late'
                try:
                    conn.write_packet(p, force=True)
                except Exception:
                    pass                       # writing to a closed connection may fail; it must not reach the wire

            def intrude():
                if not started:
                    started.append(threading.Thread(target=intruder))
                    started[0].start()
                    started[0].join(0.25)

            class Lock(object):
                # the lock the code under test uses, with a hook when it is finally released by disconnect()
                def __enter__(self):
                    lock.acquire()

                def __exit__(self, *a):
                    lock.release()
                    if hook == 'before-shutdown' and threading.current_thread() is main and 'disconnecting' in log:
                        intrude()

                acquire, release = lock.acquire, lock.release
            main = threading.current_thread()

            class Sock(object):
                def send(self, d):
                    log.append(('send', bytes(d)))

                def shutdown(self, how):
                    if hook == 'in-shutdown':
                        intrude()
                    log.append('shutdown')

                def close(self):
                    log.append('close')
            setattr(conn, lock_name(), Lock())
            conn.socket = Sock()
            conn.file_object = types.SimpleNamespace(close=lambda: log.append('file.close'))
            log.append('disconnecting')
            k, v = native_call(conn.disconnect, immediate)
            if started:
                started[0].join(5)
            sends = [e for e in log if isinstance(e, tuple)]
            if sends:
                return dict(confirmed=True, call='disconnect(immediate=%r) on thread T1; thread T2 calls write_packet(force=True) %s' %
                            (immediate, 'right after T1 leaves the locked region' if hook == 'before-shutdown' else 'while T1 is in socket.shutdown'),
                            observed='%d byte(s) were sent on the socket after the disconnect had begun (events: %r)' %
                                     (sum(len(e[1]) for e in sends), [e if isinstance(e, str) else 'send' for e in log]))
    return dict(confirmed=False, call='forced write racing with disconnect teardown', observed='nothing reaches the socket')


def replay_flush():
    n = 0
    import itertools
    for size, shutdown_raises, tstate in itertools.product((0, 1, 5, 400), (False, True), (0, 1, 2)):
        for immediate in (False, True):
            n += 1
            log = []
            conn = native_connection()
            setattr(conn, lock_name(), threading.RLock())
            conn._outgoing_packet_queue = deque(range(size))
            conn._write_packet = lambda p: log.append(p)

            def shutdown(how, log=log, shutdown_raises=shutdown_raises):
                log.append('shutdown')
                if shutdown_raises:
                    raise OSError(107, 'Transport endpoint is not connected')
            conn.socket = types.SimpleNamespace(shutdown=shutdown, close=lambda: log.append('close'))
            conn.file_object = types.SimpleNamespace(close=lambda: log.append('file.close'))
            conn.connected = True
            conn.networking_thread = types.SimpleNamespace(interrupt=False) if tstate >= 1 else None
            conn.new_networking_thread = types.SimpleNamespace(interrupt=False) if tstate == 2 else None
            k, v = native_call(conn.disconnect, immediate)
            want = ([] if immediate else list(range(size))) + ['shutdown', 'file.close', 'close']
            if k != 'ok' or log != want:
                return dict(confirmed=True, n=n, call='disconnect(immediate=%r) with %d queued packets%s%s'
                            % (immediate, size, ', socket.shutdown raising ENOTCONN' if shutdown_raises else '',
                               ('', ', one networking thread', ', during a hand-over to a successor thread')[tstate]),
                            observed='%s; events %r...' % (k, log[-6:]))
    return dict(confirmed=False, n=n, call='disconnect flush', observed='conforms')


class Threads(Unit):
    """Bounded stand-in for the schedule quantifier: real threads hammering one connection; every frame whole, per-thread order."""
    prop = 'C12'
    name = 'C12.threads'
    int_mode = 'int'
    functions = ()

    def run(self, I):
        I.E.check('threads.bounded-only', True, note='placeholder obligation: the content of this unit is its bounded part')
        return None

    def replay(self, model, label):
        return replay_threads(2, 200)

    def bounded(self, rng, tier):
        fails, cnt = [], 0
        for nthreads in (1, 2, 4):
            for enabled in (False, True):
                cnt += 1
                rp = replay_threads(nthreads, 150 if tier == 'quick' else 1500, enabled)
                if rp['confirmed']:
                    fails.append(dict(call=rp['call'], observed=rp['observed'], witness='threads'))
        return dict(name='C12.threads.stress', evaluations=cnt, failures=fails[:1],
                    bound='1/2/4 user threads x (forced + queued writes) against a draining thread, compression on/off, seeded; '
                          'a stress run, NOT an exploration of interleavings')


def replay_threads(nthreads, per_thread, enabled=False):
    import select
    conn = native_connection()
    setattr(conn, lock_name(), threading.RLock())
    conn.context = ConnectionContext(protocol_version=757)
    conn._outgoing_packet_queue = deque()
    conn.early_outgoing_packet_listeners, conn.outgoing_packet_listeners = [], []
    conn.options = types.SimpleNamespace(compression_enabled=enabled, compression_threshold=16)
    chunks = []

    class Sock(object):
        def send(self, d):
            chunks.append(bytes(d))
    conn.socket = Sock()
    stop = []

    def drain():
        while not stop or conn._outgoing_packet_queue:
            with getattr(conn, lock_name()):
                n = 0
                while conn._pop_packet():
                    n += 1
                    if n > 20:
                        break

    def user(tid):
        for i in range(per_thread):
            p = c01._Raw()
            p.id = tid
            p.raw = tid.to_bytes(1, 'big') + i.to_bytes(4, 'big') + bytes(i % 40)
            conn.write_packet(p, force=(i % 3 == 0))
    ts = [threading.Thread(target=user, args=(t,)) for t in range(nthreads)]
    d = threading.Thread(target=drain)
    d.start()
    for t in ts:
        t.start()
    for t in ts:
        t.join()
    stop.append(1)
    d.join(10)
    data = b''.join(chunks)
    pos, seen = 0, {}
    bad = None
    while pos < len(data):
        try:
            fr = c01.decode_frame(data[pos:], enabled)
        except Exception as e:
            fr, bad = None, 'frame at byte %d does not decode (%s)' % (pos, e)
        if fr is None:
            bad = bad or 'stream does not parse as whole frames at byte %d' % pos
            break
        payload, _, used = fr
        pos += used
        tid, i = payload[1], int.from_bytes(payload[2:6], 'big')
        seen.setdefault(tid, {'forced': [], 'queued': []})['forced' if i % 3 == 0 else 'queued'].append(i)
    if bad is None:
        for tid in range(nthreads):
            s = seen.get(tid, {'forced': [], 'queued': []})
            if sorted(s['forced'] + s['queued']) != list(range(per_thread)):
                bad = 'thread %d: packets lost or duplicated' % tid
            elif s['queued'] != sorted(s['queued']) or s['forced'] != sorted(s['forced']):
                bad = 'thread %d: order of its own packets not kept' % tid
    return dict(confirmed=bad is not None, call='%d threads x %d packets, compression=%r' % (nthreads, per_thread, enabled),
                observed=bad or 'conforms')


def replay_directed(enabled=False, second='forced'):
    """One adversarial schedule, deterministically: while the draining thread is between the two sends of a queued
    frame A, another thread attempts write_packet(B, force=True) (or a second drain).  With the lock held B must wait."""
    conn = native_connection()
    setattr(conn, lock_name(), threading.RLock())
    conn.context = ConnectionContext(protocol_version=757)
    conn._outgoing_packet_queue = deque()
    conn.early_outgoing_packet_listeners, conn.outgoing_packet_listeners = [], []
    conn.options = types.SimpleNamespace(compression_enabled=enabled, compression_threshold=16)
    chunks, started = [], []

    def mk(tid, n):
        p = c01._Raw()
        p.id = tid
        p.raw = bytes([tid]) * n
        return p
    A, B, C = mk(1, 40), mk(2, 33), mk(3, 9)

    def intruder():
        if second == 'forced':
            conn.write_packet(B, force=True)
        elif second == 'disconnect':
            conn.disconnect()                   # flushes C (queued behind A) and closes
        else:
            with getattr(conn, lock_name()):
                conn._pop_packet()

    class Sock(object):
        def send(self, d):
            chunks.append(bytes(d))
            if not started:
                started.append(threading.Thread(target=intruder))
                started[0].start()
                started[0].join(0.25)        # returns early only if the intruder was NOT made to wait
        def shutdown(self, how):
            pass

        def close(self):
            pass
    conn.socket = Sock()
    conn.file_object = None
    conn.connected = True
    conn.networking_thread, conn.new_networking_thread = None, None
    conn.write_packet(A)
    if second != 'forced':
        conn.write_packet(C)
    with getattr(conn, lock_name()):
        conn._pop_packet()
    if started:
        started[0].join(5)
    if conn.socket is not None:
        with getattr(conn, lock_name()):
            while conn._pop_packet():
                pass
    data, pos, ids = b''.join(chunks), 0, []
    bad = None
    while pos < len(data):
        try:
            fr = c01.decode_frame(data[pos:], enabled)
        except Exception as e:
            fr, bad = None, 'frame at byte %d does not decode (%s)' % (pos, e)
        if fr is None:
            bad = bad or 'stream does not parse as whole frames at byte %d' % pos
            break
        payload, _, used = fr
        pos += used
        if len(set(payload)) != 1:
            bad = 'a frame carries bytes of two packets'
            break
        ids.append(payload[0])
    want = [1, 2] if second == 'forced' else [1, 3]
    if bad is None and ids != want:
        bad = 'frames on the wire %r, expected %r' % (ids, want)
    return dict(confirmed=bad is not None,
                call='thread T1 drains queued packet A; between its two sends thread T2 does %s (compression=%r)' % (
                    {'forced': 'write_packet(B, force=True)', 'disconnect': 'disconnect() with C still queued'}.get(
                        second, 'a second _pop_packet under its own lock'), enabled),
                observed=bad or 'conforms')


def replay_directed_all():
    for enabled in (False, True):
        for second in ('forced', 'drain'):
            rp = replay_directed(enabled, second)
            if rp['confirmed']:
                return rp
    return rp


def lock_units(pid, prefix):
    """The whole lock discipline as units of another property: the call-site scan delegates three sites to the units that
    verify them (forced write, flush of disconnect(), write batch of _run) - a property that relies on "every path to the
    wire holds the write lock" has to claim all four, or a change that unlocks one of the delegated sites only fails C12
    (round 11: the flush of disconnect() moved in front of the lock, found independently for C01, C11, C12 and C18)."""
    from . import c11
    us = []
    for u, nm in ((CallSites(), 'callsites'), (WritePacketLock(), 'write_packet'), (DisconnectFlush(), 'disconnect-flush'),
                  (c11.RunLoop(), 'run-loop')):
        u.prop, u.name = pid, '%s.%s' % (prefix, nm)
        us.append(u)
    return us


def c01_units():
    return lock_units('C01', 'C01.writer.lock')


def _own_units(tier):
    wf = c01.WriteFrame()
    wf.prop, wf.name = 'C12', 'C12.frame.contiguous'
    from . import c11
    pop = c11.PopPacket()
    pop.prop, pop.name = 'C12', 'C12.queue.fifo-pop'
    rl = c11.RunLoop()
    rl.prop, rl.name = 'C12', 'C12.lock.run-loop'
    from . import c16
    cm = c16.ConnectModel()
    # "exactly once" needs a queue that never discards: the deque _connect creates is unbounded (connect.queue-unbounded)
    cm.prop, cm.name = 'C12', 'C12.queue.created-unbounded'
    return [CallSites(), WritePacketLock(), DisconnectFlush(), wf, pop, rl, Threads(), cm]


def units(tier):
    from .deps import dependency_units
    return _own_units(tier) + dependency_units('C12')
