"""C18 — the encrypted channel is AES-128-CFB8 keyed by the secret; secrets reach the server.

Proved (glue, on the real source): generate_shared_secret is one os.urandom(16); create_AES_cipher builds AES(key =
secret) with CFB8(iv = secret); encrypt_token_and_secret encrypts both values under the DER-loaded key with PKCS#1
v1.5 and returns them as (token, secret) - no swap; the wrappers are stream homomorphisms over their contexts for every
split (C01 cipher units); the installation in LoginReactor.react uses one cipher, two directions (C10.enc.step).
Assumed and only SAMPLED (bounded): that modes.CFB8/algorithms.AES compute AES-128-CFB8 (compared with the independent
spec/aes.py) and that RSA decrypt inverts encrypt.
"""
import os

from cryptography.hazmat.primitives.ciphers import Cipher, algorithms, modes
from cryptography.hazmat.primitives import serialization
from cryptography.hazmat.primitives.asymmetric import padding as asym_padding, rsa
from cryptography.hazmat.backends import default_backend

from minecraft.networking import encryption

from pyvc.driver import Unit
from pyvc.values import SBytes, Blob, And
from pyvc.interp import PyRaise
from pyvc.harness import native_call, Sink
from spec.aes import CFB8
from . import c01, c10
from .c10 import Trace, install_crypto, GhostCipher, GhostPubKey, _same

ASSUMPTIONS = [
    'cryptography: algorithms.AES / modes.CFB8 / Cipher compute AES-128-CFB8; contexts are stream homomorphisms; RSA PKCS#1 '
    'v1.5 decrypt inverts encrypt - assumed, sampled against spec/aes.py and a locally generated key in the bounded part',
    'os.urandom(16) returns 16 fresh random bytes',
]
Q = 'minecraft.networking.encryption.'


class Glue(Unit):
    prop = 'C18'
    name = 'C18.glue'
    functions = (Q + 'generate_shared_secret', Q + 'create_AES_cipher', Q + 'encrypt_token_and_secret')

    def run(self, I):
        E = I.E
        tr = Trace()
        install_crypto(I, tr)
        s1 = I.call(encryption.generate_shared_secret)
        s2 = I.call(encryption.generate_shared_secret)
        draws = [e for e in tr.ev if e[0] == 'urandom']
        E.check('secret.urandom16', len(draws) == 2 and all(d[1] == 16 for d in draws) and
                SBytes.of(s1).atoms[0] is draws[0][2] and SBytes.of(s2).atoms[0] is draws[1][2],
                note='each call is one fresh os.urandom(16) draw, returned unchanged (no caching across logins)')
        secret = s1
        c = I.call(encryption.create_AES_cipher, secret)
        E.check('cipher.params', isinstance(c, GhostCipher) and c.alg[0] == 'AES' and _same(c.alg[1], secret) and
                c.mode[0] == 'CFB8' and _same(c.mode[1], secret), note='AES(key = secret), CFB8(iv = secret)')
        der = SBytes([E.new_blob('der')])
        tok = SBytes([E.new_blob('token', hi=64)])
        r = I.call(encryption.encrypt_token_and_secret, der, tok, secret)
        k = GhostPubKey(der)
        pad = asym_padding.PKCS1v15()
        E.check('rsa.pair', isinstance(r, tuple) and len(r) == 2 and _same(r[0], k.encrypt(tok, pad)) and _same(r[1], k.encrypt(secret, pad)),
                note='(RSA(token), RSA(secret)) under the key loaded from the packet\'s DER bytes, PKCS#1 v1.5, in this order')
        E.must_fail('rsa.pair-swapped', And(_same(r[0], k.encrypt(secret, pad)), _same(r[1], k.encrypt(tok, pad))))
        return None

    def replay(self, model, label):
        return replay_crypto()

    def bounded(self, rng, tier):
        fails, cnt = [], 0
        for _ in range(3 if tier == 'quick' else 30):
            cnt += 1
            rp = replay_crypto(rng)
            if rp['confirmed']:
                fails.append(dict(call=rp['call'], observed=rp['observed'], witness='crypto'))
                break
        return dict(name='C18.primitives', evaluations=cnt * 70, failures=fails,
                    bound='%d rounds: random secret, both directions through the real wrappers for random streams/partitions vs the '
                          'independent AES-128-CFB8; RSA round trips for token lengths 1..64 under 1024- and 2048-bit keys' % cnt)


_KEYS = {}


def _key(bits):
    if bits not in _KEYS:
        _KEYS[bits] = rsa.generate_private_key(public_exponent=65537, key_size=bits, backend=default_backend())
    return _KEYS[bits]


def replay_crypto(rng=None):
    import random
    rng = rng or random.Random(5)
    secret = encryption.generate_shared_secret()
    if len(secret) != 16 or secret == encryption.generate_shared_secret():
        return dict(confirmed=True, call='generate_shared_secret()', observed='not 16 fresh bytes')
    cipher = encryption.create_AES_cipher(secret)
    ref_out, ref_in = CFB8(secret, secret), CFB8(secret, secret)
    sink = Sink()
    w = encryption.EncryptedSocketWrapper(sink, cipher.encryptor(), cipher.decryptor())
    data = bytes(rng.getrandbits(8) for _ in range(rng.randrange(1, 1500)))
    data = data + bytes(rng.getrandbits(8) for _ in range(rng.choice([0, 2048, 5012, 70001])))
    pos = 0
    while pos < len(data):
        k = rng.choice([rng.randrange(1, 200), 2047, 2048, 2049, 4096, 5012, 65536, 70000])
        w.send(data[pos:pos + k])
        pos += k
    if sink.data != ref_out.encrypt(data):
        return dict(confirmed=True, call='EncryptedSocketWrapper.send over %d bytes' % len(data),
                    observed='ciphertext differs from independent AES-128-CFB8(key = iv = secret)')
    incoming = bytes(rng.getrandbits(8) for _ in range(rng.randrange(1, 1500)))
    wire = CFB8(secret, secret).encrypt(incoming)
    f = encryption.EncryptedFileObjectWrapper(c01.ChunkedFile(wire, rng.choice([1, 3, 50])), w.decryptor)
    got = b''
    while len(got) < len(incoming):
        r = f.read(rng.randrange(1, 100))
        if not r:
            break
        got += r
    if got != incoming:
        return dict(confirmed=True, call='EncryptedFileObjectWrapper.read over %d bytes' % len(incoming),
                    observed='plaintext differs from independent CFB8 decryption')
    for bits in (1024, 2048):
        key = _key(bits)
        der = key.public_key().public_bytes(serialization.Encoding.DER, serialization.PublicFormat.SubjectPublicKeyInfo)
        for n in ([1, 4, 16, 64] if bits == 2048 else range(1, 65, 3)):
            tok = bytes(rng.getrandbits(8) for _ in range(n))
            et, es = encryption.encrypt_token_and_secret(der, tok, secret)
            if key.decrypt(et, asym_padding.PKCS1v15()) != tok or key.decrypt(es, asym_padding.PKCS1v15()) != secret:
                return dict(confirmed=True, call='encrypt_token_and_secret with a %d-bit key, %d-byte token' % (bits, n),
                            observed='the key holder does not recover (token, secret)')
    return dict(confirmed=False, call='AES-CFB8 / RSA round trips', observed='conform')


class GhostContext(object):
    """cryptography's CipherContext as far as the wrappers could use it: update() transforms, finalize() ends the context,
    and either of them on a finalized context raises AlreadyFinalized (assumed contract of the external library)."""

    def __init__(self, role):
        self.role = role
        self.finalized = False

    def update(self, data):
        if self.finalized:
            from cryptography.exceptions import AlreadyFinalized
            raise AlreadyFinalized('Context was already finalized.')
        return data

    def finalize(self):
        if self.finalized:
            from cryptography.exceptions import AlreadyFinalized
            raise AlreadyFinalized('Context was already finalized.')
        self.finalized = True
        return b''


class WrapperDelegation(Unit):
    """fileno / close / shutdown of the two cipher wrappers act on the wrapped object, once, with the same arguments:
    select() waits on the real descriptor and disconnect() really closes the transport once the channel is encrypted."""
    prop = 'C18'
    name = 'C18.wrapper.delegation'
    int_mode = 'int'
    functions = tuple('minecraft.networking.encryption.%s' % n for n in (
        'EncryptedFileObjectWrapper.fileno', 'EncryptedFileObjectWrapper.close', 'EncryptedSocketWrapper.fileno',
        'EncryptedSocketWrapper.close', 'EncryptedSocketWrapper.shutdown'))

    def run(self, I):
        import types
        E = I.E
        log = []
        fd = E.new_int('fd', 0, 1 << 20)
        how = E.new_int('how', 0, 2)
        actual = types.SimpleNamespace(fileno=lambda: (log.append('fileno'), fd)[1], close=lambda: log.append('close'),
                                       shutdown=lambda *a, **k: log.append(('shutdown', a, k)))
        which = E.fork(2, 'wrapper')
        enc, dec = GhostContext('encryptor'), GhostContext('decryptor')
        if which == 0:
            w = I.call(encryption.EncryptedFileObjectWrapper, actual, dec)
        else:
            w = I.call(encryption.EncryptedSocketWrapper, actual, enc, dec)
        r = I.call(I.getattr_(w, 'fileno'))
        E.check('delegation.fileno', And(I.equals(r, fd), log == ['fileno']), note='the descriptor of the real object')
        I.call(I.getattr_(w, 'close'))
        E.check('delegation.close', log == ['fileno', 'close'], note='exactly one close of the real object')
        # disconnect() closes whatever file object / socket the connection still refers to, also one that an earlier
        # disconnect() has closed already (a refused reconnect leaves the old ones in place): a second close must not raise
        try:
            I.call(I.getattr_(w, 'close'))
            E.check('delegation.close-again-does-not-raise', log.count('close') == 2,
                    note='like the objects they wrap, the wrappers can be closed again')
        except PyRaise as e:
            E.check('delegation.close-again-does-not-raise', False, note='a second close() raised %r' % (e.exc,))
        log[:] = log[:2]
        if which == 1:
            I.call(I.getattr_(w, 'shutdown'), how)
            E.check('delegation.shutdown', len(log) == 3 and log[2][0] == 'shutdown' and len(log[2][1]) == 1 and
                    I.truth(I.equals(log[2][1][0], how)) and log[2][2] == {}, note='shutdown(how) forwarded unchanged')
        return None

    def replay(self, model, label):
        import socket
        a, b = socket.socketpair()
        c = encryption.create_AES_cipher(bytes(16))
        w = encryption.EncryptedSocketWrapper(a, c.encryptor(), c.decryptor())
        f = encryption.EncryptedFileObjectWrapper(a.makefile('rb', 0), c.decryptor())
        bad = None
        try:
            if w.fileno() != a.fileno() or f.fileno() != a.fileno():
                bad = 'fileno() is not the descriptor of the wrapped socket'
            w.shutdown(socket.SHUT_RDWR)
            if b.recv(1) != b'':
                bad = bad or 'shutdown did not reach the real socket'
            f.close()
            w.close()
            if a.fileno() != -1:
                bad = bad or 'close() left the real socket open'
            for obj, nm in ((f, 'file-object'), (w, 'socket')):
                try:
                    obj.close()
                except Exception as e:      # noqa
                    bad = bad or 'closing the %s wrapper a second time raised %r (disconnect() after a refused reconnect does that)' % (nm, e)
        except Exception as e:
            bad = bad or 'raised %r' % (e,)
        finally:
            b.close()
        return dict(confirmed=bad is not None, call='fileno / shutdown / close through the cipher wrappers on a socketpair',
                    observed=bad or 'conforms')

    def bounded(self, rng, tier):
        rp = self.replay(None, '')
        return dict(name='C18.wrapper.socketpair', evaluations=1, bound='one real socketpair',
                    failures=[dict(call=rp['call'], observed=rp['observed'], witness='delegation')] if rp['confirmed'] else [])


def _own_units(tier):
    us = [Glue(), WrapperDelegation(), c10.RsaHelperCall()]
    for u, nm in ((c01.CipherFile(), 'C18.stream.file'), (c01.CipherSocket(), 'C18.stream.socket'), (c10.EncStep(), 'C18.installation')):
        u.prop, u.name = 'C18', nm
        us.append(u)
    from . import c11
    rl = c11.RunLoop()
    # the decrypting wrapper is installed in the middle of a read batch: every further read of that batch must already go
    # through it (the stream is taken from the connection at each read, never cached across reads)
    rl.prop, rl.name = 'C18', 'C18.reads-through-current-transport'
    us.append(rl)
    return us


def units(tier):
    from .deps import dependency_units
    return _own_units(tier) + dependency_units('C18')
