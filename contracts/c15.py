"""C15 — a server that stops mid-conversation never hangs or spins the client.

The crash-point quantifier is one symbolic integer: the number of bytes the server sends before it
stops (`total`).  Obligations are discharged on the same real functions as C01/C03 (this file
re-instantiates those units under C15) plus the exception path to thread termination:
  1. VarInt.read: bounded number of reads, EOFError when the stream ends (C03.read.*)
  2. reassembly loop of read_packet: variant strictly decreases on every back edge for EVERY total,
     exit only with the whole frame, otherwise EOFError (C01.read.segmentation)
  3. EncryptedFileObjectWrapper.read preserves "k = 0 iff end of stream" (C01.cipher.file)
  4. no packet from an incomplete / inconsistent frame (C01.read.frame cursor + size check)
  5. the exception reaches NetworkingThread.run's handler and the thread ends (C14 units), and in the
     status phase EOFError takes the documented fallback (C09 unit) -- added by those modules.
"""
import select

from minecraft.networking.types.basic import VarInt, VarLong
from minecraft.networking.packets import Packet

from pyvc.harness import native_call, Sink
from pyvc.driver import Unit
from pyvc.values import SBytes
from minecraft.networking.connection import PacketReactor
from spec import wire
from . import c01, c03

ASSUMPTIONS = c01.ASSUMPTIONS[:3] + [
    'S1 for the raw socket file: a blocking read returns b"" only at end of stream (k = 0 iff n = 0 or EOF)',
    'liveness beyond per-call termination (that the loop is scheduled again) is not decided',
]


def _as_c15(unit, name):
    unit.prop = 'C15'
    unit.name = name
    return unit


class PrefixReplay(c01.Segmentation):
    """Bounded stand-in: every prefix of reference server byte streams, then end of stream, through the real
    read_packet with a read budget; no hang, no spin, delivered packets are a prefix of the sent ones."""

    def bounded(self, rng, tier):
        fails, cnt = [], 0
        for enabled, thr in ((False, None), (True, 64), (True, 0)):
            s = Sink()
            sent = []
            for pid, n in ((0, 20), (7, 0), (7, 90), (300, 5), (7, 200)):
                p = c01._Raw()
                p.id = pid
                p.raw = bytes((i * 7 + pid) & 0xFF for i in range(n))
                p.write(s, thr) if enabled else p.write(s)
                sent.append((pid, p.raw))
            for cut in range(len(s.data) + 1):
                for chunk in ((1, None, 'enc3') if tier == 'quick' else (1, 2, 5, None, 'enc1', 'enc3', 'encNone')):
                    cnt += 1
                    bad = self.run_prefix(s.data[:cut], chunk, enabled, sent)
                    if bad:
                        fails.append(dict(call='stream of %d frames cut at byte %d (compression=%r, reads<=%r)'
                                          % (len(sent), cut, enabled, chunk), observed=bad, witness='prefix'))
                        break
                if fails:
                    break
        # one LARGE frame (body > 256 bytes: past CPython's small-int cache, where a byte count compared with `is` stops
        # matching - seeded change C15-r14), cut inside its body
        if not fails:
            for enabled, thr in ((False, None), (True, 64)):
                s = Sink()
                p = c01._Raw()
                p.id = 7
                p.raw = bytes((i * 11) & 0xFF for i in range(900))
                p.write(s, thr) if enabled else p.write(s)
                if enabled:
                    cuts = [3, len(s.data) // 2, len(s.data) - 1]
                else:
                    cuts = [2, 200, 258, 259, 300, 700, len(s.data) - 1]
                for cut in cuts:
                    for chunk in (1, 100, None):
                        cnt += 1
                        bad = self.run_prefix(s.data[:cut], chunk, enabled, [(7, p.raw)])
                        if bad:
                            fails.append(dict(call='one frame of 900 payload bytes cut at byte %d (compression=%r, reads<=%r)'
                                              % (cut, enabled, chunk), observed=bad, witness='prefix-large'))
                            break
                    if fails:
                        break
        return dict(name='C15.prefix-replay', evaluations=cnt, failures=fails[:2],
                    bound='every prefix of 3 reference streams (5 frames each; plain, compressed thr 64, thr 0) x read chunkings; '
                          'a 900-byte frame cut inside its body')

    @staticmethod
    def run_prefix(data, chunk, enabled, sent):
        if isinstance(chunk, str) and chunk.startswith('enc'):
            # the same conversation through the real cipher wrapper (AES-CFB8), cut at the same plaintext offset
            from minecraft.networking import encryption
            key = bytes(range(16))
            ck = {'enc1': 1, 'enc3': 3, 'encNone': None}[chunk]
            wire_bytes = encryption.create_AES_cipher(key).encryptor().update(data)
            f = encryption.EncryptedFileObjectWrapper(c01.ChunkedFile(wire_bytes, ck, budget=20000),
                                                      encryption.create_AES_cipher(key).decryptor())
        else:
            f = c01.ChunkedFile(data, chunk, budget=20000)
        reactor = c01.make_reactor(enabled)
        orig = select.select
        select.select = lambda r, w, x, t=None: (r, [], [])
        got = []
        try:
            for _ in range(len(sent) + 2):
                k, v = native_call(reactor.read_packet, f, 0, timeout=10.0)
                if k == 'hang' or (k == 'raise' and 'budget' in str(v)):
                    return 'busy loop / hang after %d packets' % len(got)
                if k == 'raise':
                    break
                got.append(v)
        finally:
            select.select = orig
        if len(got) > len(sent):
            return 'delivered more packets than were sent'
        for pkt, (pid, rawb) in zip(got, sent):
            if pid == 7:
                if getattr(pkt, 'got', None) != rawb:
                    return 'delivered a packet the server did not send completely'
            elif pkt.id != pid:
                return 'delivered a wrong packet'
        return None


class PollFails(Unit):
    """read_packet on a stream that cannot be polled: when select.select raises (ValueError for a descriptor number beyond
    FD_SETSIZE or a closed stream, OSError for a bad descriptor), the failure leaves read_packet as an exception (this one or one raised in its place).  Returning
    None means "nothing to read yet", on which the networking thread polls again: for a failure that repeats on every call that
    is a busy loop in which a server that stopped is never noticed (seeded change C15-r16)."""
    prop = 'C15'
    name = 'C15.poll-failure-is-reported'
    int_mode = 'int'
    functions = ('minecraft.networking.connection.PacketReactor.read_packet',)

    def setup(self, I):
        unit = self

        def sel(I_, r, w, x, timeout=None):
            unit.polls += 1
            raise unit.failure
        I.override(select.select, sel, kind='assumed')

    def run(self, I):
        E = I.E
        self.polls = 0
        self.failure = (ValueError('filedescriptor out of range in select()'), ValueError('I/O operation on closed file'),
                        OSError(9, 'Bad file descriptor'))[E.fork(3, 'poll-failure')]
        reactor = object.__new__(PacketReactor)
        conn = c01.harness_connection()
        conn.options.compression_enabled = bool(E.fork(2, 'compression'))
        conn.options.compression_threshold = 256
        reactor.__dict__.update(connection=conn, clientbound_packets={})
        try:
            r = I.call(c01.raw(PacketReactor, 'read_packet'), reactor, c01.SymBytesIO(SBytes.of(b'')), 0.05)
            outcome = ('returned', r)
        except c01.PyRaise as e:
            outcome = ('raised', e.exc)
        E.check('poll.failure-propagates', outcome[0] == 'raised' and isinstance(outcome[1], Exception),
                note='select failed with %r; read_packet %s %r' % (self.failure, outcome[0], outcome[1]))
        E.check('poll.once', self.polls == 1)
        return None

    def replay(self, model, label):
        return replay_poll_fails()

    def bounded(self, rng, tier):
        rp = replay_poll_fails()
        return dict(name='C15.poll-failure.live', evaluations=rp['n'], bound='3 poll failures on the real read_packet',
                    failures=[dict(call=rp['call'], observed=rp['observed'], witness='poll-fails')] if rp['confirmed'] else [])


def replay_poll_fails():
    import io
    from minecraft.networking.connection import Connection, PacketReactor
    n = 0
    orig = select.select
    try:
        for exc in (ValueError('filedescriptor out of range in select()'), ValueError('I/O operation on closed file'),
                    OSError(9, 'Bad file descriptor')):
            n += 1

            def failing(r, w, x, t=None, exc=exc):
                raise exc
            select.select = failing
            c = Connection('h', 1, username='u', allowed_versions={757})
            k, v = native_call(PacketReactor(c).read_packet, io.BytesIO(b''), 0.05)
            if k != 'raise' or not isinstance(v, Exception):      # which exception is not part of the property
                return dict(confirmed=True, n=n, call='read_packet(stream, 0.05) while select.select raises %r' % (exc,),
                            observed='read_packet %s %r: the networking thread treats this as "nothing to read yet" and polls again, '
                                     'forever' % ('returned' if k == 'ok' else k, v))
    finally:
        select.select = orig
    return dict(confirmed=False, n=n, call='read_packet on a stream that cannot be polled', observed='conforms')


def _own_units(tier):
    us = [
        _as_c15(c03.ReadArbitrary(VarInt), 'C15.varint.eof.VarInt'),
        _as_c15(c03.ReadArbitrary(VarLong), 'C15.varint.eof.VarLong'),
        _as_c15(PrefixReplay(), 'C15.reassembly'),
        _as_c15(c01.CipherFile(), 'C15.cipher.eof'),
        _as_c15(c01.ReadFrame(), 'C15.whole-frames-only'),
        _as_c15(c01.SizeCheck(), 'C15.size-check'),
        PollFails(),
    ]
    from . import c11
    us.append(_as_c15(c11.RunLoop(), 'C15.run-loop.propagates'))   # the stop of the server becomes an exception of read_packet: _run must let it out (no swallow, no spin)
    for modname in ('c14', 'c09'):
        try:
            m = __import__('contracts.' + modname, fromlist=['c15_units'])
            us += [_as_c15(u, u.name.replace('C14', 'C15.propagation').replace('C09', 'C15.fallback'))
                   for u in m.c15_units()]
        except (ImportError, AttributeError):
            pass
    return us


def units(tier):
    from .deps import dependency_units
    return _own_units(tier) + dependency_units('C15')
