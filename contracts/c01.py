"""C01 — framed packet stream survives any threshold, cipher and read segmentation.

Functions under contract:
  packet.Packet._write_buffer, Packet.write                      (write.frame)
  connection.PacketReactor.read_packet                           (read.frame, read.segmentation, size check)
  packet_buffer.PacketBuffer.send/read/reset/reset_cursor/get_writable  (executed from their bodies over S1 BytesIO)
  encryption.EncryptedFileObjectWrapper.read, EncryptedSocketWrapper.send/recv  (cipher.refines)
  connection.Connection._write_packet                            (compression switch)

Spec (from the protocol description): frame(payload, thr) = enc(|body|) || body with
  body = payload                          if compression is off
       = enc(|payload|) || zlib(payload)  if |payload| > thr and thr != -1
       = enc(0) || payload                otherwise.
"""
import io
import types
import zlib
import select

import z3

from minecraft.networking import connection as conn_mod, encryption
from minecraft.networking.connection import PacketReactor, Connection
from minecraft.networking.packets import Packet, PacketBuffer
from minecraft.networking.packets import packet as packet_mod
from minecraft.networking.types import VarInt

from pyvc.driver import Unit
from pyvc.engine import PathEnd
from pyvc.values import SInt, SBool, SBytes, Blob, And, Or, Not, Implies, Unsupported
from pyvc.models import OutSocket, InStream, SymBytesIO, slice_blob
from pyvc.interp import PyRaise
from pyvc.loops import LoopSpec
from pyvc.harness import native_call, Sink
from spec import wire
from .codec import install_all_codecs, make_atom
from .common import harness_connection, raw, loop_keys

ASSUMPTIONS = [
    'zlib: decompressobj().decompress(compress(x)) = x and len(compress(x)) >= 1 (uninterpreted inverse pair)',
    'S1: file_object.read(n) on a socket file returns k bytes, 0 <= k <= n, k = 0 iff n = 0 or end of stream '
    '(short reads allowed); io.BytesIO returns min(n, remaining)',
    'select.select returns the stream as readable or not (arbitrary)',
    'cipher contexts: update() is a stream homomorphism (E(a)||E(b) = E(a||b)) and decryption inverts encryption',
    'read.frame is proved for the state "packet_data holds exactly the frame body" which read.segmentation proves to be '
    'the state after the reassembly loop for every partition of the byte stream',
    'arbitrary-length sequences of frames: by induction on the cursor postcondition (two consecutive frames are '
    'machine-checked; the induction itself is the argument of DESIGN.md)',
]
P_ = 'minecraft.networking.packets.packet.Packet.'
R_ = 'minecraft.networking.connection.PacketReactor.read_packet'


# ------------------------------------------------------------------------------------------
# models of the externals
# ------------------------------------------------------------------------------------------
def zlib_compress(I, data, *a):
    """compress is a function: the same input gives the same (opaque) output."""
    data = SBytes.of(data)
    from .codec import _key_of
    key = _key_of(data)
    cache = I.E.ghost.setdefault('zlib', {})
    ck = repr(key)
    if ck not in cache:
        n = I.E.new_int('zlen', 1, (1 << 31) - 1)
        cache[ck] = Blob(('zlib', key), n, decoded=data)
    return SBytes([cache[ck]])


class GhostDecompressor(object):
    calls = 0                      # ghost counter (reset by the units that use it)

    def __init__(self, I):
        self.I = I

    def decompress(self, data):
        GhostDecompressor.calls += 1
        data = SBytes.of(data)
        if len(data.atoms) == 1 and isinstance(data.atoms[0], Blob) and data.atoms[0].key[0] == 'zlib':
            return data.atoms[0].decoded
        if data.is_concrete():
            return zlib.decompressobj().decompress(data.concrete())
        raise zlib.error('Error -3 while decompressing data: incorrect header check (model: not a zlib stream)')


def install_io_models(I, readable=True):
    install_all_codecs(I)
    I.override(zlib.compress, zlib_compress, kind='assumed')
    I.override(zlib.decompressobj, lambda I_, *a: GhostDecompressor(I_), kind='assumed')

    def sel(I_, r, w, x, timeout=None):
        return (list(r), [], []) if readable else ([], [], [])
    I.override(select.select, sel, kind='assumed')


LAST_FRAME = {}


def spec_frame(I, payload_atoms, thr, enabled, any_writer=False):
    """frame(payload, thr) as typed atoms; returns (frame atoms, body atoms).
    any_writer: the frame of ANY protocol-conforming peer - with compression enabled a peer may send the payload
    compressed or not whatever its size (vanilla compresses from size >= threshold, pyCraft from size > threshold)."""
    payload = SBytes(payload_atoms)
    L = payload.length()
    if not enabled:
        body = list(payload.atoms)
        comp = False
    else:
        comp = I.E.new_bool('peer-compresses') if any_writer else And(L > thr, thr != -1)
        if I.truth(comp):
            LAST_FRAME['compressed'] = True
            z = zlib_compress(I, payload)
            body = [make_atom(I, 'VarInt', L)] + z.atoms
        else:
            LAST_FRAME['compressed'] = False
            body = [make_atom(I, 'VarInt', 0)] + list(payload.atoms)
    blen = SBytes(body).length()
    return [make_atom(I, 'VarInt', blen)] + body, body


class Probe(Packet):
    """A registered packet class whose decoder records exactly what it is given."""
    packet_name = 'probe'

    @classmethod
    def get_id(cls, context):
        # version-dependent, like every real packet class: 7 under the reader's context, 9 under any other
        return 7 if context == 'CTX' else 9

    def read(self, file_object):
        self.got = file_object.read()


# ------------------------------------------------------------------------------------------
# write.frame
# ------------------------------------------------------------------------------------------
class WriteFrame(Unit):
    prop = 'C01'
    name = 'C01.write.frame'
    functions = (P_ + '_write_buffer', P_ + 'write', 'minecraft.networking.packets.packet_buffer.PacketBuffer.*')
    uses = ('S2 VarInt.send contract',)
    trusted = ('zlib.compress', 'io.BytesIO')

    def setup(self, I):
        install_io_models(I)

        def write_fields(I_, self_, packet_buffer):
            I_.call(I_.getattr_(packet_buffer, 'send'), SBytes([self.fields]))
        I.override(raw(Packet, 'write_fields'), write_fields, kind='contract')

    def run(self, I):
        E = I.E
        pid = E.new_int('pid', 0, (1 << 31) - 1)
        self.fields = E.new_blob('fields', hi=(1 << 21) - 8)
        mode = E.fork(3, 'threshold-kind')      # absent argument / None / integer
        thr = E.new_int('thr') if mode == 2 else None
        E.assume(thr >= -(1 << 40)) if thr is not None else None
        E.assume(thr <= (1 << 40)) if thr is not None else None
        pkt = I.call(Packet)
        I.setattr_(pkt, 'id', pid)
        sock = OutSocket()
        try:
            if mode == 0:
                I.call(I.getattr_(pkt, 'write'), sock)
            else:
                I.call(I.getattr_(pkt, 'write'), sock, thr)
        except PyRaise as e:
            E.check('write.no-raise', False, note='raised %r' % (e.exc,))
            return None
        payload = [make_atom(I, 'VarInt', pid), self.fields]
        frame, body = spec_frame(I, payload, thr, enabled=thr is not None)
        E.check('write.frame', sock.out == SBytes(frame), note='bytes handed to the socket = frame(payload, threshold)')
        # how many send() calls carry the frame is not part of the property (today: prefix, then body); what matters is
        # that nothing but the frame is sent and that the pieces arrive in order - which write.frame states
        E.check('write.sends-only-the-frame', 1 <= len(sock.sends) <= 2, note='the frame goes out in one or two sends, nothing else')
        if thr is not None:
            E.must_fail('write.always-uncompressed',
                        sock.out == SBytes([make_atom(I, 'VarInt', SBytes([make_atom(I, 'VarInt', 0)] + payload).length()),
                                            make_atom(I, 'VarInt', 0)] + payload)) if E.model(And(SBytes(payload).length() > thr, thr != -1)) else None
        return None

    def replay(self, model, label):
        thr = model.get('thr')
        n = int(model.get('fields.len', 10))
        return replay_write(min(n, 5000), thr, int(model.get('pid', 1)))

    def bounded(self, rng, tier):
        fails, cnt = [], 0
        for thr in (None, -1, 0, 1, 64, 256, -5, 1 << 31):
            sizes = {0, 1, 2, 63, 64, 65, 255, 256, 257, 5000}
            if isinstance(thr, int) and 0 < thr < 10000:
                sizes |= {thr - 2, thr - 1, thr, thr + 1}
            for n in sorted(x for x in sizes if x >= 0):
                cnt += 1
                rp = replay_write(n, thr, rng.choice([0, 1, 0x7f, 0x80, 300]))
                if rp['confirmed']:
                    fails.append(dict(call=rp['call'], observed=rp['observed'], witness='write-frame'))
            # payload / frame lengths at the VarInt length boundaries (2^7, 2^14, 2^21): the length prefixes change size there
            for total in (126, 127, 128, 129, 16382, 16383, 16384, 16385) + ((2097151, 2097152, 2097153) if tier == 'thorough' else ()):
                for pid in (1, 300):
                    n = total - len(wire.varint_enc(pid))
                    cnt += 1
                    rp = replay_write(n, thr, pid)
                    if rp['confirmed']:
                        fails.append(dict(call=rp['call'], observed=rp['observed'], witness='write-frame'))
        return dict(name='C01.write.sizes-thresholds', evaluations=cnt, failures=fails[:2],
                    bound='thresholds {None,-1,0,1,64,256,-5,2^31} x payload sizes around the threshold and at the VarInt length boundaries')


class _Raw(Packet):
    def write_fields(self, packet_buffer):
        packet_buffer.send(self.raw)


def replay_write(nfields, thr, pid):
    p = _Raw()
    p.id = pid
    p.raw = bytes((i * 31 + 7) & 0xFF for i in range(nfields))
    s = Sink()
    k, v = native_call(p.write, s, thr) if thr is not None else native_call(p.write, s)
    payload = wire.varint_enc(pid) + p.raw
    bad = None
    if k != 'ok':
        bad = '%s %r' % (k, v)
    else:
        try:
            got = decode_frame(s.data, thr is not None)
        except Exception as e:
            got, bad = None, 'frame does not decode (%s: %s)' % (type(e).__name__, e)
        if got is None or got[0] != payload or got[2] != len(s.data):
            bad = bad or 'frame does not decode to the payload'
        elif thr is not None:
            want_comp = len(payload) > thr and thr != -1
            if got[1] != want_comp:
                bad = 'compressed=%r but |payload|=%d, threshold=%r' % (got[1], len(payload), thr)
        if not 1 <= s.sends <= 2:
            bad = bad or '%d sends for one frame' % s.sends
    return dict(confirmed=bad is not None, call='Packet(id=%d, %d field bytes).write(threshold=%r)' % (pid, nfields, thr),
                observed=bad or 'conforms')


def decode_frame(data, enabled):
    """Independent frame parser: (payload, was_compressed, consumed) or None."""
    r = wire.varint_dec_spec(data, 5)
    if r[0] != 'value':
        return None
    blen, off = r[1], r[2]
    body = data[off:off + blen]
    if len(body) != blen:
        return None
    if not enabled:
        return body, False, off + blen
    r2 = wire.varint_dec_spec(body, 5)
    if r2[0] != 'value':
        return None
    dl, o2 = r2[1], r2[2]
    if dl == 0:
        return body[o2:], False, off + blen
    payload = zlib.decompress(body[o2:])
    if len(payload) != dl:
        return None
    return payload, True, off + blen


# ------------------------------------------------------------------------------------------
# read.frame (+ size check, unknown ids, cursor postcondition, two consecutive frames)
# ------------------------------------------------------------------------------------------
def make_reactor(enabled, ctx='CTX', threshold=256):
    r = object.__new__(PacketReactor)
    conn = types.SimpleNamespace(options=types.SimpleNamespace(compression_enabled=enabled, compression_threshold=threshold),
                                 context=ctx)
    r.__dict__['connection'] = conn
    r.__dict__['clientbound_packets'] = {7: Probe}
    return r


class ReadFrame(Unit):
    prop = 'C01'
    name = 'C01.read.frame'
    functions = (R_ + ' [parsing of a complete frame]',)
    uses = ('S2 VarInt.read contract', 'read.segmentation (loop exit state)')
    trusted = ('zlib inverse pair', 'select.select', 'io.BytesIO')

    def setup(self, I):
        install_io_models(I)

    def frames(self, I, n):
        E = I.E
        out, metas = [], []
        for j in range(n):
            pid = E.new_int('pid%d' % j, 0, (1 << 31) - 1)
            fields = E.new_blob('fields%d' % j, hi=(1 << 21) - 8)
            thr = E.new_int('thr%d' % j, -(1 << 40), 1 << 40)
            payload = [make_atom(I, 'VarInt', pid), fields]
            LAST_FRAME['compressed'] = False
            frame, body = spec_frame(I, payload, thr, self.enabled, any_writer=True)
            out += frame
            metas.append((pid, fields, LAST_FRAME['compressed']))
        return out, metas

    def run(self, I):
        E = I.E
        self.enabled = bool(E.fork(2, 'compression'))
        nframes = 1 + E.fork(2, 'frames')
        atoms, metas = self.frames(I, nframes)
        nxt = E.new_blob('next')
        st = InStream(I, SBytes(atoms + [nxt]))
        # the reader's own threshold setting is arbitrary: decoding must not depend on it
        reactor = make_reactor(self.enabled, threshold=E.new_int('reader-threshold'))
        for j, (pid, fields, compressed) in enumerate(metas):
            GhostDecompressor.calls = 0
            note = 'the peer sent frame %d %s; the reader inflates exactly the frames whose data-length field is non-zero, ' \
                   'whatever its own threshold' % (j, 'compressed' if compressed else 'uncompressed')
            try:
                pkt = I.call(raw(PacketReactor, 'read_packet'), reactor, st, 0)
            except PyRaise as e:
                E.check('read.no-raise', False, note='raised %r on a well-formed frame' % (e.exc,))
                return None
            except Unsupported:
                if (GhostDecompressor.calls == 1) != compressed:
                    # the reader went on to parse compressed bytes as a packet (or inflated plain ones)
                    E.check('read.inflates-iff-compressed', False, note=note)
                    return None
                raise
            E.check('read.inflates-iff-compressed', (GhostDecompressor.calls == 1) == compressed, note=note)
            known = I.truth(pid == 7)
            if known:
                E.check('read.known-class', type(pkt) is Probe)
                E.check('read.known-fields', SBytes.of(getattr(pkt, 'got', b'?')) == SBytes([fields]),
                        note='the decoder is given exactly the field bytes of this frame')
                # a delivered packet of a registered class keeps the id OF ITS CLASS AND CONTEXT: re-targeted to another
                # version (a relay, a replayed capture) it carries that version's id (seeded change C05-r9: an instance
                # attribute `id` stamped by the reader shadows the version-dependent one)
                had = pkt.__dict__.get('context')
                pkt.__dict__['context'] = 'OTHER'
                E.check('read.known-id-follows-context', I.equals(I.getattr_(pkt, 'id'), 9),
                        note='packet.id of a registered class must remain get_id(packet.context)')
                pkt.__dict__['context'] = had
            else:
                E.check('read.unknown-generic', type(pkt) is Packet, note='unknown id: a generic Packet')
                E.check('read.unknown-id', I.equals(I.getattr_(pkt, 'id'), pid))
            E.check('read.context', getattr(pkt, 'context', None) == 'CTX')
        E.check('read.cursor', st.remaining() == SBytes([nxt]),
                note='the stream is consumed exactly up to the end of the frame(s): nothing leaks, nothing is skipped')
        return None

    def replay(self, model, label):
        rp = None
        if label.startswith('read.known-id'):
            rp = replay_id_follows_context()
            if rp['confirmed']:
                return rp
        for enabled, thr in ((True, 64), (False, None), (True, 0)):
            for chunk in (None, 1, 3):
                rp = replay_stream(enabled, thr, [0, 7, 300, 7], [5, 100, 70, 0], cut=None, chunk=chunk)
                if rp['confirmed']:
                    return rp
        for thr in (64, 256, 1):
            rp = replay_stream(True, thr, [7, 7, 7, 300], [max(thr - 2, 0), thr - 1, thr, thr + 1], None, None, vanilla=True)
            if rp['confirmed']:
                rp['call'] = 'vanilla-rule writer: ' + rp['call']
                return rp
        return rp

    def bounded(self, rng, tier):
        fails, cnt = [], 1
        rp = replay_id_follows_context()
        if rp['confirmed']:
            fails.append(dict(call=rp['call'], observed=rp['observed'], witness='id-follows-context'))
        for enabled, thr in ((False, None), (True, -1), (True, 0), (True, 1), (True, 64), (True, 1 << 20)):
            for chunk in (1, 2, 3, 7, None):
                ids = [rng.choice([0, 7, 8, 127, 128, 300]) for _ in range(6)]
                sizes = [rng.choice([0, 1, 62, 63, 64, 65, 200, 3000]) for _ in range(6)]
                cnt += 1
                rp = replay_stream(enabled, thr, ids, sizes, None, chunk)
                if rp['confirmed']:
                    fails.append(dict(call=rp['call'], observed=rp['observed'], witness='read-frame'))
                if enabled and isinstance(thr, int) and 0 < thr < 5000:
                    # a vanilla-rule peer: payloads of exactly threshold-1, threshold, threshold+1 bytes
                    cnt += 1
                    rp = replay_stream(True, thr, [7, 7, 7, 300], [max(thr - 2, 0), thr - 1, thr, thr + 1], None, chunk, vanilla=True)
                    if rp['confirmed']:
                        fails.append(dict(call='vanilla-rule writer: ' + rp['call'], observed=rp['observed'], witness='read-frame-vanilla'))
        return dict(name='C01.read.streams', evaluations=cnt, failures=fails[:2],
                    bound='6 threshold settings x read chunkings {1,2,3,7,whole} x 6-frame streams with sizes around the threshold')


def replay_id_follows_context():
    """A real play-state reactor reads a clientbound keep-alive under protocol 47; the delivered packet, re-targeted to
    protocol 757 (packet.context = ...), must report and write the id its class has under 757."""
    import io
    from minecraft.networking.connection import Connection, ConnectionContext, PlayingReactor
    from minecraft.networking.packets import clientbound, PacketBuffer
    from minecraft.networking.types import VarInt
    conn = Connection('localhost', 25565, username='u')
    conn.context = ConnectionContext(protocol_version=47)
    KA = clientbound.play.KeepAlivePacket
    frame = PacketBuffer()
    KA(context=conn.context, keep_alive_id=42).write(frame)       # uncompressed frame: length, id, fields
    from pyvc.harness import native_call
    orig = select.select
    select.select = lambda r, w, x, t=None: (r, [], [])
    try:
        k, pkt = native_call(PlayingReactor(conn).read_packet, io.BytesIO(frame.get_writable()), 0)
    finally:
        select.select = orig
    if k != 'ok' or type(pkt) is not KA:
        return dict(confirmed=False, call='keep-alive under 47 (scenario did not run: %s %r)' % (k, pkt), observed='')
    other = ConnectionContext(protocol_version=757)
    pkt.context = other
    want = KA.get_id(other)
    out = PacketBuffer()
    k2, v2 = native_call(pkt.write, out)
    wrote = out.get_writable()
    if pkt.id != want or k2 != 'ok' or len(wrote) < 2 or wrote[1] != want:
        return dict(confirmed=True, call='clientbound KeepAlivePacket read by a PlayingReactor under protocol 47, then '
                    'packet.context = ConnectionContext(757) and packet.write()',
                    observed='packet.id = %r, written bytes %s; the id of this class under 757 is 0x%02x' % (pkt.id, wrote.hex(), want))
    return dict(confirmed=False, call='id of a delivered packet after re-targeting', observed='conforms')


class ChunkedFile(object):
    """A raw-socket-like file: read(n) returns at most `chunk` bytes (short reads), b'' at end."""

    def __init__(self, data, chunk, budget=200000):
        self.data, self.pos, self.chunk, self.calls, self.budget = data, 0, chunk, 0, budget

    def read(self, n=-1):
        self.calls += 1
        if self.calls > self.budget:
            raise RuntimeError('read budget exhausted: busy loop')
        if hasattr(self.chunk, 'randrange'):
            k = min(n, self.chunk.randrange(1, 9))       # random partition (seeded)
        else:
            k = n if self.chunk is None else min(n, self.chunk)
        r = self.data[self.pos:self.pos + max(k, 0)]
        self.pos += len(r)
        return r

    def readinto(self, b):
        # what an unbuffered socket file offers besides read(): fills a prefix of b, returns the count (short reads too)
        r = self.read(len(b))
        b[:len(r)] = r
        return len(r)

    def fileno(self):
        raise io.UnsupportedOperation


def vanilla_frame(pid, rawb, thr):
    """Independent writer following the vanilla rule: compressed iff |payload| >= threshold (threshold >= 0)."""
    payload = wire.varint_enc(pid) + rawb
    if thr is not None and thr >= 0 and len(payload) >= thr:
        body = wire.varint_enc(len(payload)) + zlib.compress(payload)
    else:
        body = wire.varint_enc(0) + payload
    return wire.varint_enc(len(body)) + body


def replay_stream(enabled, thr, ids, sizes, cut, chunk, vanilla=False):
    """Write frames with the real writer (or an independent vanilla-rule writer), read them back with the real reader
    through a chunked file."""
    s = Sink()
    payloads = []
    for pid, n in zip(ids, sizes):
        p = _Raw()
        p.id = pid
        p.raw = bytes((i * 13 + pid) & 0xFF for i in range(n))
        if enabled and vanilla:
            s.send(vanilla_frame(pid, p.raw, thr))
        elif enabled:
            p.write(s, thr)
        else:
            p.write(s)
        payloads.append((pid, p.raw))
    data = s.data if cut is None else s.data[:cut]
    f = ChunkedFile(data, chunk)
    reactor = make_reactor(enabled, threshold=thr if isinstance(thr, int) else -1)
    orig = select.select
    select.select = lambda r, w, x, t=None: (r, [], [])
    got = []
    bad = None
    try:
        for pid, rawb in payloads:
            k, pkt = native_call(reactor.read_packet, f, 0, timeout=10.0)
            if k != 'ok':
                bad = 'frame %d: %s %s' % (len(got), k, type(pkt).__name__ if k == 'raise' else '')
                break
            if pid == 7:
                if type(pkt) is not Probe or pkt.got != rawb:
                    bad = 'frame %d (known id) decoded wrongly' % len(got)
                    break
            elif type(pkt) is not Packet or pkt.id != pid:
                bad = 'frame %d (unknown id %d) gave a %s with id %r' % (len(got), pid, type(pkt).__name__, getattr(pkt, 'id', None))
                break
            got.append(pid)
        if bad is None and f.pos != len(data):
            bad = 'stream not consumed exactly (%d of %d)' % (f.pos, len(data))
    finally:
        select.select = orig
    return dict(confirmed=bad is not None, call='%d frames, compression=%r thr=%r, reads of <=%r bytes'
                % (len(ids), enabled, thr, chunk), observed=bad or 'conforms')


class SizeCheck(Unit):
    """With compression on and data length > 0 a packet is delivered only if the inflated size equals the announced one."""
    prop = 'C01'
    name = 'C01.read.size-check'
    functions = (R_ + ' [announced vs inflated size]',)
    trusted = ('zlib inverse pair',)

    def setup(self, I):
        install_io_models(I)

    def run(self, I):
        E = I.E
        pid = E.new_int('pid', 0, (1 << 31) - 1)
        fields = E.new_blob('fields', hi=(1 << 21) - 8)
        payload = SBytes([make_atom(I, 'VarInt', pid), fields])
        dl = E.new_int('announced', 1, (1 << 31) - 1)
        E.assume(dl != payload.length())
        body = [make_atom(I, 'VarInt', dl)] + zlib_compress(I, payload).atoms
        frame = [make_atom(I, 'VarInt', SBytes(body).length())] + body
        st = InStream(I, SBytes(frame))
        try:
            pkt = I.call(raw(PacketReactor, 'read_packet'), make_reactor(True), st, 0)
        except PyRaise as e:
            E.check('read.size-mismatch-rejected', True)
            return None
        E.check('read.size-mismatch-rejected', False, note='delivered %r although the inflated size differs' % (pkt,))
        return None

    def replay(self, model, label):
        payload = wire.varint_enc(1) + b'abcdef'
        body = wire.varint_enc(len(payload) + 3) + zlib.compress(payload)
        data = wire.varint_enc(len(body)) + body
        orig = select.select
        select.select = lambda r, w, x, t=None: (r, [], [])
        try:
            k, v = native_call(make_reactor(True).read_packet, io.BytesIO(data), 0)
        finally:
            select.select = orig
        return dict(confirmed=k == 'ok', call='read_packet(frame announcing %d bytes, inflating to %d)' % (len(payload) + 3, len(payload)),
                    observed='%s %r' % (k, v))


# ------------------------------------------------------------------------------------------
# read.segmentation: the reassembly loop, for every partition of the stream and every end-of-stream position
# ------------------------------------------------------------------------------------------
class ShortReadStream(object):
    """S1 with short reads over one abstract blob `rest` of `total` bytes:
       read(n): n <= 0 or cursor == total -> b''; else k bytes, 1 <= k <= min(n, total - cursor)."""

    def __init__(self, I, total, name='wire'):
        self.I = I
        E = I.E
        self.total = total
        self.rest = Blob(('blob', name), total)
        self.cursor = 0
        self.reads = 0
        self.empty_reads = 0

    def read(self, n=None):
        I, E = self.I, self.I.E
        self.reads += 1
        if n is None:
            raise Unsupported('unbounded read on a socket file')
        if not I.truth(n > 0):
            return b''
        if not I.truth(self.cursor < self.total):
            self.empty_reads += 1
            return b''
        k = E.new_int('k', 1, None)
        E.assume(And(k <= n, k <= self.total - self.cursor))
        r = SBytes([slice_blob(self.rest, self.cursor, self.cursor + k)])
        self.cursor = self.cursor + k
        return r


class Segmentation(Unit):
    prop = 'C01'
    name = 'C01.read.segmentation'
    functions = (R_ + ' [frame reassembly loop]',)
    uses = ('S2 VarInt.read (abstracted to its result here)',)
    trusted = ('S1 short-read contract of the socket file',)

    def setup(self, I):
        install_io_models(I)
        from .common import reachable_loops
        keys = reachable_loops(raw(PacketReactor, 'read_packet'), PacketReactor)
        if len(keys) > 1:
            raise Unsupported('contract does not fit the code any more: %d while loops reachable from read_packet' % len(keys))
        if not keys:
            raise Unsupported('contract does not fit the code any more: read_packet has no while loop any more')
        unit = self

        def the_buffer(frame):
            # the frame's PacketBuffer, whatever the local is called
            bufs = [v for v in frame.locals.values() if isinstance(v, PacketBuffer)]
            if len({id(b) for b in bufs}) != 1:
                raise Unsupported('reassembly contract: expected exactly one PacketBuffer local at the loop head, found %d' % len(bufs))
            return bufs[0]

        # Auxiliary invariants for integer locals that cache "bytes received" / "bytes missing" (found by template at loop
        # entry, assumed at the head, and required to be re-established by the body - if one is not inductive the
        # contract does not fit and the unit is undecided; it is never reported as a violation by itself).
        TEMPLATES = {'received': lambda c: c, 'missing': lambda c: unit.N - c}

        def base_inv(I_, frame):
            pd = the_buffer(frame)
            content = I_.call(I_.getattr_(pd, 'get_writable'))
            s = unit.stream
            return And(SBytes.of(content) == SBytes([slice_blob(s.rest, 0, s.cursor)]) if not _is_zero(s.cursor) else
                       SBytes.of(content).length() == 0,
                       s.cursor >= 0, s.cursor <= unit.N, s.cursor <= s.total)

        def aux(frame):
            c = unit.stream.cursor
            return [(name, frame.locals[name] == TEMPLATES[t](c)) for name, t in sorted(unit.aux.items()) if name in frame.locals]

        def inv(I_, frame):
            E = I_.E
            unit.inv_calls += 1
            if unit.inv_calls == 1:                       # loop entry: find the cached counters
                unit.aux = {}
                c = unit.stream.cursor
                assigned = getattr(I_.loop_specs[keys[0]], 'assigned', ())
                for name, v in frame.locals.items():
                    if name in assigned and isinstance(v, (SInt, int)) and not isinstance(v, bool):
                        for t, f in TEMPLATES.items():
                            if E.implied(v == f(c)):
                                unit.aux[name] = t
                                break
                return base_inv(I_, frame)
            if unit.inv_calls == 2:                       # loop head: assumed together with the base invariant
                return And(base_inv(I_, frame), *[cond for _, cond in aux(frame)])
            for name, cond in aux(frame):                 # after the body
                if not E.implied(cond):
                    raise Unsupported('reassembly contract: the local %r looked like a cached byte count at loop entry but the '
                                      'loop body does not maintain it - no contract for this loop shape' % name)
            return base_inv(I_, frame)

        def variant(I_, frame):
            return unit.N - unit.stream.cursor

        def havoc(I_, frame):
            E = I_.E
            c = E.new_int('c@head', 0, None)
            unit.stream.cursor = c
            pd = the_buffer(frame)
            pd.__dict__['bytes'] = SymBytesIO(I_, SBytes([slice_blob(unit.stream.rest, 0, c)]))
            for name, t in unit.aux.items():
                frame.locals[name] = E.new_int('%s@head' % name)      # constrained by the auxiliary invariant
        I.loop_specs[keys[0]] = LoopSpec('reassembly', inv, havoc, variant)

        def varint_read(I_, cls, file_object):
            return unit.N
        I.override(raw(VarInt, 'read'), varint_read, kind='contract')

        def reset_cursor(I_, self_):
            # the state right after the loop: this is what read.frame takes as its starting point
            E = I_.E
            content = SBytes.of(self_.bytes.getvalue())
            s = unit.stream
            E.check('reassembly.exit-whole-frame', content == SBytes([slice_blob(s.rest, 0, unit.N)]) if not _is_zero(unit.N)
                    else content.length() == 0,
                    note='after the loop the buffer holds exactly the first `length` bytes of the stream, in order')
            E.check('reassembly.exit-cursor', s.cursor == unit.N, note='and the stream cursor is exactly at the end of the frame')
            raise PathEnd('loop exit state checked')
        I.override(raw(PacketBuffer, 'reset_cursor'), reset_cursor, kind='contract')

    def run(self, I):
        E = I.E
        self.N = E.new_int('length', 0, (1 << 35) - 1)
        self.inv_calls, self.aux = 0, {}
        total = E.new_int('total', 0, None)        # bytes the server sends before it stops (any value: C15)
        self.stream = ShortReadStream(I, total)
        try:
            I.call(raw(PacketReactor, 'read_packet'), make_reactor(False), self.stream, 0)
        except PyRaise as e:
            # leaving by an exception is a terminating outcome; it must only happen when the stream ended early
            E.check('reassembly.raise-only-at-eof', And(self.stream.cursor >= total, total < self.N),
                    note='%r raised' % (e.exc,))
            return 'raised'
        return None

    def replay(self, model, label):
        N = int(model.get('length', 10))
        total = int(model.get('total', 0))
        n = max(1, min(N, 50))
        rp = replay_truncated(n, min(total, n - 1) if total < N else n)
        if rp['confirmed']:
            return rp
        # the counter-model is a partition of the stream into reads: try partitions on multi-frame streams
        import random
        for seed in range(60):
            rng = random.Random(seed)
            sizes = [rng.choice([0, 1, 5, 9, 10, 11, 64, 200]) for _ in range(5)]
            for chunk in (2, 3, 4, 7, 'random'):
                r2 = replay_stream(False, None, [7, 0, 7, 300, 7], sizes, None, chunk if chunk != 'random' else rng)
                if r2['confirmed']:
                    return r2
        return rp

    def bounded(self, rng, tier):
        fails, cnt = [], 0
        for n in (1, 2, 5, 40):
            for avail in range(0, n + 1):
                for chunk in (1, 3, None):
                    cnt += 1
                    rp = replay_truncated(n, avail, chunk)
                    if rp['confirmed']:
                        fails.append(dict(call=rp['call'], observed=rp['observed'], witness='truncated-frame'))
        # larger bodies too: past CPython's small-int cache (257+), where `is` and `==` on a byte count part company, and
        # past one VarInt length byte (seeded change C15-r14)
        for n in (300, 700, 20000):
            for avail in (0, 1, 255, 256, 257, 258, n // 2, n - 2, n - 1, n):
                for chunk in (1, 100, None):
                    cnt += 1
                    rp = replay_truncated(n, avail, chunk)
                    if rp['confirmed']:
                        fails.append(dict(call=rp['call'], observed=rp['observed'], witness='truncated-frame'))
        return dict(name='C01.segmentation.truncations', evaluations=cnt, failures=fails[:2],
                    bound='frame body sizes {1,2,5,40} x every truncation point, {300,700,20000} x truncation points around 256 and '
                          'the end, x chunkings {1,3 or 100,whole}')


def _is_zero(x):
    return isinstance(x, int) and x == 0


def replay_truncated(n, avail, chunk=1):
    """A frame announcing n body bytes of which only `avail` arrive before end of stream."""
    body = wire.varint_enc(3) + bytes(k % 251 for k in range(1, n))[:n - 1] if n >= 1 else b''
    body = (body + bytes(n))[:n]
    data = wire.varint_enc(n) + body[:avail]
    f = ChunkedFile(data, chunk, budget=5000 + 2 * n)
    orig = select.select
    select.select = lambda r, w, x, t=None: (r, [], [])
    try:
        k, v = native_call(make_reactor(False).read_packet, f, 0, timeout=10.0)
    finally:
        select.select = orig
    bad = None
    if k == 'hang' or (k == 'raise' and isinstance(v, RuntimeError) and 'budget' in str(v)):
        bad = 'busy-loops on the ended stream (%d reads)' % f.calls
    elif avail < n and k == 'ok':
        bad = 'delivered %r from an incomplete frame' % (v,)
    elif avail == n and k != 'ok':
        bad = 'complete frame: %s %r' % (k, v)
    return dict(confirmed=bad is not None, call='read_packet(frame of %d body bytes, stream ends after %d, reads <= %r)'
                % (n, avail, chunk), observed=bad or 'conforms (%s)' % k)


# ------------------------------------------------------------------------------------------
# cipher.refines
# ------------------------------------------------------------------------------------------
class GhostCtx(object):
    """A cipher context as a stream transformer: update(slice(X, a, b)) = slice(T(X), a, b), in order."""

    def __init__(self, I, name):
        self.I, self.name = I, name
        self.pos = {}
        self.calls = 0

    def update(self, data):
        self.calls += 1
        data = SBytes.of(data)
        out = []
        for a in data.atoms:
            if not isinstance(a, Blob):
                raise Unsupported('cipher model fed literal bytes')
            base = a.base if a.key[0] == 'slice' else a
            lo = a.key[2] if a.key[0] == 'slice' else 0
            hi = a.key[3] if a.key[0] == 'slice' else base.length
            image = self.image(base)
            pos = self.pos.get(id(base), 0)
            lo_v = SInt(lo) if isinstance(lo, z3.ExprRef) else lo
            hi_v = SInt(hi) if isinstance(hi, z3.ExprRef) else hi
            self.I.E.check('cipher.in-order[%s]' % self.name, lo_v == pos,
                           note='the context is fed the stream contiguously and in order')
            out.append(slice_blob(image, lo_v, hi_v))
            self.pos[id(base)] = hi_v
        return SBytes(out)

    def image(self, base):
        if not hasattr(self, '_img'):
            self._img = {}
        if id(base) not in self._img:
            self._img[id(base)] = Blob((self.name, base.key), base.length)
        return self._img[id(base)]


class CipherFile(Unit):
    prop = 'C01'
    name = 'C01.cipher.file'
    functions = ('minecraft.networking.encryption.EncryptedFileObjectWrapper.read',
                 'minecraft.networking.encryption.EncryptedFileObjectWrapper.__init__')
    trusted = ('cipher context stream homomorphism',)
    wall_budget_s = 30          # the wrapper is straight-line code; a loop in it has no contract and is reported undecided

    def run(self, I):
        E = I.E
        total = E.new_int('total', 0, None)
        under = ShortReadStream(I, total, 'ciphertext')
        dec = GhostCtx(I, 'D')
        w = I.call(encryption.EncryptedFileObjectWrapper, under, dec)
        plain = dec.image(under.rest)
        c0 = 0
        for step in range(3):
            n = E.new_int('n%d' % step, 0, 1 << 21)
            before = under.cursor
            r = SBytes.of(I.call(I.getattr_(w, 'read'), n))
            k = under.cursor - before
            E.check('cipher.read-refines-S1', And(r.length() == k,
                                                  r == SBytes([slice_blob(plain, before, under.cursor)]) if not _is_zero(k) and
                                                  not (isinstance(r.length(), int) and r.length() == 0) else r.length() == 0),
                    note='the wrapper returns the plaintext of exactly the bytes the underlying read returned (same k, same order)')
        E.check('cipher.decrypts-only-what-was-read', dec.calls <= under.reads + 3,
                note='the wrapper feeds the decryptor with what it read (how many update() calls it uses is not prescribed)')
        return None

    def replay(self, model, label):
        return replay_cipher()

    def bounded(self, rng, tier):
        fails, cnt = [], 0
        for _ in range(20 if tier == 'quick' else 200):
            cnt += 1
            rp = replay_cipher(rng)
            if rp['confirmed']:
                fails.append(dict(call=rp['call'], observed=rp['observed'], witness='cipher'))
                break
        return dict(name='C01.cipher.roundtrips', evaluations=cnt, failures=fails,
                    bound='seeded random streams and partitions through the real AES-CFB8 wrappers')


class CipherSocket(Unit):
    prop = 'C01'
    name = 'C01.cipher.socket'
    functions = ('minecraft.networking.encryption.EncryptedSocketWrapper.send',
                 'minecraft.networking.encryption.EncryptedSocketWrapper.recv',
                 'minecraft.networking.encryption.EncryptedSocketWrapper.__init__')
    trusted = ('cipher context stream homomorphism',)

    def run(self, I):
        E = I.E
        N = E.new_int('N', 0, 1 << 21)
        m = E.new_int('m', 0, None)
        E.assume(m <= N)
        plain = Blob(('blob', 'plain-out'), N)
        actual = OutSocket()
        total = E.new_int('total', 0, None)
        actual_in = ShortReadStream(I, total, 'ciphertext-in')
        actual.recv = actual_in.read
        enc, dec = GhostCtx(I, 'E'), GhostCtx(I, 'D')
        w = I.call(encryption.EncryptedSocketWrapper, actual, enc, dec)
        # fault at one point: the FIRST real send fails - interrupted by a signal (nothing written) or with a plain OSError.
        # Whatever the wrapper does then (let it out, retry), every byte must pass through the encryptor exactly once and in
        # order, or the ciphertext is no longer one continuous stream (seeded change C18-r9: retry that re-encrypts)
        fault = E.fork(3, 'first-send-fault')
        if fault:
            real_send, state = actual.send, []

            def flaky(data):
                if not state:
                    state.append(1)
                    raise PyRaise(InterruptedError(4, 'Interrupted system call') if fault == 1 else OSError(113, 'No route to host'))
                return real_send(data)
            actual.send = flaky
            try:
                I.call(I.getattr_(w, 'send'), SBytes([slice_blob(plain, 0, m)]))
                delivered = True
            except PyRaise:
                delivered = False
            k = actual.out.length()
            E.check('cipher.fault-keeps-stream', (actual.out == SBytes([slice_blob(enc.image(plain), 0, m)])) if delivered
                    else (isinstance(k, int) and k == 0),
                    note='after a failed first send: either the error is let out and nothing has been sent, or the retry hands the '
                         'socket exactly E(plaintext)[0:m]')
            return None
        I.call(I.getattr_(w, 'send'), SBytes([slice_blob(plain, 0, m)]))
        I.call(I.getattr_(w, 'send'), SBytes([slice_blob(plain, m, N)]))
        E.check('cipher.send-stream', actual.out == SBytes([slice_blob(enc.image(plain), 0, N)]),
                note='ciphertext handed to the real socket = E(plaintext) as one continuous stream, for every split m')
        E.check('cipher.send-through-encryptor-only', len(actual.sends) >= 1 and enc.calls >= 1 and dec.calls == 0,
                note='sending goes through the encryptor only (the number of real sends per send is not prescribed)')
        n = E.new_int('n', 0, 1 << 21)
        before = actual_in.cursor
        r = SBytes.of(I.call(I.getattr_(w, 'recv'), n))
        E.check('cipher.recv', And(r.length() == actual_in.cursor - before, enc.calls >= 1),
                note='recv decrypts what the real socket returned, through the decryptor only')
        return None

    def replay(self, model, label):
        return replay_cipher()


def replay_cipher(rng=None):
    import random
    rng = rng or random.Random(1)
    secret = bytes(rng.getrandbits(8) for _ in range(16))
    data = bytes(rng.getrandbits(8) for _ in range(rng.randrange(1, 3000)))
    c1 = encryption.create_AES_cipher(secret)
    c2 = encryption.create_AES_cipher(secret)
    sink = Sink()
    w = encryption.EncryptedSocketWrapper(sink, c1.encryptor(), c1.decryptor())
    data = data + bytes(rng.getrandbits(8) for _ in range(rng.choice([0, 0, 5012, 70001])))
    pos = 0
    while pos < len(data):
        k = rng.choice([rng.randrange(1, 400), 2048, 2049, 5012, 65537])
        w.send(data[pos:pos + k])
        pos += k
    whole = c2.encryptor().update(data)
    bad = None
    if sink.data != whole:
        bad = 'ciphertext depends on the split into send() calls'
    f = encryption.EncryptedFileObjectWrapper(ChunkedFile(sink.data, rng.choice([1, 5, 64]), budget=2 * len(sink.data) + 1000), c2.decryptor())
    out = b''
    try:
        while len(out) < len(data):
            r = f.read(rng.randrange(1, 300))
            if not r:
                break
            out += r
        if f.read(7) != b'':
            bad = bad or 'read at end of stream does not return b\'\''
    except RuntimeError as e:
        bad = bad or 'EncryptedFileObjectWrapper.read spins on a stream that has ended (%s)' % e
    if out != data:
        bad = bad or 'decrypted stream differs from the plaintext'
    if bad is None:
        # fault at one point: one real send is interrupted by a signal (nothing written).  Whatever reaches the socket in
        # the end must still be the one continuous CFB8 stream of what the wrapper accepted.
        for kind in (InterruptedError(4, 'Interrupted system call'), OSError(113, 'No route to host')):
            c3 = encryption.create_AES_cipher(secret)
            sink2, state = Sink(), []

            class Flaky(object):
                def send(self, d):
                    state.append(1)
                    if len(state) == 2:
                        raise kind
                    return sink2.send(d)
            w2 = encryption.EncryptedSocketWrapper(Flaky(), c3.encryptor(), c3.decryptor())
            accepted = b''
            for piece in (data[:40], data[40:100], data[100:160]):
                try:
                    w2.send(piece)
                    accepted += piece
                except OSError:
                    break
            want = encryption.create_AES_cipher(secret).encryptor().update(accepted)
            if sink2.data != want[:len(sink2.data)] or (accepted and len(sink2.data) != len(accepted)):
                bad = 'after the second real send failed with %r: the socket received %d bytes that are not the continuous ' \
                      'AES-CFB8 stream of the %d bytes the wrapper accepted (diverges at offset %d)' \
                      % (kind, len(sink2.data), len(accepted),
                         next((i for i, (a, b) in enumerate(zip(sink2.data, want)) if a != b), min(len(sink2.data), len(want))))
                break
    return dict(confirmed=bad is not None, call='%d bytes through EncryptedSocketWrapper/EncryptedFileObjectWrapper' % len(data),
                observed=bad or 'conforms')


# ------------------------------------------------------------------------------------------
# Connection._write_packet: the compression switch
# ------------------------------------------------------------------------------------------
class WriteSwitch(Unit):
    prop = 'C01'
    name = 'C01.write.switch'
    functions = ('minecraft.networking.connection.Connection._write_packet [threshold argument]',)

    def run(self, I):
        E = I.E
        enabled = bool(E.fork(2, 'enabled'))
        thr = E.new_int('thr')
        conn = harness_connection()
        opts = types.SimpleNamespace(compression_enabled=enabled, compression_threshold=thr)
        conn.__dict__.update(early_outgoing_packet_listeners=[], outgoing_packet_listeners=[], socket='SOCK', options=opts)
        calls = []
        # the framing mode can change WHILE the early outgoing listeners of this packet run (the networking thread applies a
        # set-compression at that moment; a listener may take arbitrarily long): the frame is written in the mode in force when
        # it is written, not in one sampled earlier (interference injected at the listener call; seeded change C10-r11)
        switch = bool(E.fork(2, 'mode-changes-during-early-listeners'))
        thr2 = E.new_int('thr2')
        if switch:
            def flip(packet, new_enabled=(not enabled)):
                opts.compression_enabled = new_enabled
                opts.compression_threshold = thr2
            conn.__dict__['early_outgoing_packet_listeners'] = [types.SimpleNamespace(call_packet=flip)]
            enabled, thr = (not enabled), thr2

        class P(object):
            def write(self, *a):
                calls.append(a)
        I.call(raw(Connection, '_write_packet'), conn, P())
        E.check('switch.args', calls == [('SOCK', thr)] if enabled else calls == [('SOCK',)],
                note='the threshold IN FORCE WHEN THE FRAME IS WRITTEN is passed to Packet.write exactly when compression is enabled')
        return None

    def replay(self, model, label):
        return replay_switch()

    def bounded(self, rng, tier):
        rp = replay_switch()
        return dict(name='C01.write.switch.concrete', evaluations=rp['n'], bound='compression off/on x mode changed by an early outgoing '
                    'listener or not, real Connection._write_packet', failures=[dict(call=rp['call'], observed=rp['observed'],
                                                                                       witness='write-switch')] if rp['confirmed'] else [])


def replay_switch():
    import itertools
    from .common import native_connection
    n = 0
    for enabled, flips in itertools.product((False, True), (False, True)):
        n += 1
        conn = native_connection()
        opts = types.SimpleNamespace(compression_enabled=enabled, compression_threshold=64)
        conn.options, conn.socket = opts, 'SOCK'
        conn.outgoing_packet_listeners = []

        def flip(packet, opts=opts, enabled=enabled):
            opts.compression_enabled, opts.compression_threshold = (not enabled), 256
        conn.early_outgoing_packet_listeners = [types.SimpleNamespace(call_packet=flip)] if flips else []
        calls = []

        class P(object):
            def write(self, *a):
                calls.append(a)
        k, v = native_call(conn._write_packet, P())
        now_enabled = (not enabled) if flips else enabled
        want = [('SOCK', 256 if flips else 64)] if now_enabled else [('SOCK',)]
        got = [tuple(x for x in c if x is not None) if not now_enabled else c for c in calls]
        if k != 'ok' or got != want:
            return dict(confirmed=True, n=n, call='_write_packet with compression %s%s' % ('on' if enabled else 'off',
                        ', switched %s (threshold 256) by the networking thread while an early outgoing listener runs'
                        % ('off' if enabled else 'on') if flips else ''),
                        observed='%s; Packet.write%r, the mode in force at the write needs %r' % (k, calls, want))
    return dict(confirmed=False, n=n, call='_write_packet framing switch', observed='conforms')


def _own_units(tier):
    from . import c12
    # "written to a connection" includes writes from several threads: frames stay contiguous only if every path to
    # the wire holds the write lock (the same lock contracts as C12, claimed here for the merged/split clause)
    from . import c03
    from minecraft.networking.types import VarInt
    us = []
    for u, nm in ((c03.SendCanonical(VarInt, 32), 'C01.length-prefix.VarInt.send'), (c03.ReadArbitrary(VarInt), 'C01.length-prefix.VarInt.read')):
        # the frame length and the data length are VarInts: the frame contracts above go through the VarInt contract,
        # whose byte-level proof (C03) is claimed here as well
        u.prop, u.name = 'C01', nm
        us.append(u)
    return [WriteFrame(), ReadFrame(), SizeCheck(), Segmentation(), CipherFile(), CipherSocket(), WriteSwitch()] + c12.c01_units() + us


def units(tier):
    from .deps import dependency_units
    return _own_units(tier) + dependency_units('C01')
