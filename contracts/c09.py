"""C09 — status queries and version negotiation pick the right version or the right error.

Under contract: Connection.__init__ (version resolution), connect, status, _handshake, _version_mismatch,
write_packet, StatusReactor.react/__init__, PlayingStatusReactor.handle_status / handle_proto_version /
handle_failure / handle_exception.  The transport (_connect) and thread start (_start_network_thread) are
abstracted by their C16 contracts.  The server's protocol number is an arbitrary symbolic integer; the
allowed set is an abstract set (uninterpreted membership) in the negotiation unit.
"""
import json
import threading
import timeit
import types
from collections import deque

import z3

import minecraft
from minecraft.networking import connection as conn_mod
from minecraft.networking.connection import (Connection, ConnectionContext, StatusReactor, PlayingStatusReactor,
                                              LoginReactor, PacketReactor, STATE_STATUS, STATE_PLAYING)
from minecraft.networking.packets import serverbound, clientbound
from minecraft.exceptions import VersionMismatch

from pyvc.driver import Unit
from pyvc.values import SInt, SBool, SStr, SReal, And, Or, Not, Implies, Unsupported, is_symbolic
from pyvc.interp import PyRaise
from pyvc.models import GhostLock
from pyvc.harness import native_call
from .common import harness_connection, lock_name, native_connection, raw

ASSUMPTIONS = [
    '_connect / _start_network_thread are used through their C16 contracts (fresh empty queue, connected; one thread)',
    'json.loads returns the parsed status object (opaque) or raises ValueError',
    'timeit.default_timer is monotone non-decreasing; time.time is an adjustable wall clock (successive readings unrelated)',
    'the allowed-version set in the negotiation unit is an abstract set (uninterpreted membership); in the connect-shape '
    'unit every singleton of a supported version and three multi-element sets are enumerated',
]
C_ = 'minecraft.networking.connection.'
_allowed = z3.Function('allowed', z3.IntSort(), z3.BoolSort())


class AbsSet(object):
    def __contains__(self, p):
        if isinstance(p, SInt):
            return SBool(_allowed(p.t))
        if isinstance(p, int) and not isinstance(p, bool):
            return SBool(_allowed(z3.IntVal(p)))
        return False

    def _meet(self, other):
        # intersection with a finite set display: the elements of `other` that are allowed (decided per path)
        from pyvc.engine import engine
        from pyvc.values import SymSet
        elems = list(other.elems) if isinstance(other, SymSet) else list(other)
        keep = [e for e in elems if engine().decide(self.__contains__(e).t)]
        return SymSet(keep) if any(isinstance(e, SInt) for e in keep) else set(keep)

    __and__ = __rand__ = __iand__ = _meet


def bare_connection(I, **attrs):
    I.override(threading.RLock, lambda I_: GhostLock(), kind='assumed')
    conn = harness_connection()
    conn.__dict__.update(attrs)
    return conn


# ------------------------------------------------------------------------------------------
def replay_default_version():
    """The default (fallback) version of a real Connection is the chronologically latest allowed one."""
    sup, idx = minecraft.SUPPORTED_PROTOCOL_VERSIONS, minecraft.PROTOCOL_VERSION_INDICES
    pre = [p for p in sup if p >= 0x40000000]
    cases = [None, list(sup), [47, 757], [340, 47]] + ([[757] + pre[-1:], pre[:1] + [498]] if pre else [])
    for av in cases:
        k, c = native_call(Connection, 'h', 1, allowed_versions=av)
        want = max(av if av is not None else sup, key=idx.get)
        call = 'Connection(allowed_versions=%s)' % ('None' if av is None else '[%d versions incl. %s]' % (len(av), ', '.join(map(str, av[:3]))))
        if k != 'ok':
            return dict(confirmed=True, call=call, observed='%s %r' % (k, c))
        if c.default_proto_version != want or c.context.protocol_version != want:
            return dict(confirmed=True, call=call, observed='default version %r / context version %r, the latest allowed version in publication '
                        'order is %r' % (c.default_proto_version, c.context.protocol_version, want))
    return dict(confirmed=False, call='default version of real Connections', observed='conforms')


class InitVersions(Unit):
    prop = 'C09'
    name = 'C09.init.versions'
    int_mode = 'int'
    functions = (C_ + 'Connection.__init__ [version resolution]',)
    max_paths = 5000

    def setup(self, I):
        I.override(threading.RLock, lambda I_: GhostLock(), kind='assumed')

    def run(self, I):
        E = I.E
        sup = minecraft.SUPPORTED_PROTOCOL_VERSIONS
        idx = minecraft.PROTOCOL_VERSION_INDICES
        mode = E.fork(5, 'mode')
        if mode == 4:
            # the supported set is extensible at RUN TIME (records appended, initglobals() - "all updates are done by
            # reference"): what the constructor accepts follows the tables as they are NOW, not a copy taken at import
            # (seeded change C09-r13: frozenset(SUPPORTED_PROTOCOL_VERSIONS) built when the module is imported)
            P, NAME = 999001, 'verif-extension'
            tabs = (minecraft.SUPPORTED_PROTOCOL_VERSIONS, minecraft.KNOWN_PROTOCOL_VERSIONS)
            maps = (minecraft.SUPPORTED_MINECRAFT_VERSIONS, minecraft.KNOWN_MINECRAFT_VERSIONS)
            try:
                for t in tabs:
                    t.append(P)
                for m in maps:
                    m[NAME] = P
                minecraft.PROTOCOL_VERSION_INDICES[P] = len(minecraft.KNOWN_PROTOCOL_VERSIONS) - 1
                for kw in (dict(initial_version=P), dict(initial_version=NAME), dict(allowed_versions={P}), dict(allowed_versions={NAME})):
                    try:
                        c = I.call(Connection, 'h', 1, **kw)
                        ok = c.default_proto_version == P if 'initial_version' in kw else c.allowed_proto_versions == {P}
                        E.check('init.follows-runtime-extension', ok, note='%r after the version was declared supported at run time' % (kw,))
                    except PyRaise as e:
                        E.check('init.follows-runtime-extension', False, note='%r refused after the version was declared supported at '
                                                                               'run time: %r' % (kw, e.exc))
            finally:
                del minecraft.PROTOCOL_VERSION_INDICES[P]
                for m in maps:
                    del m[NAME]
                for t in tabs:
                    t.pop()
            return None
        if mode == 0:
            # initial_version: ANY integer
            v = E.new_int('initial')
            try:
                c = I.call(Connection, 'h', 1, initial_version=v)
                E.check('init.number-accepted-iff-supported', Or(*[v == p for p in sup]))
                E.check('init.default-is-initial', c.default_proto_version == v)
            except PyRaise as e:
                E.check('init.number-accepted-iff-supported', And(isinstance(e.exc, ValueError), *[v != p for p in sup]),
                        note='%r' % (e.exc,))
            return None
        if mode == 1:
            cases = [('1.8.9', 47), ('1.18.1', 757), ('1.12.2', 340), ('21w07a', minecraft.SUPPORTED_MINECRAFT_VERSIONS.get('21w07a')),
                     ('13w41a', None), ('no-such-version', None), (None, 'default'), (1.5, None), (b'1.8', None)]
            name, want = cases[E.fork(len(cases), 'name')]
            try:
                c = I.call(Connection, 'h', 1, initial_version=name)
                latest = max(sup, key=idx.get)
                E.check('init.name-resolves', want is not None and c.default_proto_version == (latest if want == 'default' else want),
                        note='%r -> %r' % (name, c.default_proto_version))
            except PyRaise as e:
                E.check('init.name-resolves', want is None and isinstance(e.exc, ValueError), note='%r: %r' % (name, e.exc))
            return None
        if mode == 2:
            sets = [[757], ['1.8.9', 340], [47, '1.12.2', 757], list(sup[:5]), list(sup), [340, 340],
                    [47, 999999], ['1.8', 'bogus'], [13]]
            av = sets[E.fork(len(sets), 'allowed')]
            try:
                c = I.call(Connection, 'h', 1, allowed_versions=av)
                res = {minecraft.SUPPORTED_MINECRAFT_VERSIONS[x] if isinstance(x, str) else x for x in av
                       if (x in minecraft.SUPPORTED_MINECRAFT_VERSIONS if isinstance(x, str) else x in sup)}
                ok = len(res) == len(set(av)) or av == [340, 340]
                E.check('init.allowed-set', ok and c.allowed_proto_versions == res and
                        c.default_proto_version == max(res, key=idx.get) and
                        c.context.protocol_version == max(res, key=idx.get),
                        note='names and numbers resolve; default = the chronologically latest allowed version')
            except PyRaise as e:
                bad = [x for x in av if not (x in minecraft.SUPPORTED_MINECRAFT_VERSIONS if isinstance(x, str) else x in sup)]
                E.check('init.allowed-set', bool(bad) and isinstance(e.exc, ValueError), note='%r' % (e.exc,))
            return None
        c = I.call(Connection, 'h', 1)
        E.check('init.all-supported-by-default', c.allowed_proto_versions == set(sup) and
                c.default_proto_version == max(sup, key=idx.get))
        return None

    def replay(self, model, label):
        if label.startswith('init.name'):
            rp = replay_initial_names()
            if rp['confirmed']:
                return rp
        if label.startswith('init.follows'):
            rp = replay_runtime_extension()
            if rp['confirmed']:
                return rp
        if 'initial' not in model:
            return replay_default_version()
        v = int(model.get('initial', 0))
        k, r = native_call(Connection, 'h', 1, initial_version=v)
        ok = (k == 'ok') == (v in minecraft.SUPPORTED_PROTOCOL_VERSIONS)
        return dict(confirmed=not ok, call='Connection(initial_version=%d)' % v, observed='%s %r' % (k, r))

    def bounded(self, rng, tier):
        fails, cnt = [], 0
        for v in list(minecraft.KNOWN_PROTOCOL_VERSIONS) + [-1, 10 ** 9, 758]:
            cnt += 1
            k, r = native_call(Connection, 'h', 1, initial_version=v, allowed_versions=None)
            if (k == 'ok') != (v in minecraft.SUPPORTED_PROTOCOL_VERSIONS):
                fails.append(dict(call='Connection(initial_version=%d)' % v, observed='%s %r' % (k, r), witness='init'))
        for name, p in minecraft.KNOWN_MINECRAFT_VERSIONS.items():
            cnt += 1
            k, r = native_call(Connection, 'h', 1, allowed_versions={name})
            want_ok = name in minecraft.SUPPORTED_MINECRAFT_VERSIONS
            if (k == 'ok') != want_ok or (k == 'ok' and r.allowed_proto_versions != {minecraft.SUPPORTED_MINECRAFT_VERSIONS[name]}):
                fails.append(dict(call='Connection(allowed_versions={%r})' % name, observed='%s' % k, witness='init-name'))
        cnt += 1
        rp = replay_default_version()
        if rp['confirmed']:
            fails.insert(0, dict(call=rp['call'], observed=rp['observed'], witness='default-version'))
        rp = replay_initial_names()
        cnt += rp['n']
        if rp['confirmed']:
            fails.insert(0, dict(call=rp['call'], observed=rp['observed'], witness='initial-version-name'))
        rp = replay_runtime_extension()
        cnt += rp['n']
        if rp['confirmed']:
            fails.insert(0, dict(call=rp['call'], observed=rp['observed'], witness='runtime-extension'))
        return dict(name='C09.init.all-known', evaluations=cnt, failures=fails[:2], exhaustive_for_bound=True,
                    bound='every known protocol number and every known version name; default version for six allowed sets')


# ------------------------------------------------------------------------------------------
def replay_runtime_extension():
    """The documented way to add a version at run time: append a record, initglobals(); the constructor and the mismatch
    report must follow.  (Tables restored afterwards.)"""
    from minecraft import Version
    from minecraft.exceptions import VersionMismatch
    recs = minecraft.KNOWN_MINECRAFT_VERSION_RECORDS
    recs.append(Version('verif-extension', 999001, True))
    bad = None
    try:
        minecraft.initglobals(use_known_records=True)
        for kw in (dict(initial_version=999001), dict(allowed_versions={'verif-extension'}), dict(allowed_versions={757, 999001})):
            k, c = native_call(Connection, 'h', 1, **kw)
            if k != 'ok':
                bad = 'Connection(%r) after the version was added at run time: %s %r' % (kw, k, c)
                break
        if bad is None:
            c = Connection('h', 1, allowed_versions={757})
            k, e = native_call(c._version_mismatch, server_protocol=999001, server_version=None)
            if k != 'raise' or not isinstance(e, VersionMismatch) or 'not allowed' not in str(e):
                bad = 'mismatch report for the run-time supported version 999001: %s %r (it IS supported, only not allowed)' % (k, str(e))
    finally:
        recs.pop()
        minecraft.initglobals(use_known_records=True)
    return dict(confirmed=bad is not None, n=4, call='records extended by (verif-extension, 999001, supported) + initglobals()',
                observed=bad or 'constructor and mismatch report follow the extension')


def replay_initial_names():
    """initial_version given as a version NAME: the default (fallback) version must be its protocol NUMBER - it becomes
    context.protocol_version when a status query fails, and every id / layout lookup takes a number."""
    n = 0
    for name, proto in list(minecraft.SUPPORTED_MINECRAFT_VERSIONS.items())[::7] + [('1.12.2', 340), ('1.8.9', 47)]:
        n += 1
        k, c = native_call(Connection, 'h', 1, initial_version=name)
        if k != 'ok' or c.default_proto_version != proto or type(c.default_proto_version) is not int:
            return dict(confirmed=True, n=n, call='Connection(initial_version=%r)' % (name,),
                        observed='%s; default_proto_version = %r, expected the protocol number %d'
                                 % (k, getattr(c, 'default_proto_version', None), proto))
    return dict(confirmed=False, n=n, call='initial_version by name', observed='resolved to numbers')


def OTHER_EXCEPTIONS():
    import socket
    return [ValueError('x'), OSError(113, 'No route to host'), ConnectionRefusedError(111, 'Connection refused'),
            ConnectionResetError(104, 'Connection reset by peer'), BrokenPipeError(32, 'Broken pipe'), socket.timeout('timed out'),
            KeyError('k'), RuntimeError('r'), IOError('io')]


class Negotiate(Unit):
    prop = 'C09'
    name = 'C09.negotiate'
    int_mode = 'int'
    functions = (C_ + 'PlayingStatusReactor.handle_status', C_ + 'PlayingStatusReactor.handle_proto_version',
                 C_ + 'PlayingStatusReactor.handle_failure', C_ + 'PlayingStatusReactor.handle_exception',
                 C_ + 'Connection._version_mismatch')

    def setup(self, I):
        unit = self
        I.override(raw(Connection, 'connect'), lambda I_, conn: unit.events.append(('connect', conn.allowed_proto_versions)),
                   kind='contract')
        I.override(raw(Connection, 'disconnect'), lambda I_, conn, immediate=False: unit.events.append(('disconnect', immediate)),
                   kind='contract')

    def run(self, I):
        E = I.E
        self.events = []
        default = E.new_int('default')
        conn = bare_connection(I, allowed_proto_versions=AbsSet(), default_proto_version=default,
                               context=ConnectionContext(protocol_version=757))
        r = object.__new__(PlayingStatusReactor)
        r.__dict__['connection'] = conn
        kind = ('empty', 'no-version', 'no-protocol', 'protocol', 'protocol-named', 'eof', 'other-exception')[E.fork(7, 'server')]
        proto = E.new_int('proto')
        name = E.new_str('name')
        try:
            if kind == 'eof':
                ret = I.call(I.getattr_(r, 'handle_exception'), EOFError('x'), None)
            elif kind == 'other-exception':
                # "only when ... the server closes without replying": every exception other than the end of stream - a
                # refused or reset re-connection, a timeout, a malformed reply - must stay an error (seeded change C09-r10:
                # ConnectionError swallowed, the login then silently uses the default version)
                others = OTHER_EXCEPTIONS()
                ret = I.call(I.getattr_(r, 'handle_exception'), others[E.fork(len(others), 'which-exception')], None)
            else:
                status = {'empty': {}, 'no-version': {'description': 'x'}, 'no-protocol': {'version': {'name': name}},
                          'protocol': {'version': {'protocol': proto}},
                          'protocol-named': {'version': {'protocol': proto, 'name': name}, 'players': {}}}[kind]
                ret = I.call(I.getattr_(r, 'handle_status'), status)
            outcome = ('ret', ret)
        except PyRaise as e:
            outcome = ('raise', e.exc)
        ev = self.events

        def reconnects_with(v):
            if len(ev) < 1 or ev[-1][0] != 'connect':
                return False
            s = ev[-1][1]
            elems = list(s)
            return len(elems) == 1 and I.equals(elems[0], v)
        if kind == 'empty':
            E.check('negotiate.empty-status-invalid', outcome[0] == 'raise' and isinstance(outcome[1], IOError)
                    and not isinstance(outcome[1], VersionMismatch) and not ev,
                    note='an empty status object is rejected, not treated as "no version"')
        elif kind in ('no-version', 'no-protocol'):
            E.check('negotiate.fallback-default', And(outcome[0] == 'ret', reconnects_with(default), len(ev) == 1),
                    note='no version information: allowed := {default} and connect()')
        elif kind in ('protocol', 'protocol-named'):
            ok_allowed = SBool(_allowed(proto.t))
            if outcome[0] == 'ret':
                E.check('negotiate.allowed-uses-server-version', And(ok_allowed, reconnects_with(proto), len(ev) == 1),
                        note='server version allowed: allowed := {server protocol} and connect()')
            else:
                exc = outcome[1]
                E.check('negotiate.mismatch-only-when-not-allowed', And(Not(ok_allowed), isinstance(exc, VersionMismatch), not ev))
                if isinstance(exc, VersionMismatch):
                    msg = exc.args[0]
                    sup = Or(*[proto == p for p in minecraft.SUPPORTED_PROTOCOL_VERSIONS])
                    dec = z3.If(proto.t >= 0, z3.IntToStr(proto.t), z3.Concat(z3.StringVal('-'), z3.IntToStr(-proto.t)))
                    E.check('mismatch.names-server-version', SBool(z3.Contains(msg.t, dec)) if isinstance(msg, SStr) else False,
                            note='the message contains the decimal server protocol number')
                    # the verdict is the end of the sentence (the server-supplied name may contain anything)
                    E.check('mismatch.says-unsupported-iff',
                            SBool(z3.SuffixOf(z3.StringVal(' is not supported.'), msg.t)) == Not(sup)
                            if isinstance(msg, SStr) else False)
                    E.check('mismatch.says-not-allowed-iff',
                            SBool(z3.SuffixOf(z3.StringVal(' is supported, but not allowed for this connection.'), msg.t)) == sup
                            if isinstance(msg, SStr) else False)
                    E.check('mismatch.attributes', And(I.equals(exc.server_protocol, proto),
                                                       I.equals(exc.server_version, name) if kind == 'protocol-named'
                                                       else exc.server_version is None))
        elif kind == 'eof':
            E.check('eof.fallback', And(outcome == ('ret', True), len(ev) == 2, ev[0] == ('disconnect', True),
                                        reconnects_with(default)),
                    note='EOFError: immediate disconnect, then the same fallback as "no version"; reported as handled')
        else:
            E.check('eof.other-exceptions-not-swallowed', outcome[0] == 'ret' and not outcome[1] and not ev)
        return None

    def replay(self, model, label):
        if label.startswith('eof.other'):
            rp = replay_other_exceptions()
            if rp['confirmed']:
                return rp
        return replay_negotiate(int(model.get('proto', 0)))

    def bounded(self, rng, tier):
        fails, cnt = [], len(OTHER_EXCEPTIONS())
        rp = replay_other_exceptions()
        if rp['confirmed']:
            fails.append(dict(call=rp['call'], observed=rp['observed'], witness='other-exception-swallowed'))
        for proto in list(minecraft.KNOWN_PROTOCOL_VERSIONS)[::3] + [-5, 0, 758, 10 ** 6]:
            cnt += 1
            rp = replay_negotiate(proto)
            if rp['confirmed']:
                fails.append(dict(call=rp['call'], observed=rp['observed'], witness='negotiate'))
                break
        return dict(name='C09.negotiate.numbers', evaluations=cnt, failures=fails,
                    bound='every third known protocol number + unknown numbers x 3 allowed sets')


def replay_other_exceptions():
    for exc in OTHER_EXCEPTIONS():
        conn = native_connection()
        conn.allowed_proto_versions, conn.default_proto_version = {340, 47}, 340
        ev = []
        conn.connect = lambda: ev.append('connect')
        conn.disconnect = lambda immediate=False: ev.append('disconnect')
        r = object.__new__(PlayingStatusReactor)
        r.connection = conn
        k, v = native_call(r.handle_exception, exc, None)
        if k != 'ok' or v or ev:
            return dict(confirmed=True, call='PlayingStatusReactor.handle_exception(%r)' % (exc,),
                        observed='%s %r, events %r: the exception is treated as "no reply" and the login falls back to the '
                                 'default version' % (k, v, ev))
    return dict(confirmed=False, call='handle_exception over %d kinds of exception' % len(OTHER_EXCEPTIONS()), observed='none swallowed')


def replay_negotiate(proto):
    sup = minecraft.SUPPORTED_PROTOCOL_VERSIONS
    for allowed in ({757}, {47, 340, 757}, set(sup)):
        # no version information / server closes: the configured default is used, whether or not it is in the allowed set
        for default in (340, 404, 47):
            for how in ('no-version', 'no-protocol', 'eof'):
                conn = native_connection()
                conn.allowed_proto_versions = set(allowed)
                conn.default_proto_version = default
                ev = []
                conn.connect = lambda: ev.append(set(conn.allowed_proto_versions))
                conn.disconnect = lambda immediate=False: None
                r = object.__new__(PlayingStatusReactor)
                r.connection = conn
                if how == 'eof':
                    k, v = native_call(r.handle_exception, EOFError('closed'), None)
                else:
                    k, v = native_call(r.handle_status, {'description': 'x'} if how == 'no-version' else {'version': {'name': 'N'}})
                if k != 'ok' or ev != [{default}]:
                    return dict(confirmed=True, call='status reply without a protocol number (%s), allowed=%r, default=%d'
                                % (how, sorted(allowed)[:4], default),
                                observed='%s %r; reconnects with %r instead of [{%d}]' % (k, v, ev, default))
        conn = native_connection()
        conn.allowed_proto_versions = set(allowed)
        conn.default_proto_version = 340
        ev = []
        conn.connect = lambda: ev.append(set(conn.allowed_proto_versions))
        r = object.__new__(PlayingStatusReactor)
        r.connection = conn
        k, v = native_call(r.handle_status, {'version': {'protocol': proto, 'name': 'N'}})
        bad = None
        if proto in allowed:
            if k != 'ok' or ev != [{proto}]:
                bad = 'allowed version %d: %s %r, reconnects %r' % (proto, k, v, ev)
        else:
            if k != 'raise' or not isinstance(v, VersionMismatch) or ev:
                bad = 'disallowed version %d: %s %r' % (proto, k, v)
            else:
                m = str(v)
                if str(proto) not in m or ('not supported' in m) != (proto not in sup) or \
                        ('but not allowed' in m) != (proto in sup):
                    bad = 'message %r for protocol %d (supported=%r)' % (m, proto, proto in sup)
        if bad:
            return dict(confirmed=True, call='handle_status(protocol=%d) with allowed=%r' % (proto, sorted(allowed)[:4]), observed=bad)
    return dict(confirmed=False, call='handle_status(protocol=%d)' % proto, observed='conforms')


# ------------------------------------------------------------------------------------------
class FakeToken(object):
    def __init__(self, name):
        self.profile = types.SimpleNamespace(name=name)

    def __bool__(self):
        return True


class ConnectShape(Unit):
    prop = 'C09'
    name = 'C09.connect.shape'
    int_mode = 'int'
    functions = (C_ + 'Connection.connect', C_ + 'Connection._handshake', C_ + 'Connection.write_packet')
    max_paths = 5000

    def setup(self, I):
        unit = self

        def _connect(I_, conn):
            conn.__dict__['_outgoing_packet_queue'] = deque()
            conn.__dict__['connected'] = True
            unit.events.append('_connect')
        I.override(raw(Connection, '_connect'), _connect, kind='contract')
        I.override(raw(Connection, '_start_network_thread'), lambda I_, conn: unit.events.append('start'), kind='contract')
        I.override(raw(Connection, '_check_connection'), lambda I_, conn: unit.events.append('check'), kind='contract')

    def run(self, I):
        E = I.E
        self.events = []
        sup = minecraft.SUPPORTED_PROTOCOL_VERSIONS
        idx = minecraft.PROTOCOL_VERSION_INDICES
        k = E.fork(len(sup) + 3, 'allowed')
        if k < len(sup):
            allowed = {sup[k]}
        else:
            allowed = [{sup[0], sup[-1]}, set(sup[:7]), set(sup)][k - len(sup)]
        address = E.new_str('address')
        port = E.new_int('port', 0, 65535)
        user = E.new_str('username')
        prof = E.new_str('profile-name')
        with_token = bool(E.fork(2, 'token'))
        conn = bare_connection(I, allowed_proto_versions=set(allowed), context=ConnectionContext(protocol_version=47),
                               options=types.SimpleNamespace(address=address, port=port), username=user,
                               auth_token=FakeToken(prof) if with_token else None, **{lock_name(): GhostLock()},
                               reactor=None)
        try:
            I.call(raw(Connection, 'connect'), conn)
        except PyRaise as e:
            E.check('connect.no-raise', False, note='%r' % (e.exc,))
            return None
        q = list(conn._outgoing_packet_queue)
        chosen = max(allowed, key=idx.get)
        E.check('connect.order', self.events == ['check', '_connect', 'start'],
                note='activity check first, transport, ..., thread start last')
        E.check('connect.context-version', conn.context.protocol_version == chosen)
        E.check('connect.two-packets', len(q) == 2 and all(p.context is conn.context for p in q))
        if len(q) != 2:
            return None
        hs, second = q
        single = len(allowed) == 1
        E.check('handshake.fields', And(type(hs) is serverbound.handshake.HandShakePacket, hs.protocol_version == chosen,
                                        I.equals(hs.server_address, address), I.equals(hs.server_port, port),
                                        hs.next_state == (2 if single else 1)),
                note='chosen protocol number, target host and port, next state 2 (login) / 1 (status)')
        if single:
            E.check('login.start', And(type(second) is serverbound.login.LoginStartPacket,
                                       I.equals(second.name, prof if with_token else user)),
                    note='login start names the authenticated profile, else the configured user; no status request')
            E.check('login.reactor', type(conn.reactor) is LoginReactor)
        else:
            E.check('status.request', type(second) is serverbound.status.RequestPacket)
            E.check('status.reactor', type(conn.reactor) is PlayingStatusReactor and conn.reactor.do_ping is False)
        E.check('connect.spawned-reset', conn.spawned is False)
        r = conn.reactor
        want = dict((p.get_id(conn.context), p) for p in type(r).get_clientbound_packets(conn.context)) \
            if isinstance(r, PacketReactor) else None
        E.check('connect.reactor-table-for-context', want is not None and getattr(r, 'clientbound_packets', None) == want,
                note='the id -> class table of the reactor connect() installs is the one of the protocol version the context holds '
                     'when connect() returns (here the context held 47 before): a reactor built before the context is updated decodes '
                     'with the ids of the earlier version')
        return None

    def replay(self, model, label):
        return replay_shape()

    def bounded(self, rng, tier):
        rp = replay_shape()
        return dict(name='C09.connect.concrete', evaluations=rp['n'], bound='4 allowed sets x token/no token on the real Connection',
                    failures=[dict(call=rp['call'], observed=rp['observed'], witness='connect-shape')] if rp['confirmed'] else [])


def replay_shape():
    n = 0
    idx = minecraft.PROTOCOL_VERSION_INDICES
    for allowed in ({757}, {47}, {47, 757}, None, 'negotiated-387'):
        for tok in (False, True):
            n += 1
            c = Connection('host.example', 12345, username='user', allowed_versions=None if allowed == 'negotiated-387' else allowed,
                           auth_token=FakeToken('profile') if tok else None)
            if allowed == 'negotiated-387':
                # what PlayingStatusReactor.handle_proto_version does once the server has named its version
                c.allowed_proto_versions = {387}
            c._connect = lambda c=c: setattr(c, '_outgoing_packet_queue', deque())
            c._start_network_thread = lambda: None
            c.connect()
            q = list(c._outgoing_packet_queue)
            chosen = max(c.allowed_proto_versions, key=idx.get)
            single = len(c.allowed_proto_versions) == 1
            bad = None
            if len(q) != 2:
                bad = '%d packets queued' % len(q)
            else:
                hs = q[0]
                if (hs.protocol_version, hs.server_address, hs.server_port, hs.next_state) != \
                        (chosen, 'host.example', 12345, 2 if single else 1):
                    bad = 'handshake %r' % (hs,)
                elif single and (q[1].packet_name != 'login start' or q[1].name != ('profile' if tok else 'user')):
                    bad = 'second packet %r' % (q[1],)
                elif not single and q[1].packet_name != 'request':
                    bad = 'second packet %r' % (q[1],)
                else:
                    want = dict((p.get_id(c.context), p) for p in type(c.reactor).get_clientbound_packets(c.context))
                    if c.reactor.clientbound_packets != want:
                        d = sorted(k for k in set(want) | set(c.reactor.clientbound_packets)
                                   if want.get(k) is not c.reactor.clientbound_packets.get(k))
                        bad = ('the context holds protocol %d but the %s decodes id(s) %s as %s where that version has %s'
                               % (c.context.protocol_version, type(c.reactor).__name__, d,
                                  [getattr(c.reactor.clientbound_packets.get(k), '__name__', None) for k in d],
                                  [getattr(want.get(k), '__name__', None) for k in d]))
            if bad:
                return dict(confirmed=True, n=n, call='connect() with allowed=%r token=%r' % (allowed, tok), observed=bad)
    return dict(confirmed=False, n=n, call='connect() queue shape', observed='conforms')


# ------------------------------------------------------------------------------------------
class StatusQuery(Unit):
    prop = 'C09'
    name = 'C09.status.query'
    int_mode = 'int'
    functions = (C_ + 'Connection.status', C_ + 'StatusReactor.react', C_ + 'StatusReactor.__init__')

    def setup(self, I):
        unit = self

        def _connect(I_, conn):
            conn.__dict__['_outgoing_packet_queue'] = deque()
            conn.__dict__['connected'] = True
        I.override(raw(Connection, '_connect'), _connect, kind='contract')
        I.override(raw(Connection, '_start_network_thread'), lambda I_, conn: None, kind='contract')
        I.override(raw(Connection, '_check_connection'), lambda I_, conn: None, kind='contract')
        I.override(raw(Connection, 'disconnect'), lambda I_, conn, immediate=False: unit.events.append('disconnect'),
                   kind='contract')
        I.override(json.loads, lambda I_, s, **kw: ('PARSED', s), kind='assumed')

        def timer(I_):
            E = I_.E
            t = E.new_real('t')
            if unit.clock is not None:
                E.assume(t >= unit.clock)
            E.assume(t >= 0)
            unit.clock = t
            return t
        I.override(timeit.default_timer, timer, kind='assumed')
        import time as _time
        # the wall clock can be set back between two readings (NTP step, manual change, VM resume): successive readings of
        # time.time are unrelated reals, so a latency computed from it has no sign (seeded change C09-r16)
        I.override(_time.time, lambda I_: I_.E.new_real('wall'), kind='assumed')

    def run(self, I):
        E = I.E
        self.events = []
        self.clock = None
        hs_mode = ('default', 'custom', 'disabled')[E.fork(3, 'handle_status')]
        hp_mode = ('default', 'custom', 'disabled')[E.fork(3, 'handle_ping')]
        got_status, got_ping = [], []
        hs = {'default': None, 'custom': lambda s: got_status.append(s), 'disabled': False}[hs_mode]
        hp = {'default': None, 'custom': lambda ms: got_ping.append(ms), 'disabled': False}[hp_mode]
        address = E.new_str('address')
        conn = bare_connection(I, allowed_proto_versions={757}, context=ConnectionContext(protocol_version=757),
                               options=types.SimpleNamespace(address=address, port=25565), **{lock_name(): GhostLock()}, reactor=None)
        I.call(raw(Connection, 'status'), conn, hs, hp)
        q = list(conn._outgoing_packet_queue)
        E.check('status.queue', len(q) == 2 and type(q[0]) is serverbound.handshake.HandShakePacket and
                q[0].next_state == 1 and q[0].protocol_version == 757 and type(q[1]) is serverbound.status.RequestPacket,
                note='[Handshake(next_state=1), Request]')
        r = conn.reactor
        E.check('status.reactor', type(r) is StatusReactor and r.do_ping == (hp_mode != 'disabled'))
        if hs_mode == 'default':
            # the default handler prints; replace by a recorder to count calls
            r.__dict__['handle_status'] = lambda s: got_status.append(s)
        if hp_mode == 'default':
            r.__dict__['handle_ping'] = lambda ms: got_ping.append(ms)
        # the server answers
        resp = clientbound.status.ResponsePacket()
        body = E.new_str('json')
        resp.json_response = body
        conn._outgoing_packet_queue.clear()
        I.call(I.getattr_(r, 'react'), resp)
        if hs_mode != 'disabled':
            E.check('status.handler-once', len(got_status) == 1 and got_status[0] == ('PARSED', body),
                    note='the parsed status object is handed to the handler exactly once')
        else:
            E.check('status.handler-disabled', got_status == [])
        q2 = list(conn._outgoing_packet_queue)
        if hp_mode == 'disabled':
            E.check('ping.not-requested', q2 == [] and self.events == ['disconnect'], note='no ping; the connection is closed')
            return None
        E.check('ping.queued', len(q2) == 1 and type(q2[0]) is serverbound.status.PingPacket and self.events == [])
        if len(q2) != 1:
            return None
        pong = clientbound.status.PingResponsePacket()
        pong.time = q2[0].time
        I.call(I.getattr_(r, 'react'), pong)
        E.check('ping.closes', self.events == ['disconnect'])
        E.check('ping.latency-once', len(got_ping) == 1)
        if len(got_ping) == 1:
            E.check('ping.latency-nonnegative', got_ping[0] >= 0, note='now - sent >= 0 for a monotone timer and an echoed time')
        return None

    def replay(self, model, label):
        if label.startswith('ping.latency'):
            return replay_latency()
        return dict(confirmed=False, call='status()', observed='')

    def bounded(self, rng, tier):
        rp = replay_latency()
        return dict(name='C09.status.latency-under-a-stepped-wall-clock', evaluations=1, bound='one status query with ping while '
                    'time.time is set back 5 s between readings (the monotonic timers run on)',
                    failures=[dict(call=rp['call'], observed=rp['observed'], witness='wall-clock-step')] if rp['confirmed'] else [])


def replay_latency():
    """Live: a status query with ping on the real Connection / StatusReactor while the wall clock is set back by 5 s at every
    reading (time.time only: the monotonic clocks are left alone)."""
    import time as _time
    got = []
    c = Connection('host.example', 25565, allowed_versions={757})
    c._connect = lambda: setattr(c, '_outgoing_packet_queue', deque())
    c._start_network_thread = lambda: None
    c.disconnect = lambda immediate=False: None
    orig, state = _time.time, [0]

    def stepped():
        state[0] += 1
        return orig() - 5.0 * state[0]
    bad = None
    _time.time = stepped
    try:
        c.status(handle_status=lambda s: None, handle_ping=got.append)
        r = c.reactor
        resp = clientbound.status.ResponsePacket()
        resp.json_response = '{"version": {"protocol": 757}}'
        c._outgoing_packet_queue.clear()
        r.react(resp)
        pings = [p for p in c._outgoing_packet_queue if type(p) is serverbound.status.PingPacket]
        if len(pings) == 1:
            pong = clientbound.status.PingResponsePacket()
            pong.time = pings[0].time
            r.react(pong)
    except Exception as e:      # noqa
        bad = 'raised %r' % (e,)
    finally:
        _time.time = orig
    if bad is None and (len(got) != 1 or not got[0] >= 0):
        bad = 'handle_ping received %r: the reported latency is negative' % (got,)
    return dict(confirmed=bad is not None, call='status(handle_ping=...) answered while time.time() is set back 5 s between the '
                'ping and the pong', observed=bad or 'conforms')


def c15_units():
    return [Negotiate(), InitVersions()]      # the fallback and the default version it falls back to


def _own_units(tier):
    from . import c10
    lt = c10.LoginTables()
    # "followed by a login start": what goes on the wire after the handshake carries the login-start id the specification
    # gives for the chosen version (0x00, or 0x01 while the plugin packets sat at 0x00: protocols 385..390)
    lt.prop, lt.name = 'C09', 'C09.login-start.wire-id'
    return [InitVersions(), Negotiate(), ConnectShape(), StatusQuery(), lt]


def units(tier):
    from .deps import dependency_units
    return _own_units(tier) + dependency_units('C09')
