"""C19 — auth token state follows the Yggdrasil replies; errors leave it untouched.

Under contract: Profile.__bool__/to_dict, AuthenticationToken.authenticated / authenticate / refresh /
validate / invalidate / join / sign_out, _raise_from_response, _make_request.
_make_request is the abstract boundary for the operations (ghost request trace); its own one-line body is
checked separately against a model of requests.post.
"""
import json

import requests
import z3

from minecraft import authentication as A
from minecraft.authentication import AuthenticationToken, Profile
from minecraft.exceptions import YggdrasilError

from pyvc.driver import Unit
from pyvc.values import SInt, SBool, SStr, And, Or, Not, Implies, Unsupported, is_symbolic
from pyvc.interp import PyRaise
from pyvc.harness import native_call

ASSUMPTIONS = [
    'requests.post returns a requests.Response: status_code:int, text:str, json() -> JSON value or ValueError, and a TRUTH VALUE '
    'that is False for every 4xx / 5xx reply (Response.__bool__ is `ok`) (assumed)',
    'JSON reply bodies are explored by SHAPE: non-JSON, null, number, bool, two strings, two lists, five error-object '
    'shapes, result object - contents (strings) symbolic',
    'json.dumps is an injective serialisation (uninterpreted)',
    'uuid.uuid4().hex is some fresh string',
]
Q = 'minecraft.authentication.'

SHAPES = ['non-json', 'null', 'number', 'bool', 'string', 'string-with-keys', 'list', 'list-with-keys',
          'dict-empty', 'dict-error-only', 'dict-message-only', 'dict-error', 'dict-error-cause', 'dict-result']


class SymResponse(object):
    def __init__(self, I, status, shape):
        E = I.E
        self.status_code = status
        self.shape = shape
        self.text = E.new_str('text')
        self.s_error, self.s_msg, self.s_cause = E.new_str('err'), E.new_str('errmsg'), E.new_str('cause')
        self.r_access, self.r_client = E.new_str('newAccess'), E.new_str('newClient')
        self.r_id, self.r_name = E.new_str('newId'), E.new_str('newName')

    def __bool__(self):
        # requests.Response.__bool__ returns `ok`: an error reply is FALSY, so `if not res` is no None-guard (seeded change C19-r16)
        return bool(self.status_code < 400)

    def json(self):
        s = self.shape
        if s == 'non-json':
            raise ValueError('No JSON object could be decoded')
        if s == 'null':
            return None
        if s == 'number':
            return 5
        if s == 'bool':
            return True
        if s == 'string':
            return 'x'
        if s == 'string-with-keys':
            return 'error errorMessage'
        if s == 'list':
            return []
        if s == 'list-with-keys':
            return ['error', 'errorMessage']
        if s == 'dict-empty':
            return {}
        if s == 'dict-error-only':
            return {'error': self.s_error}
        if s == 'dict-message-only':
            return {'errorMessage': self.s_msg}
        if s == 'dict-error':
            return {'error': self.s_error, 'errorMessage': self.s_msg}
        if s == 'dict-error-cause':
            return {'error': self.s_error, 'errorMessage': self.s_msg, 'cause': self.s_cause}
        if s == 'dict-result':
            return {'accessToken': self.r_access, 'clientToken': self.r_client,
                    'selectedProfile': {'id': self.r_id, 'name': self.r_name}}
        raise AssertionError(s)


class Service(object):
    """Ghost Yggdrasil service behind _make_request: records the request trace, answers with one reply."""

    def __init__(self, I, shapes=SHAPES, statuses=('200', '204', 'other')):
        self.I = I
        self.trace = []
        E = I.E
        self.status_kind = statuses[E.fork(len(statuses), 'status')]
        if self.status_kind == 'other':
            st = E.new_int('status')
            E.assume(And(st >= 100, st <= 599, st != 200, st != 204))
        else:
            st = int(self.status_kind)
        self.status = st
        self.shape = shapes[E.fork(len(shapes), 'shape')]
        self.resp = None

    def make_request(self, I_, server, endpoint, data):
        self.trace.append((server, endpoint, data))
        self.resp = SymResponse(self.I, self.status, self.shape)
        return self.resp


def field(E, name, kinds=('none', 'empty', 'str')):
    k = kinds[E.fork(len(kinds), name)]
    if k == 'none':
        return None
    if k == 'empty':
        return ''
    s = E.new_str(name)
    E.assume(SBool(z3.Length(s.t) > 0))
    return s


def make_token(I, full=False, vary=None):
    """full: every field a non-empty string; vary: {field: kinds} for the fields whose presence matters to the
    operation under test (all presence combinations are covered by the unit C19.authenticated)."""
    E = I.E
    vary = vary or {}
    all3, two = ('none', 'empty', 'str'), ('none', 'str')

    def kinds(name, default):
        if name in vary:
            return vary[name]
        return ('str',) if full else default
    t = I.call(AuthenticationToken, field(E, 'username', kinds('username', all3)), field(E, 'access', kinds('access', all3)),
               field(E, 'client', kinds('client', all3)))
    t.profile.id_ = field(E, 'pid', kinds('pid', all3))          # an empty id / name is present (only None means "not populated")
    t.profile.name = field(E, 'pname', kinds('pname', all3))
    return t


VARY = {
    'authenticate': {'client': ('none', 'empty', 'str')},
    'refresh': {'access': ('none', 'str'), 'client': ('none', 'str')},
    'validate': {'access': ('none', 'str')},
    'invalidate': {},
}


def state(t):
    return (t.username, t.access_token, t.client_token, t.profile, t.profile.id_, t.profile.name)


def same_state(I, a, b):
    ok = True
    for x, y in zip(a, b):
        if x is y:
            continue
        r = I.equals(x, y)
        ok = And(ok, r)
    return ok


def truthy(x):
    if x is None or x == '' and isinstance(x, str):
        return False
    return True


class Authenticated(Unit):
    prop = 'C19'
    name = 'C19.authenticated'
    int_mode = 'int'
    functions = (Q + 'AuthenticationToken.authenticated', Q + 'Profile.__bool__', Q + 'Profile.to_dict',
                 Q + 'AuthenticationToken.__init__', Q + 'Profile.__init__')

    def run(self, I):
        E = I.E
        t = make_token(I)
        r = I.getattr_(t, 'authenticated')
        want = truthy(t.username) and truthy(t.access_token) and truthy(t.client_token) and \
            t.profile.id_ is not None and t.profile.name is not None
        E.check('authenticated.iff', r is want if isinstance(r, bool) else False,
                note='true exactly when username, access token, client token are non-empty and the profile is complete')
        # to_dict
        try:
            d = I.call(I.getattr_(t.profile, 'to_dict'))
            E.check('profile.to_dict', t.profile.id_ is not None and t.profile.name is not None and
                    d == {'id': t.profile.id_, 'name': t.profile.name} if not is_symbolic(d) else False)
        except PyRaise as e:
            E.check('profile.to_dict', isinstance(e.exc, AttributeError) and
                    (t.profile.id_ is None or t.profile.name is None))
        return None

    def replay(self, model, label):
        return replay_join_states()

    def bounded(self, rng, tier):
        fails, cnt = [], 0
        import itertools
        for u, a, c, i, n in itertools.product((None, '', 'u'), (None, '', 'a'), (None, '', 'c'), (None, '', 'i'), (None, '', 'n')):
            cnt += 1
            t = AuthenticationToken(u, a, c)
            t.profile.id_, t.profile.name = i, n
            want = bool(u) and bool(a) and bool(c) and i is not None and n is not None
            if t.authenticated is not want:
                fails.append(dict(call='AuthenticationToken(%r,%r,%r) profile (%r,%r)' % (u, a, c, i, n),
                                  observed='authenticated = %r' % t.authenticated, witness='authenticated'))
                break
        return dict(name='C19.authenticated.all-presence-combinations', evaluations=cnt, failures=fails,
                    bound='3^5 field presence combinations', exhaustive_for_bound=True)


class Operation(Unit):
    prop = 'C19'
    int_mode = 'int'
    trusted = ('requests.post reply object', 'JSON shapes enumeration')
    max_paths = 20000

    def __init__(self, op):
        self.op = op
        self.name = 'C19.%s' % op
        self.functions = (Q + 'AuthenticationToken.' + op, Q + '_raise_from_response')

    def setup(self, I):
        pass

    def run(self, I):
        E = I.E
        op = self.op
        if op == 'join':
            # authenticated, or exactly one of the five ingredients missing / empty
            k = E.fork(11, 'join-state')
            miss = [None, ('username', 'none'), ('username', 'empty'), ('access', 'none'), ('access', 'empty'),
                    ('client', 'none'), ('client', 'empty'), ('pid', 'none'), ('pname', 'none'),
                    ('pid', 'empty'), ('pname', 'empty')][k]        # the last two are authenticated tokens: join must post
            t = make_token(I, full=True, vary={miss[0]: (miss[1],)} if miss else None)
        elif op == 'sign_out':
            t = None
        else:
            t = make_token(I, full=True, vary=VARY[op])
        svc = Service(I)
        I.override(A._make_request, svc.make_request, kind='assumed')
        before = state(t) if t is not None else ()
        u, p = E.new_str('arg_user'), E.new_str('arg_pass')
        sid = E.new_str('server_id')
        inval = None
        try:
            if op == 'authenticate':
                inval = bool(E.fork(2, 'invalidate_previous'))
                r = I.call(I.getattr_(t, 'authenticate'), u, p, inval)
            elif op == 'sign_out':
                r = I.call(AuthenticationToken.sign_out, u, p)
            elif op == 'join':
                r = I.call(I.getattr_(t, 'join'), sid)
            else:
                r = I.call(I.getattr_(t, op))
            outcome = ('ret', r)
        except PyRaise as e:
            outcome = ('raise', e.exc)
        st, shape = svc.status_kind, svc.shape
        sent = len(svc.trace)
        tag = '%s' % op

        # ---- preconditions handled before any request -----------------------------------------
        if op == 'join' and not (truthy(t.username) and truthy(t.access_token) and truthy(t.client_token)
                                 and t.profile.id_ is not None and t.profile.name is not None):
            E.check('join.guard', outcome[0] == 'raise' and isinstance(outcome[1], YggdrasilError) and sent == 0,
                    note='not authenticated: raises without contacting the service')
            E.check('error.frame', same_state(I, before, state(t)))
            return None
        if op == 'refresh' and (t.access_token is None or t.client_token is None) or \
                op == 'validate' and t.access_token is None:
            E.check('%s.precondition' % op, outcome[0] == 'raise' and isinstance(outcome[1], ValueError) and sent == 0)
            return None

        # ---- payload -------------------------------------------------------------------------------
        E.check('payload.one-request', sent == 1)
        if sent != 1:
            return None
        server, endpoint, data = svc.trace[0]
        want_server = A.SESSION_SERVER if op == 'join' else A.AUTH_SERVER
        want_ep = {'sign_out': 'signout'}.get(op, op)
        E.check('payload.endpoint', server == want_server and endpoint == want_ep)
        if op == 'authenticate':
            keys = {'agent', 'username', 'password'} | (set() if inval else {'clientToken'})
            ok = set(data) == keys and data['agent'] == {'name': 'Minecraft', 'version': 1} and \
                data['username'] is u and data['password'] is p
            if not inval and ok:
                ct = data['clientToken']
                ok = (ct is t.client_token or before[2] is ct) if truthy(before[2]) else (isinstance(ct, str) and len(ct) == 32)
            E.check('payload.authenticate', ok)
        elif op in ('refresh', 'invalidate'):
            E.check('payload.%s' % op, set(data) == {'accessToken', 'clientToken'} and data['accessToken'] is before[1]
                    and data['clientToken'] is before[2])
        elif op == 'validate':
            E.check('payload.validate', set(data) == {'accessToken'} and data['accessToken'] is before[1])
        elif op == 'sign_out':
            E.check('payload.signout', set(data) == {'username', 'password'} and data['username'] is u and data['password'] is p)
        elif op == 'join':
            E.check('payload.join', set(data) == {'accessToken', 'selectedProfile', 'serverId'} and
                    data['accessToken'] is before[1] and data['serverId'] is sid and
                    data['selectedProfile'] == {'id': before[4], 'name': before[5]}
                    if not is_symbolic(data.get('selectedProfile')) else False)

        # ---- outcome by reply ----------------------------------------------------------------------
        resp = svc.resp
        success_status = {'authenticate': '200', 'refresh': '200', 'sign_out': '200'}.get(op)
        if op == 'validate':
            E.check('validate.true-iff-204', (outcome == ('ret', True)) == (st == '204') and outcome[0] == 'ret',
                    note='returns True exactly for status 204 and never raises')
            E.check('error.frame', same_state(I, before, state(t)))
            return None
        is_error = st == 'other' or (st == '204' and op in ('authenticate', 'refresh', 'sign_out')) or \
            (st == '200' and False)
        if op in ('invalidate', 'join') and st == '204':
            E.check('%s.success' % op, outcome == ('ret', True))
            E.check('error.frame', same_state(I, before, state(t)))
            return None
        if is_error:
            ok = outcome[0] == 'raise' and isinstance(outcome[1], YggdrasilError)
            E.check('error.mapping.raises', ok, note='status %s, body %s: %r' % (st, shape, outcome[1] if outcome[0] == 'raise' else outcome))
            if ok:
                exc = outcome[1]
                E.check('error.mapping.status', I.equals(exc.status_code, svc.status))
                msg = exc.args[0] if exc.args else None
                if shape in ('dict-error', 'dict-error-cause'):
                    E.check('error.mapping.fields', And(I.equals(exc.yggdrasil_error, resp.s_error),
                                                        I.equals(exc.yggdrasil_message, resp.s_msg),
                                                        I.equals(exc.yggdrasil_cause, resp.s_cause)
                                                        if shape == 'dict-error-cause' else exc.yggdrasil_cause is None))
                else:
                    E.check('error.mapping.malformed',
                            SBool(z3.Contains(msg.t, z3.StringVal('Malformed'))) if isinstance(msg, SStr) else
                            (isinstance(msg, str) and 'Malformed' in msg),
                            note='body %s is not an error object: "Malformed" message' % shape)
            if t is not None:
                E.check('error.frame', same_state(I, before, state(t)), note='no credential field changes on an error reply')
            return None
        # status 200
        if op in ('authenticate', 'refresh') and shape == 'dict-result':
            E.check('%s.success' % op, outcome == ('ret', True))
            E.check('%s.stores' % op, And(I.equals(t.access_token, resp.r_access), I.equals(t.client_token, resp.r_client),
                                           I.equals(t.profile.id_, resp.r_id), I.equals(t.profile.name, resp.r_name),
                                           (t.username is u) if op == 'authenticate' else (t.username is before[0])))
        if op == 'sign_out' and st == '200':
            E.check('sign_out.success', outcome == ('ret', True))
        return None

    def witness_key(self, model, label):
        return None

    def replay(self, model, label):
        if label.startswith('frame.') and self.op in ('authenticate', 'refresh'):
            rp = replay_two_tokens()
            if rp['confirmed']:
                return rp
        return replay_op(self.op, label)

    def bounded(self, rng, tier):
        """Real code against a stub of requests.post (bounded: status x body grid)."""
        fails, cnt = [], 0
        bodies = [None, 'null', '5', 'true', '"x"', '"error errorMessage"', '[]', '["error", "errorMessage"]', '{}',
                  '{"error": "E"}', '{"errorMessage": "M"}', '{"error": "E", "errorMessage": "M"}',
                  '{"error": "E", "errorMessage": "M", "cause": "C"}', 'not json', '']
        # incl. status codes no registry knows (Cloudflare's 520, 599, 299): the error still carries the NUMBER the service sent
        for status in (400, 401, 403, 404, 500, 503, 520, 599, 299):
            for body in bodies:
                cnt += 1
                r = run_with_stub(self.op, status, body) or (run_with_stub(self.op, status, body, None)
                                                              if self.op == 'authenticate' else None)
                if r is not None:
                    fails.append(dict(call='%s with reply %d %r' % (self.op, status, body), observed=r,
                                      witness='%s:%r' % (self.op, body)))
        if self.op == 'join':
            rp = replay_join_states()
            cnt += rp['n']
            if rp['confirmed']:
                fails.insert(0, dict(call=rp['call'], observed=rp['observed'], witness='join-state'))
        if self.op in ('authenticate', 'refresh'):
            rp = replay_two_tokens()
            cnt += rp['n']
            if rp['confirmed']:
                fails.insert(0, dict(call=rp['call'], observed=rp['observed'], witness='two-tokens'))
        return dict(name=self.name + '.stub-grid', evaluations=cnt, failures=fails[:2],
                    bound='9 error statuses (incl. unregistered 520 / 599 / 299) x 15 reply bodies through a stub of requests.post' +
                          ('; join on all 3^5 presence combinations of the token fields' if self.op == 'join' else ''))


def _Resp(status, body):
    """A genuine requests.Response (its truth value, .ok, .text and .json() are the library's own), filled in as the HTTP
    adapter would for a reply with this status and body."""
    r = requests.Response()
    r.status_code = status
    r._content = (body or '').encode('utf-8')
    r.encoding = 'utf-8'
    r.url = 'https://authserver.mojang.com/'
    return r


def run_with_stub(op, status, body, client='client'):
    """Returns a description of the failure, or None."""
    orig = requests.post
    requests.post = lambda *a, **k: _Resp(status, body)
    try:
        t = AuthenticationToken('user', 'access', client)
        t.profile.id_, t.profile.name = 'pid', 'pname'
        before = (t.username, t.access_token, t.client_token, t.profile.id_, t.profile.name)
        try:
            if op == 'authenticate':
                r = t.authenticate('u', 'p')
            elif op == 'sign_out':
                r = AuthenticationToken.sign_out('u', 'p')
            elif op == 'join':
                r = t.join('sid')
            else:
                r = getattr(t, op)()
            out = ('ret', r)
        except Exception as e:
            out = ('raise', e)
        after = (t.username, t.access_token, t.client_token, t.profile.id_, t.profile.name)
        if after != before:
            return 'credentials changed on an error reply: %r' % (after,)
        if op == 'validate':
            return None if out == ('ret', None) else 'validate gave %r' % (out,)
        if out[0] != 'raise' or not isinstance(out[1], YggdrasilError):
            return 'expected YggdrasilError, got %s %r' % out
        if out[1].status_code != status:
            return 'status_code %r' % (out[1].status_code,)
        return None
    finally:
        requests.post = orig


def replay_success(op):
    body = '{"accessToken": "A2", "clientToken": "C2", "selectedProfile": {"id": "I2", "name": "N2"}}'
    orig = requests.post
    requests.post = lambda *a, **k: _Resp(200, body)
    try:
        t = AuthenticationToken('user', 'access', 'client')
        t.profile.id_, t.profile.name = 'pid', 'pname'
        k, r = native_call(t.authenticate, 'u', 'p') if op == 'authenticate' else native_call(t.refresh)
        got = (t.username, t.access_token, t.client_token, t.profile.id_, t.profile.name)
        want = ('u' if op == 'authenticate' else 'user', 'A2', 'C2', 'I2', 'N2')
        bad = k != 'ok' or r is not True or got != want
        return dict(confirmed=bad, call='%s with reply 200 %s' % (op, body), observed='%s %r, token now %r' % (k, r, got))
    finally:
        requests.post = orig


def replay_two_tokens():
    """SEVERAL tokens in one process (two accounts): what one token stores after authenticate / refresh is its own - a later
    success on another token must not change it (seeded change C19-r13: one default Profile() shared by every token)."""
    def reply(n):
        return '{"accessToken": "A%d", "clientToken": "C%d", "selectedProfile": {"id": "I%d", "name": "N%d"}}' % (n, n, n, n)
    orig = requests.post
    state = {'n': 0}

    def post(*a, **k):
        state['n'] += 1
        return _Resp(200, reply(state['n']))
    requests.post = post
    try:
        for ops in (('authenticate', 'authenticate'), ('authenticate', 'refresh'), ('refresh', 'authenticate'), ('refresh', 'refresh')):
            state['n'] = 0
            toks = [AuthenticationToken('user%d' % j, 'access%d' % j, 'client%d' % j) for j in (1, 2)]
            for t, op in zip(toks, ops):
                k, r = native_call(t.authenticate, 'u', 'p') if op == 'authenticate' else native_call(t.refresh)
            got = [(t.access_token, t.client_token, t.profile.id_, t.profile.name) for t in toks]
            want = [('A1', 'C1', 'I1', 'N1'), ('A2', 'C2', 'I2', 'N2')]
            if got != want or toks[0].profile is toks[1].profile:
                return dict(confirmed=True, n=4, call='two tokens in one process: %s on the first, then %s on the second' % ops,
                            observed='the tokens now hold %r, expected %r (profile object shared: %r)'
                                     % (got, want, toks[0].profile is toks[1].profile))
    finally:
        requests.post = orig
    return dict(confirmed=False, n=4, call='two tokens', observed='independent')


def replay_join_states():
    """join() on every presence combination of the five ingredients (None / '' / value): it posts exactly once, with the
    documented payload, exactly when the token reports itself authenticated, and refuses without a request otherwise."""
    import itertools
    n = 0
    for u, a, c, i, nm in itertools.product((None, '', 'user'), (None, '', 'acc'), (None, '', 'cli'), (None, '', 'pid'), (None, '', 'pname')):
        n += 1
        posts = []
        orig = requests.post
        requests.post = lambda *a_, **k_: (posts.append((a_, k_)), _Resp(204, None))[1]
        try:
            t = AuthenticationToken(u, a, c)
            t.profile.id_, t.profile.name = i, nm
            want = bool(u) and bool(a) and bool(c) and i is not None and nm is not None
            k, r = native_call(t.join, 'server-id')
        finally:
            requests.post = orig
        call = 'join() on AuthenticationToken(%r, %r, %r) with profile (%r, %r)' % (u, a, c, i, nm)
        if t.authenticated is not want:
            return dict(confirmed=True, n=n, call=call, observed='authenticated = %r' % (t.authenticated,))
        if want:
            ok = k == 'ok' and r is True and len(posts) == 1
            if ok:
                try:
                    body = json.loads(posts[0][1].get('data'))
                    ok = body == {'accessToken': a, 'selectedProfile': {'id': i, 'name': nm}, 'serverId': 'server-id'}
                except Exception:     # noqa
                    ok = False
            if not ok:
                return dict(confirmed=True, n=n, call=call, observed='the token is authenticated, but join gave %s %r after %d request(s)'
                            % (k, r, len(posts)))
        elif not (k == 'raise' and isinstance(r, YggdrasilError) and not posts):
            return dict(confirmed=True, n=n, call=call, observed='the token is not authenticated, but join gave %s %r after %d request(s)'
                        % (k, r, len(posts)))
    return dict(confirmed=False, n=n, call='join over 243 token states', observed='conforms')


def replay_op(op, label):
    if op in ('authenticate', 'refresh') and ('stores' in label or 'success' in label):
        return replay_success(op)
    if op == 'join':
        rp = replay_join_states()
        if rp['confirmed']:
            return rp
    for status in (403, 500):
        for body in ('null', '5', '"error errorMessage"', '["error", "errorMessage"]', '{}', 'not json',
                     '{"error": "E", "errorMessage": "M"}'):
            for client in ('client', None, ''):
                if client != 'client' and op not in ('authenticate',):
                    continue
                r = run_with_stub(op, status, body, client)
                if r is not None:
                    return dict(confirmed=True, call='%s (client token %r) with reply %d %s' % (op, client, status, body), observed=r)
    return dict(confirmed=False, call='%s over the stub grid' % op, observed='conforms')


class MakeRequest(Unit):
    prop = 'C19'
    name = 'C19.make_request'
    int_mode = 'int'
    functions = (Q + '_make_request',)

    def setup(self, I):
        self.calls = []

        def post(I_, url, **kw):
            self.calls.append((url, kw))
            return 'RESPONSE'
        I.override(requests.post, post, kind='assumed')
        I.override(json.dumps, lambda I_, d, **kw: ('json.dumps', id(d)), kind='assumed')

    def run(self, I):
        E = I.E
        self.calls = []
        data = {'k': E.new_str('v')}
        ep = E.new_str('endpoint')
        r = I.call(A._make_request, A.AUTH_SERVER, ep, data)
        ok = len(self.calls) == 1 and r == 'RESPONSE'
        E.check('request.once', ok)
        if ok:
            url, kw = self.calls[0]
            E.check('request.url', I.equals(url, A.AUTH_SERVER + '/' + ep))
            E.check('request.body', kw.get('data') == ('json.dumps', id(data)))
            E.check('request.headers', kw.get('headers') == {'content-type': 'application/json'})
        return None

    def replay(self, model, label):
        return dict(confirmed=False, call='_make_request', observed='')


def units(tier):
    return [Authenticated()] + [Operation(op) for op in ('authenticate', 'refresh', 'validate', 'invalidate', 'join', 'sign_out')] + \
        [MakeRequest()]
