"""Shared contracts (DESIGN.md §5): S4 version order, helpers for symbolic contexts."""
import ast
import inspect
import textwrap

import z3

import minecraft
from minecraft.networking import connection as conn_mod
from minecraft.networking.connection import ConnectionContext

from pyvc.values import SInt, SBool, mk_bool, And, Or, Unsupported, W
from pyvc.interp import PyRaise


class SymProtocol(object):
    """The protocol number of a context whose chronological index is the symbolic integer `idx`."""

    def __init__(self, idx):
        self.idx = idx

    def __repr__(self):
        return 'SymProtocol(%r)' % (self.idx,)


def index_of(pv):
    """S4: idx(K) for a concrete known protocol number, KeyError otherwise (as the real dict lookup)."""
    try:
        return minecraft.PROTOCOL_VERSION_INDICES[pv]
    except (KeyError, TypeError):
        raise KeyError(pv)


def _ctx_idx(ctx):
    pv = ctx.protocol_version
    if isinstance(pv, SymProtocol):
        return pv.idx
    return index_of(pv)


def install_version_contracts(I):
    """Use the S4 contracts of the five ConnectionContext predicates (proved against their bodies in C08):
         later_eq(K)  <=> idx(K) <= idx(self);  later(K) <=> idx(K) < idx(self)
         earlier(K)   <=> idx(self) < idx(K);   earlier_eq(K) <=> idx(self) <= idx(K)
         in_range(s,e)<=> idx(s) <= idx(self) < idx(e)
    """
    d = ConnectionContext.__dict__
    I.override(d['protocol_later_eq'], lambda I_, self, K: mk2(index_of(K) <= _ctx_idx(self)))
    I.override(d['protocol_later'], lambda I_, self, K: mk2(index_of(K) < _ctx_idx(self)))
    I.override(d['protocol_earlier'], lambda I_, self, K: mk2(_ctx_idx(self) < index_of(K)))
    I.override(d['protocol_earlier_eq'], lambda I_, self, K: mk2(_ctx_idx(self) <= index_of(K)))
    I.override(d['protocol_in_range'],
               lambda I_, self, s, e: And(index_of(s) <= _ctx_idx(self), _ctx_idx(self) < index_of(e)))


def mk2(x):
    return x


def known_count():
    return len(minecraft.KNOWN_PROTOCOL_VERSIONS)


def supported_indices():
    return sorted(minecraft.PROTOCOL_VERSION_INDICES[p] for p in minecraft.SUPPORTED_PROTOCOL_VERSIONS)


def ranges(ints):
    out = []
    for i in ints:
        if out and out[-1][1] == i - 1:
            out[-1][1] = i
        else:
            out.append([i, i])
    return out


def sym_context(I, domain='known', name='i'):
    """A real ConnectionContext whose protocol is symbolic: index i ranges over all known versions
    (domain='known') or over the supported ones (domain='supported')."""
    E = I.E
    i = E.new_int(name, 0, known_count() - 1)
    if domain == 'supported':
        rs = ranges(supported_indices())
        E.assume(Or(*[And(i >= a, i <= b) for a, b in rs]))
    # built by the REAL constructor (whatever private attributes it creates exist), then given the symbolic version
    ctx = ConnectionContext(protocol_version=0)
    ctx.__dict__['protocol_version'] = SymProtocol(i)
    if hasattr(I, 'tracked_frames'):
        I.tracked_frames.append(('context', ctx, dict(vars(ctx))))
    return ctx, i


def protocol_of_index(i):
    return minecraft.KNOWN_PROTOCOL_VERSIONS[int(i)]


def real_context(i):
    return ConnectionContext(protocol_version=protocol_of_index(i))


def raw(cls, name):
    """The plain function behind cls.<name>, wherever in the MRO it is defined (a method may move to a base class)."""
    for k in cls.__mro__:
        if name in k.__dict__:
            a = k.__dict__[name]
            return a.__func__ if isinstance(a, (staticmethod, classmethod)) else a
    raise Unsupported('contract does not fit the code any more: %s has no attribute %r' % (cls.__name__, name))


def loop_keys(func, qual, kind=ast.While):
    """[(qualname, 'while@<line>'), ...] for the loops of a function, from the working tree."""
    lines, start = inspect.getsourcelines(func)
    tree = ast.parse(textwrap.dedent(''.join(lines)))
    tag = {ast.While: 'while', ast.For: 'for', ast.ListComp: 'listcomp'}[kind]
    lines = sorted(n.lineno for n in ast.walk(tree) if isinstance(n, kind))      # source order
    return [(qual, '%s@%d' % (tag, ln + start - 1)) for ln in lines]


def reachable_loops(func, owner=None, kind=ast.While, depth=2):
    """Loop keys of `func` AND of the repository functions it calls directly (methods of `owner` reached through
    self. / cls. / OwnerName., and module-level functions), to a small depth.  A loop contract is attached to the loop
    by its ROLE, so that extracting the loop into a private helper does not orphan the contract."""
    import types as _types
    seen, out = set(), []

    def visit(f, d):
        f = getattr(f, '__func__', f)
        if not isinstance(f, _types.FunctionType) or f in seen or not (f.__module__ or '').startswith('minecraft'):
            return
        seen.add(f)
        qual = f.__module__ + '.' + f.__qualname__
        try:
            out.extend(loop_keys(f, qual, kind))
        except (OSError, TypeError):
            return
        if d <= 0:
            return
        lines, _ = inspect.getsourcelines(f)
        tree = ast.parse(textwrap.dedent(''.join(lines)))
        for n in ast.walk(tree):
            if not isinstance(n, ast.Call):
                continue
            c = n.func
            target = None
            if isinstance(c, ast.Attribute) and isinstance(c.value, ast.Name) and owner is not None and \
                    c.value.id in ('self', 'cls', owner.__name__):
                for k in owner.__mro__:
                    attr = c.attr
                    if attr.startswith('__') and not attr.endswith('__'):
                        attr = '_' + k.__name__.lstrip('_') + attr          # private name mangling
                    if attr in k.__dict__:
                        target = k.__dict__[attr]
                        break
            elif isinstance(c, ast.Name):
                target = f.__globals__.get(c.id)
            if target is not None:
                visit(target, d - 1)
    visit(func, depth)
    return out


def lock_name():
    """The name of the Connection attribute that holds the write lock (found by type on a real instance, so that a
    renamed private attribute does not break the harnesses or the call-site scan)."""
    import threading
    from minecraft.networking.connection import Connection
    rl = type(threading.RLock())
    names = [k for k, v in Connection('localhost', 25565, username='u').__dict__.items() if isinstance(v, rl)]
    return names[0] if len(names) == 1 else '_write_lock'


def harness_connection(**attrs):
    """For SYMBOLIC units: a Connection that did not run its own __init__ (the unit decides what state it is in) but that
    starts with every attribute the real constructor creates, under the names the working tree uses - so that a new or
    renamed private attribute does not make the harness unfit.  The unit then overrides what it models."""
    from minecraft.networking.connection import Connection
    c = object.__new__(Connection)
    c.__dict__.update(Connection('localhost', 25565, username='u').__dict__)
    c.__dict__.update(attrs)
    return c


def native_connection(**attrs):
    """For NATIVE harnesses (replays, bounded parts): a real Connection built by its own constructor - every attribute the
    code may use exists under whatever (private) name the code gives it - with the given attributes then overridden."""
    from minecraft.networking.connection import Connection
    c = Connection('localhost', 25565, username='u')
    c.__dict__.update(attrs)
    return c


def bounded_call(fn, *a, timeout=3.0, **kw):
    """Run fn on a daemon thread and wait at most `timeout` s: clean-up steps and live scenarios of native harnesses must
    never be able to hang the checker when the code under test spins or blocks (that is an OBSERVATION, not a crash).
    Returns ('ok', value) | ('raise', exc) | ('hang', None)."""
    import threading
    box = []

    def run():
        try:
            box.append(('ok', fn(*a, **kw)))
        except BaseException as e:      # noqa
            box.append(('raise', e))
    t = threading.Thread(target=run, daemon=True)
    t.start()
    t.join(timeout)
    return box[0] if box else ('hang', None)


class ByIterable(object):
    """A loop contract attached by ROLE: it applies to whichever for loop iterates over an object accepted by `accepts`;
    any other loop that happens to carry the same key is executed normally."""

    def __init__(self, accepts, spec):
        self.accepts, self.spec = accepts, spec

    def run(self, I, node, frame):
        it = I.eval(node.iter, frame)
        if self.accepts(it):
            return self.spec.run(I, node, frame)
        return I.for_plain(node, frame)


def reachable_loop_nodes(func, owner=None, kind=ast.For, depth=2):
    """Like reachable_loops, but returns (function object, loop node, key) triples."""
    import types as _types
    seen, out = set(), []

    def visit(f, d):
        f = getattr(f, '__func__', f)
        if not isinstance(f, _types.FunctionType) or f in seen or not (f.__module__ or '').startswith('minecraft'):
            return
        seen.add(f)
        try:
            lines, start = inspect.getsourcelines(f)
        except (OSError, TypeError):
            return
        tree = ast.parse(textwrap.dedent(''.join(lines)))
        qual = f.__module__ + '.' + f.__qualname__
        tag = {ast.While: 'while', ast.For: 'for', ast.ListComp: 'listcomp'}[kind]
        for n in sorted((n for n in ast.walk(tree) if isinstance(n, kind)), key=lambda n: n.lineno):
            out.append((f, n, (qual, '%s@%d' % (tag, n.lineno + start - 1))))
        if d <= 0:
            return
        for n in ast.walk(tree):
            if not isinstance(n, ast.Call):
                continue
            c = n.func
            target = None
            if isinstance(c, ast.Attribute) and isinstance(c.value, ast.Name) and owner is not None and \
                    c.value.id in ('self', 'cls', owner.__name__):
                for k in owner.__mro__:
                    attr = c.attr
                    if attr.startswith('__') and not attr.endswith('__'):
                        attr = '_' + k.__name__.lstrip('_') + attr          # private name mangling
                    if attr in k.__dict__:
                        target = k.__dict__[attr]
                        break
            elif isinstance(c, ast.Name):
                target = f.__globals__.get(c.id)
            if target is not None:
                visit(target, d - 1)
    visit(func, depth)
    return out


def unroll_varint(I, read_iters=None, send_iters=None):
    """Declare complete unrolling bounds (with unwinding assertions) for VarInt.read / VarInt.send."""
    from minecraft.networking.types.basic import VarInt
    for k in loop_keys(raw(VarInt, 'read'), 'minecraft.networking.types.basic.VarInt.read'):
        I.unroll[k] = read_iters or 12
    for k in loop_keys(raw(VarInt, 'send'), 'minecraft.networking.types.basic.VarInt.send'):
        I.unroll[k] = send_iters or 12
