"""C11 — in play, keep-alives and teleports are always answered; unknown packets pass.

Under contract: PlayingReactor.react, Connection.write_packet, Connection._pop_packet,
NetworkingThread._run (its three loops by invariant + variant), Connection._handle_exit.
Safety only: never dropped, duplicated or reordered; "always answered" as a liveness statement (that the
loop gets to write) is not decided by this family.
"""
import ast
import sys
import threading
import types
from collections import deque

import z3

import minecraft
from minecraft.networking import connection as conn_mod
from minecraft.networking.connection import Connection, ConnectionContext, PlayingReactor, NetworkingThread
from minecraft.networking.packets import clientbound, serverbound, Packet

from pyvc.driver import Unit
from pyvc.models import AbstractSeq
from pyvc.engine import PathEnd
from pyvc.values import SInt, SBool, SStr, And, Or, Not, Implies, Unsupported
from pyvc.interp import PyRaise
from pyvc.loops import LoopSpec
from pyvc.models import GhostLock
from pyvc.harness import native_call
from .common import harness_connection, native_connection, lock_name, raw, loop_keys, install_version_contracts, sym_context, real_context, protocol_of_index
from .c14 import install_exc_info

ASSUMPTIONS = [
    'collections.deque: append adds at the tail, popleft removes the head (FIFO)',
    'S4 version-order contract for the 107 switch of the teleport reaction',
    'reactor.read_packet returns a packet or None (its own contract: C01); _react dispatch: C13',
    'liveness (that the loop runs again and the queue is eventually written) is not decided',
]
P_ = 'minecraft.networking.connection.PlayingReactor.react'
N_ = 'minecraft.networking.connection.NetworkingThread._run'
I107 = minecraft.PROTOCOL_VERSION_INDICES[107]


class PlaySteps(Unit):
    prop = 'C11'
    name = 'C11.play.steps'
    functions = (P_, 'minecraft.networking.connection.Connection.write_packet')
    uses = ('S4 protocol_later_eq',)

    def setup(self, I):
        install_version_contracts(I)
        unit = self
        I.override(raw(Connection, 'disconnect'), lambda I_, c, immediate=False: unit.events.append(('disconnect', immediate)),
                   kind='contract')

    def run(self, I):
        E = I.E
        self.events = []
        ctx, i = sym_context(I, 'supported')
        conn = harness_connection()
        old = Packet()
        conn.__dict__.update(context=ctx, _outgoing_packet_queue=deque([old]), spawned=False, connected=True,
                             options=types.SimpleNamespace(compression_enabled=False, compression_threshold=-1))
        r = object.__new__(PlayingReactor)
        r.__dict__['connection'] = conn
        kind = ('keep-alive', 'position', 'disconnect', 'compression', 'generic', 'unhandled')[E.fork(6, 'packet')]
        if kind == 'keep-alive':
            pkt = clientbound.play.KeepAlivePacket()
            kid = E.new_int('keep_alive_id')
            pkt.keep_alive_id = kid
        elif kind == 'position':
            pkt = clientbound.play.PlayerPositionAndLookPacket()
            vals = {n: E.new_real(n) for n in ('x', 'y', 'z', 'yaw', 'pitch')}
            for n, v in vals.items():
                setattr(pkt, n, v)
            tid = E.new_int('teleport_id')
            pkt.teleport_id = tid
            pkt.flags = E.new_int('flags', 0, 31)
        elif kind == 'disconnect':
            pkt = clientbound.play.DisconnectPacket()
            pkt.json_data = E.new_str('reason')
        elif kind == 'compression':
            pkt = clientbound.play.SetCompressionPacket()
            thr = E.new_int('threshold')
            pkt.threshold = thr
        elif kind == 'generic':
            pkt = Packet()
            pkt.id = E.new_int('unknown-id', 0, None)
        else:
            pkt = clientbound.play.ChatMessagePacket()
            pkt.json_data = E.new_str('chat')
        before_opts = dict(conn.options.__dict__)
        try:
            I.call(I.getattr_(r, 'react'), pkt)
        except PyRaise as e:
            E.check('react.no-raise', False, note='%s: %r' % (kind, e.exc))
            return None
        q = list(conn._outgoing_packet_queue)
        E.check('react.queue-prefix-kept', q[:1] == [old], note='what was queued before stays, in place')
        new = q[1:]
        if kind == 'keep-alive':
            E.check('keepalive.step', len(new) == 1 and type(new[0]) is serverbound.play.KeepAlivePacket and
                    new[0].keep_alive_id is kid and new[0].context is ctx,
                    note='exactly one KeepAlive with the same id appended at the tail (every integer id)')
            E.check('keepalive.frame', conn.spawned is False and conn.options.__dict__ == before_opts and not self.events)
        elif kind == 'position':
            new_proto = I.truth(i >= I107)
            if new_proto:
                E.check('teleport.step', len(new) == 1 and type(new[0]) is serverbound.play.TeleportConfirmPacket and
                        new[0].teleport_id is tid, note='protocol >= 107: TeleportConfirm with the same id')
            else:
                p = new[0] if new else None
                E.check('teleport.step-legacy', len(new) == 1 and type(p) is serverbound.play.PositionAndLookPacket and
                        p.x is vals['x'] and p.feet_y is vals['y'] and p.z is vals['z'] and p.yaw is vals['yaw'] and
                        p.pitch is vals['pitch'] and p.on_ground is True,
                        note='before 107: an echoing position packet (feet_y = y, on_ground = True)')
            E.check('teleport.spawned', conn.spawned is True)
        elif kind == 'disconnect':
            E.check('disconnect.step', self.events == [('disconnect', False)] and new == [],
                    note='the connection is closed through disconnect() exactly once')
        elif kind == 'compression':
            E.check('compression.step', conn.options.compression_threshold is thr and conn.options.compression_enabled is True
                    and new == [] and not self.events)
        else:
            E.check('other.frame', new == [] and conn.spawned is False and conn.options.__dict__ == before_opts and
                    not self.events, note='%s packet: queue and flags unchanged' % kind)
        return None

    def replay(self, model, label):
        return replay_play()

    def bounded(self, rng, tier):
        rp = replay_play(rng)
        return dict(name='C11.play.histories', evaluations=rp['n'], failures=[dict(call=rp['call'], observed=rp['observed'],
                    witness='play-history')] if rp['confirmed'] else [],
                    bound='seeded server histories (keep-alives at VarInt/Long boundaries, teleports, unknown and unhandled '
                          'packets) on the real reactor for protocols {47, 107, 340, 757}')


def replay_play(rng=None):
    import random
    rng = rng or random.Random(3)
    n = 0
    for proto in (47, 107, 340, 757):
        ctx = ConnectionContext(protocol_version=proto)
        conn = native_connection()
        conn.context, conn._outgoing_packet_queue, conn.spawned = ctx, deque(), False
        conn.options = types.SimpleNamespace(compression_enabled=False, compression_threshold=-1)
        closed = []
        conn.disconnect = lambda immediate=False: closed.append(immediate)
        r = PlayingReactor(conn)
        want = []
        for _ in range(120):
            n += 1
            k = rng.choice(['ka', 'ka', 'pos', 'generic', 'chat'])
            if k == 'ka':
                p = clientbound.play.KeepAlivePacket(ctx)
                p.keep_alive_id = rng.choice([0, 1, 127, 128, 2 ** 31 - 1, -1, -2 ** 63, 2 ** 63 - 1, rng.getrandbits(40)])
                want.append(('keep alive', p.keep_alive_id))
            elif k == 'pos':
                p = clientbound.play.PlayerPositionAndLookPacket(ctx)
                p.x, p.y, p.z, p.yaw, p.pitch, p.flags, p.teleport_id = 1.0, 2.0, 3.0, 4.0, 5.0, 0, rng.getrandbits(20)
                want.append(('teleport confirm', p.teleport_id) if proto >= 107 else ('position and look', (1.0, 2.0, 3.0, 4.0, 5.0, True)))
            elif k == 'generic':
                p = Packet(ctx)
                p.id = rng.randrange(200, 250)
            else:
                p = clientbound.play.ChatMessagePacket(ctx)
                p.json_data = '{}'
            r.react(p)
        got = []
        for p in conn._outgoing_packet_queue:
            if p.packet_name == 'keep alive':
                got.append(('keep alive', p.keep_alive_id))
            elif p.packet_name == 'teleport confirm':
                got.append(('teleport confirm', p.teleport_id))
            else:
                got.append((p.packet_name, (p.x, p.feet_y, p.z, p.yaw, p.pitch, p.on_ground)))
        if got != want:
            return dict(confirmed=True, n=n, call='120-packet server history at protocol %d' % proto,
                        observed='answers queued %r..., expected %r...' % (got[:3], want[:3]))
    return dict(confirmed=False, n=n, call='play histories', observed='conform')


class KeepAliveWire(Unit):
    """End to end over the wire domain: WHATEVER id bytes the server sends in a keep-alive (any VarInt encoding before
    protocol 339, any 8 bytes from 339 on), the real decoder, the real reaction and the real encoder produce an answer that can be
    written and carries the same id.  Same for the teleport id (VarInt) from protocol 107 on."""
    prop = 'C11'
    name = 'C11.keepalive.wire'
    int_mode = 'bv'
    functions = ('minecraft.networking.packets.keep_alive_packet.AbstractKeepAlivePacket.get_definition',
                 P_ + ' [keep alive / teleport id through the real codecs]',
                 'minecraft.networking.types.basic.VarInt.read', 'minecraft.networking.types.basic.VarInt.send',
                 'minecraft.networking.types.basic.Long.read', 'minecraft.networking.types.basic.Long.send')
    uses = ('S4 protocol_later_eq',)

    def setup(self, I):
        install_version_contracts(I)
        from .common import unroll_varint
        from .codec import install_buffer_model
        unroll_varint(I)
        install_buffer_model(I)
        I.override(raw(Connection, 'disconnect'), lambda I_, c, immediate=False: None, kind='contract')

    def run(self, I):
        E = I.E
        from pyvc.models import ArbitraryStream, InStream
        from pyvc.values import SBytes
        from minecraft.networking.packets import PacketBuffer
        ctx, i = sym_context(I, 'supported')
        conn = harness_connection()
        conn.__dict__.update(context=ctx, _outgoing_packet_queue=deque(), spawned=False, connected=True,
                             options=types.SimpleNamespace(compression_enabled=False, compression_threshold=-1))
        r = object.__new__(PlayingReactor)
        r.__dict__['connection'] = conn
        which = E.fork(2, 'packet')
        if which == 0:
            pkt = clientbound.play.KeepAlivePacket()
            field = 'keep_alive_id'
        else:
            pkt = clientbound.play.PlayerPositionAndLookPacket()
            field = 'teleport_id'
        I.setattr_(pkt, 'context', ctx)
        spec_wire = None
        if which == 0:
            # the server's bytes are built from the SPECIFICATION of the packet (spec/protocol_ref.py), not from the
            # library's own definition: a Long from protocol 339 on, a canonical VarInt before
            from spec import protocol_ref as REF, wire_sym as WS
            if I.truth(i >= minecraft.PROTOCOL_VERSION_INDICES[REF.KEEPALIVE_LONG_FROM]):
                spec_wire = SBytes([E.new_byte('id[%d]' % k) for k in range(8)])
            else:
                v = E.new_int('id', 0, (1 << 32) - 1)        # a Java int as its unsigned VarInt image
                k = 1 + E.fork(5, 'varint-length')
                E.assume(SBool(WS.varint_len_cond(v.t, k)))
                spec_wire = SBytes([('byte', t) for t in WS.varint_terms(v.t, k)])
            stream = InStream(I, spec_wire)
            try:
                I.call(I.getattr_(pkt, 'read'), stream)
            except PyRaise as e:
                E.check('wire.keepalive-decodable', False, note='a keep-alive built per the protocol specification is rejected: %r' % (e.exc,))
                return None
            E.check('wire.keepalive-consumed', I.equals(stream.reader.remaining().length(), 0),
                    note='the id field occupies exactly the bytes the specification says (8 from protocol 339, a VarInt before)')
        else:
            # the whole packet as the SPECIFICATION lays it out for this version (spec/protocol_ref.py): 3 doubles, 2 floats,
            # the flags byte, a VarInt teleport id from 107 on, the dismount flag from 755 on -- any content
            from spec import protocol_ref as REF, wire_sym as WS
            items = [E.new_byte('pos[%d]' % k) for k in range(8 * 3 + 4 * 2 + 1)]
            v = None
            if I.truth(i >= minecraft.PROTOCOL_VERSION_INDICES[REF.TELEPORT_ID_FROM]):
                v = E.new_int('id', 0, (1 << 32) - 1)
                k = 1 + E.fork(5, 'varint-length')
                E.assume(SBool(WS.varint_len_cond(v.t, k)))
                spec_wire = SBytes([('byte', t) for t in WS.varint_terms(v.t, k)])
                items += list(spec_wire.atoms)
            if I.truth(i >= minecraft.PROTOCOL_VERSION_INDICES[REF.DISMOUNT_FROM]):
                flag = E.new_byte('dismount')
                E.assume(SBool(z3.ULE(flag[1], z3.BitVecVal(1, 8))))
                items.append(flag)
            stream = InStream(I, SBytes(items))
            try:
                I.call(I.getattr_(pkt, 'read'), stream)
            except PyRaise as e:
                E.check('wire.position-decodable', False, note='a position-and-look packet built per the protocol specification is '
                        'rejected: %r' % (e.exc,))
                return None
            E.check('wire.position-consumed', I.equals(stream.reader.remaining().length(), 0),
                    note='the packet occupies exactly the bytes the specification says for this version (teleport id from 107, '
                         'dismount flag from 755)')
            if v is None:
                return None            # before 107 there is no id to confirm; the echoing answer is PlaySteps' teleport.step-legacy
        got = getattr(pkt, field)
        try:
            I.call(I.getattr_(r, 'react'), pkt)
        except PyRaise as e:
            E.check('wire.react-no-raise', False, note='%r' % (e.exc,))
            return None
        q = list(conn._outgoing_packet_queue)
        E.check('wire.one-answer', len(q) == 1)
        if len(q) != 1:
            return None
        buf = I.call(PacketBuffer)
        try:
            I.call(I.getattr_(q[0], 'write_fields'), buf)
        except PyRaise as e:
            E.check('wire.answer-writable', False, note='the answer to a decodable %s cannot be written: %r' % (field, e.exc))
            return None
        if spec_wire is not None:
            E.check('wire.answer-bytes', SBytes.of(I.call(I.getattr_(buf, 'get_writable'))) == spec_wire,
                    note='the answer carries the id in exactly the bytes it arrived in (same field type per the specification)')
        I.call(I.getattr_(buf, 'reset_cursor'))
        back = type(q[0])()
        I.setattr_(back, 'context', ctx)
        I.call(I.getattr_(back, 'read'), buf)
        E.check('wire.same-id', I.equals(getattr(back, field), got), note='the id on the wire of the answer is the id received')
        return None

    def replay(self, model, label):
        from spec import wire as W, protocol_ref as REF
        i = int(model.get('i', 0))
        if 'position' in label:
            for j in [i] + supported_indices_():
                rp = replay_position_wire(j, int(model.get('id', 0)) if j == i else 300)
                if rp['confirmed']:
                    return rp
            return rp
        if protocol_of_index(i) >= REF.KEEPALIVE_LONG_FROM:
            data = bytes(int(model.get('id[%d]' % k, 0)) & 0xFF for k in range(8))
        else:
            data = W.varint_enc(int(model.get('id', 0)))
        return replay_wire(i, data)

    def bounded(self, rng, tier):
        fails, cnt = [], 0
        from spec import wire as W
        import minecraft as _mc
        edge = [_mc.PROTOCOL_VERSION_INDICES[p] for p in (338, 339, 340) if p in _mc.PROTOCOL_VERSION_INDICES]
        for i in sorted(set(supported_indices_()[::10] + [supported_indices_()[0], supported_indices_()[-1]] +
                            [e for e in edge if e in supported_indices_()])):
            for v in (0, 1, 127, 128, 2 ** 31 - 1, 2 ** 31, 2 ** 32 - 1, 2 ** 35 - 1):
                cnt += 1
                rp = replay_wire(i, W.varint_enc(v) if protocol_of_index(i) < 339 else (v % 2 ** 64).to_bytes(8, 'big'))
                if rp['confirmed']:
                    fails.append(dict(call=rp['call'], observed=rp['observed'], witness='keepalive-wire'))
                    break
        for i in supported_indices_():
            if fails:
                break
            for v in (0, 127, 2 ** 31 - 1):
                cnt += 1
                rp = replay_position_wire(i, v)
                if rp['confirmed']:
                    fails.append(dict(call=rp['call'], observed=rp['observed'], witness='position-wire'))
                    break
        return dict(name='C11.keepalive.wire-values', evaluations=cnt, failures=fails[:1],
                    bound='a tenth of the supported versions x keep-alive ids at the VarInt / Long boundaries, and every supported '
                          'version x 3 teleport ids in a position-and-look packet laid out per the specification, through real codecs')


def supported_indices_():
    from .common import supported_indices
    return supported_indices()


def replay_position_wire(i, tid):
    """A clientbound position-and-look packet laid out per spec/protocol_ref.py for the version at index i, through the real
    decoder and the real reaction."""
    import io
    import struct
    from spec import wire as W, protocol_ref as REF
    from minecraft.networking.packets import PacketBuffer
    idx = minecraft.PROTOCOL_VERSION_INDICES
    ctx = real_context(i)
    data = struct.pack('>dddffb', 1.5, 64.0, -2.25, 90.0, -10.0, 0)
    has_id = i >= idx[REF.TELEPORT_ID_FROM]
    if has_id:
        data += W.varint_enc(tid)
    if i >= idx[REF.DISMOUNT_FROM]:
        data += b'\x01'
    conn = native_connection()
    conn.context, conn._outgoing_packet_queue, conn.spawned = ctx, deque(), False
    r = PlayingReactor(conn)
    pkt = clientbound.play.PlayerPositionAndLookPacket(ctx)
    src = io.BytesIO(data)
    where = 'position-and-look packet %s (laid out per the specification) at protocol %d' % (data.hex(), protocol_of_index(i))
    k, v = native_call(pkt.read, src)
    if k != 'ok':
        return dict(confirmed=True, call=where, observed='rejected: %r' % (v,))
    rest = src.read()
    if rest:
        return dict(confirmed=True, call=where, observed='%d bytes of the packet were left undecoded' % len(rest))
    k, v = native_call(r.react, pkt)
    bad = None
    q = list(conn._outgoing_packet_queue)
    if k != 'ok':
        bad = 'the reaction raised %r' % (v,)
    elif len(q) != 1:
        bad = '%d answers queued' % len(q)
    elif conn.spawned is not True:
        bad = 'the client is not marked as spawned'
    elif has_id and not (type(q[0]) is serverbound.play.TeleportConfirmPacket and q[0].teleport_id == tid):
        bad = 'answer %r does not confirm teleport id %d' % (q[0], tid)
    elif not has_id and not (type(q[0]) is serverbound.play.PositionAndLookPacket and
                             (q[0].x, q[0].feet_y, q[0].z, q[0].yaw, q[0].pitch) == (1.5, 64.0, -2.25, 90.0, -10.0)):
        bad = 'answer %r does not echo the position' % (q[0],)
    return dict(confirmed=bad is not None, call=where, observed=bad or 'conforms')


def replay_wire(i, data):
    import io
    from minecraft.networking.packets import PacketBuffer
    ctx = real_context(i)
    conn = native_connection()
    conn.context, conn._outgoing_packet_queue, conn.spawned = ctx, deque(), False
    r = PlayingReactor(conn)
    pkt = clientbound.play.KeepAlivePacket(ctx)
    src = io.BytesIO(data)
    k, v = native_call(pkt.read, src)
    where = 'keep-alive with id bytes %s (built per the specification) at protocol %d' % (data.hex(), protocol_of_index(i))
    if k != 'ok':
        return dict(confirmed=True, call=where, observed='rejected: %r' % (v,))
    if src.read():
        return dict(confirmed=True, call=where, observed='the id field was decoded from only part of its %d bytes' % len(data))
    r.react(pkt)
    bad = None
    if len(conn._outgoing_packet_queue) != 1:
        bad = 'no answer queued'
    else:
        buf = PacketBuffer()
        k, v = native_call(conn._outgoing_packet_queue[0].write_fields, buf)
        if k != 'ok':
            bad = 'the answer cannot be written: %r' % (v,)
        else:
            buf.reset_cursor()
            back = serverbound.play.KeepAlivePacket(ctx)
            back.read(buf)
            if back.keep_alive_id != pkt.keep_alive_id:
                bad = 'answer carries id %r, received %r' % (back.keep_alive_id, pkt.keep_alive_id)
            elif buf.get_writable() != data:
                bad = 'answer carries the id as bytes %s' % buf.get_writable().hex()
    return dict(confirmed=bad is not None, call='keep-alive with id bytes %s at protocol %d' % (data.hex(), protocol_of_index(i)),
                observed=bad or 'conforms')


# ------------------------------------------------------------------------------------------
class AbsItem(object):
    def __init__(self, idx):
        self.idx = idx


class AbsDeque(AbstractSeq):
    """An outgoing queue of symbolic length; element k (ghost index) is AbsItem(k)."""

    def __init__(self, n):
        self.head = 0
        self.n = n

    def __sym_len__(self):
        return self.n

    def __bool__(self):
        return self.n > 0

    def popleft(self):
        it = AbsItem(self.head)
        self.head = self.head + 1
        self.n = self.n - 1
        return it

    def pop(self):
        it = AbsItem(self.head + self.n - 1)
        self.n = self.n - 1
        return it

    def append(self, x):
        self.n = self.n + 1

    def __getitem__(self, k):
        if isinstance(k, int) and k == 0:
            return AbsItem(self.head)            # peek at the head
        if isinstance(k, int) and k == -1:
            return AbsItem(self.head + self.n - 1)
        from pyvc.values import Unsupported
        raise Unsupported('indexing AbsDeque at %r outside a loop contract' % (k,))

    def appendleft(self, x):
        # (ghost indices go down: the element put back in front is the one last taken from the head)
        self.head = self.head - 1
        self.n = self.n + 1


class PopPacket(Unit):
    prop = 'C11'
    name = 'C11.fifo.pop'
    int_mode = 'int'
    functions = ('minecraft.networking.connection.Connection._pop_packet',)

    def run(self, I):
        E = I.E
        n = E.new_int('queue-length', 0, None)
        q = AbsDeque(n)
        conn = harness_connection()
        conn.__dict__['_outgoing_packet_queue'] = q
        written = []
        # fault at one point: the write of the popped packet fails (OSError from the socket).  The error is let out and the
        # packet is NOT put back: it has been offered to the wire - its outgoing listeners have run, part of its frame may be
        # on the wire - and a second offer would run them and send it again (seeded change C13-r10: re-queued at the head,
        # flushed once more by disconnect())
        fails = bool(E.fork(2, 'write-fails'))
        boom = OSError(113, 'No route to host')

        # re-entrancy: an outgoing listener of the packet being written may call disconnect(), whose flush calls _pop_packet
        # again (same thread, re-entrant lock) - the nested call must get the NEXT packet, never the one being written
        # (seeded change C12-r12: peek, write, then popleft)
        reenters = bool(E.fork(2, 'listener-reenters-flush')) and not fails
        depth = []

        def wp(I_, c, p):
            written.append(p)
            if reenters and not depth:
                depth.append(1)
                I_.call(raw(Connection, '_pop_packet'), c)
            if fails:
                raise PyRaise(boom)
        I.override(raw(Connection, '_write_packet'), wp, kind='contract')
        try:
            r = I.call(raw(Connection, '_pop_packet'), conn)
        except PyRaise as e:
            if fails and e.exc is boom:
                E.check('pop.failed-write-not-requeued', And(q.head == 1, q.n == n - 1, len(written) == 1),
                        note='after a failed write the packet is gone from the queue (at most one offer to the wire per packet)')
                return None
            E.check('pop.no-raise', False, note='%r' % (e.exc,))
            return None
        if fails and not I.truth(n == 0):
            E.check('pop.write-error-propagates', False, note='_write_packet raised OSError but _pop_packet returned %r' % (r,))
            return None
        if reenters:
            if len(written) >= 2:
                E.check('pop.reentrant-no-duplicate', Not(written[0].idx == written[1].idx) if not isinstance(written[0].idx == written[1].idx, bool)
                        else written[0].idx != written[1].idx,
                        note='a flush started by an outgoing listener of packet k was handed packet k again: it goes to the wire twice')
            return None
        if I.truth(n == 0):
            E.check('pop.empty', r is False and written == [] and q.head == 0)
        else:
            E.check('pop.oldest', r is True and len(written) == 1 and isinstance(written[0], AbsItem) and
                    And(written[0].idx == 0, q.head == 1, q.n == n - 1),
                    note='writes the OLDEST queued packet and removes exactly it')
        return None

    def replay(self, model, label):
        conn = native_connection()
        conn._outgoing_packet_queue = deque(['a', 'b', 'c'])
        w = []
        conn._write_packet = w.append
        r = [conn._pop_packet() for _ in range(4)]
        bad = w != ['a', 'b', 'c'] or r != [True, True, True, False]
        if not bad:
            conn = native_connection()
            conn._outgoing_packet_queue = deque(['a', 'b'])
            offered = []

            def failing(p):
                offered.append(p)
                if len(offered) == 1:
                    raise OSError(32, 'Broken pipe')
            conn._write_packet = failing
            from pyvc.harness import native_call
            k1, v1 = native_call(conn._pop_packet)
            k2, v2 = native_call(conn._pop_packet)
            if k1 != 'raise' or offered != ['a', 'b'] or list(conn._outgoing_packet_queue):
                return dict(confirmed=True, call='_pop_packet twice on queue [a, b]; the first write raises EPIPE',
                            observed='first call: %s %r; packets offered to _write_packet: %r (each packet must be offered once)'
                                     % (k1, v1, offered))
        if not bad:
            # an outgoing listener of 'a' calls disconnect(): the nested flush writes b and c, never 'a' again
            conn = native_connection()
            conn._outgoing_packet_queue = deque(['a', 'b', 'c'])
            offered = []

            def reentrant(p):
                offered.append(p)
                if p == 'a':
                    while conn._pop_packet():
                        pass
            conn._write_packet = reentrant
            from pyvc.harness import native_call
            k1, v1 = native_call(conn._pop_packet)
            if offered != ['a', 'b', 'c'] or k1 != 'ok':
                return dict(confirmed=True, call='_pop_packet on queue [a, b, c] where writing a re-enters the flush (an outgoing listener calls disconnect())',
                            observed='%s %r; packets offered to _write_packet: %r (each exactly once, in order)' % (k1, v1, offered))
        return dict(confirmed=bad, call='_pop_packet x4 on queue [a, b, c]', observed='wrote %r, returned %r' % (w, r))


class RunLoop(Unit):
    """One arbitrary outer iteration of NetworkingThread._run: write batch under the lock in FIFO order (<= 300), then read
    batch: every packet returned by read_packet is handed to _react exactly once before the next read (<= 50 in total)."""
    prop = 'C11'
    name = 'C11.run-loop'
    int_mode = 'int'
    functions = (N_,)
    max_paths = 20000

    def setup(self, I):
        install_exc_info(I)
        k_outer, k_write, k_read = self.loops_by_role()
        unit = self

        # outer loop: one arbitrary iteration from an arbitrary state
        I.loop_specs[k_outer] = LoopSpec('outer', lambda I_, fr: True, lambda I_, fr: unit.havoc_outer(I_), None)

        def w_inv(I_, fr):
            G = unit.G
            base = And(G['written'] >= 0, unit.queue.head == G['written'])
            if '$counter' in fr.locals and k_write[1].startswith('for@'):
                # written as `for _ in range(LIMIT)`: the position in the range is the number of packets written
                return And(base, G['written'] == fr.locals['$counter'] - fr.locals['$start'])
            if RunLoop.write_test_limits:
                # written as `while count < LIMIT: if ...: break; count += 1`: the limit is re-tested at every head
                return And(base, fr.locals['num_packets'] == G['written'], G['written'] <= 300)
            # written as `while ... : count += 1; if count >= LIMIT: break`: the loop's own counter carries the limit
            return And(base, fr.locals['num_packets'] == G['written'], G['written'] < 300)

        def w_havoc(I_, fr):
            E = I_.E
            k = E.new_int('written@head', 0, None)
            unit.G['written'] = k
            fr.locals['num_packets'] = k
            unit.queue.n = unit.n0 - k
            unit.queue.head = k
            # packets may have been queued meanwhile and a reaction may have interrupted the thread
            unit.thread.__dict__['interrupt'] = bool(E.fork(2, 'interrupted@write-head'))
        I.loop_specs[k_write] = LoopSpec('write-batch', w_inv, w_havoc, lambda I_, fr: 301 - fr.locals['num_packets'])

        def r_inv(I_, fr):
            G = unit.G
            return And(G['reads'] == G['reacts'], fr.locals['num_packets'] >= 0)

        def r_havoc(I_, fr):
            E = I_.E
            r = E.new_int('reads@head', 0, None)
            unit.G['reads'] = r
            unit.G['reacts'] = r
            fr.locals['num_packets'] = E.new_int('num@head', 0, None)
            if E.fork(2, 'after-first-read'):
                fr.locals['read_timeout'] = 0            # otherwise: the value computed before the loop
                if E.fork(2, 'transport-swapped@read-head'):
                    unit.swap_transport()                # an earlier reaction of this batch replaced reactor and file object
            unit.thread.__dict__['interrupt'] = bool(E.fork(2, 'interrupted@read-head'))
            if unit.G['pending'] is not None and E.fork(2, 'pending-cleared'):
                fr.locals['exc_info'] = None
                unit.G['pending-cleared'] = True
        r_havoc.keeps = ('read_timeout', 'exc_info')     # both are havocked by case split above (kept / reset)
        I.loop_specs[k_read] = LoopSpec('read-batch', r_inv, r_havoc, lambda I_, fr: 50 - fr.locals['num_packets'])

    @staticmethod
    def loops_by_role():
        """(outer, write batch, read batch) loop keys of _run, found by what the loops DO (which one contains the others,
        which one pops from the queue, which one reads packets) - `while` and `for ... in range(...)` forms alike."""
        from .common import reachable_loop_nodes
        found = []
        for kind in (ast.While, ast.For):
            found += reachable_loop_nodes(raw(NetworkingThread, '_run'), NetworkingThread, kind=kind, depth=1)
        loops = [n for _f, n, _k in found]
        keyof = {id(n): k for _f, n, k in found}
        in_run = {id(n) for f, n, _k in found if f is raw(NetworkingThread, '_run')}

        def key(n):
            return keyof[id(n)]

        def mentions(n, name):
            return any(isinstance(x, ast.Attribute) and x.attr == name for x in ast.walk(n))

        def inner(n):
            return [m for m in ast.walk(n) if m is not n and isinstance(m, (ast.While, ast.For))]
        write = [n for n in loops if not inner(n) and mentions(n, '_pop_packet')]
        read = [n for n in loops if not inner(n) and mentions(n, 'read_packet')]
        # the outer loop: the loop of _run itself that is neither of the two batches (it contains them or calls them)
        outer = [n for n in loops if id(n) in in_run and n not in write and n not in read]
        if len(loops) != 3 or len(outer) != 1 or len(write) != 1 or len(read) != 1:
            raise Unsupported('contract does not fit the code any more: _run is not "a loop around a write batch and a read batch" '
                              '(%d loops found)' % len(loops))
        # does the write loop's own test carry the batch limit (while count < LIMIT) or does the body break at the limit?
        RunLoop.write_test_limits = isinstance(write[0], ast.While) and \
            any(isinstance(x, ast.Compare) for x in ast.walk(write[0].test))
        return key(outer[0]), key(write[0]), key(read[0])

    def havoc_outer(self, I):
        self.thread.__dict__['interrupt'] = False if True else None

    def run(self, I):
        E = I.E
        unit = self
        self.G = dict(written=0, reads=0, reacts=0, pending=None, order_ok=True)
        self.n0 = E.new_int('queue-length', 0, None)
        self.queue = AbsDeque(self.n0)
        lock = GhostLock()
        conn = harness_connection()      # real class: private helpers of the loop resolve; effects are ghost closures
        fail_at = E.fork(2, 'write-fails')
        ioerr = IOError('broken pipe')
        timeouts = []

        def _pop_packet():
            G = unit.G
            E.check('write.under-lock', lock.depth >= 1, note='_pop_packet is only called with the write lock held')
            if not I.truth(unit.queue.n > 0):
                return False
            E.check('write.batch-limit', G['written'] < 300, note='never a 301st write in one batch (the thread turns to reading)')
            it = unit.queue.popleft()
            E.check('write.fifo', it.idx == G['written'], note='packets leave in the order they were queued')
            G['written'] = G['written'] + 1
            if fail_at and E.fork(2, 'this-write-fails'):
                G['pending'] = ioerr
                raise ioerr
            return True

        def swap_transport():
            # what LoginReactor.react does on an encryption request / login success: new file object, new reactor
            unit.generation = getattr(unit, 'generation', 0) + 1
            conn.file_object = 'FILE#%d' % unit.generation
            conn.reactor = mk_reactor(unit.generation)
        unit.swap_transport = swap_transport

        def mk_reactor(tag):
            return types.SimpleNamespace(tag=tag, read_packet=lambda stream, timeout=0: read_packet(stream, timeout, tag))

        def read_packet(stream, timeout=0, tag=0):
            G = unit.G
            E.check('read.current-transport', stream is conn.file_object and tag == conn.reactor.tag,
                    note='every read goes through the connection\'s CURRENT reactor and file object (a reaction may have '
                         'replaced them: encryption swap, login success)')
            E.check('read.after-react', G['reads'] == G['reacts'],
                    note='the previous packet has been reacted to before the next read')
            E.check('read.outside-lock', lock.depth == 0, note='reading happens without the write lock')
            timeouts.append(timeout)
            k = E.fork(4, 'read')
            if k == 0:
                return None
            if k == 3:
                # the reader fails (end of stream, malformed frame, socket error): nothing in _run may swallow that
                G['raised'] = EOFError('Unexpected end of stream (model)')
                raise G['raised']
            G['reads'] = G['reads'] + 1
            return types.SimpleNamespace(packet_name='disconnect' if k == 2 else 'other', seq=G['reads'])

        def _react(packet):
            G = unit.G
            E.check('react.exactly-once-in-order', packet.seq == G['reacts'] + 1 if not isinstance(packet.seq, int) or
                    not isinstance(G['reacts'], int) else packet.seq == G['reacts'] + 1)
            G['reacts'] = G['reacts'] + 1
            if packet.packet_name == 'other' and E.fork(2, 'reaction-raises'):
                G['raised'] = ValueError('listener failed (model)')
                raise G['raised']
            if packet.packet_name == 'disconnect':
                unit.thread.__dict__['interrupt'] = True       # PlayingReactor.react -> Connection.disconnect()
            elif E.fork(2, 'reaction-swaps-transport'):
                swap_transport()
        setattr(conn, lock_name(), lock)
        conn._pop_packet = _pop_packet
        conn._outgoing_packet_queue = self.queue
        unit.generation = 0
        conn.reactor = mk_reactor(0)
        conn.file_object = 'FILE#0'
        conn._react = _react
        t = object.__new__(NetworkingThread)
        t.__dict__.update(connection=conn, interrupt=False)
        self.thread = t
        try:
            I.call(raw(NetworkingThread, '_run'), t)
            outcome = 'returned'
        except PyRaise as e:
            outcome = e.exc
        G = self.G
        E.check('run.lock-released', lock.depth == 0)
        if outcome == 'returned':
            # the outer loop's exit branch: only reached when interrupt is set
            E.check('run.returns-only-when-interrupted', t.interrupt is True)
        elif G.get('raised') is not None:
            E.check('run.propagates-read-and-react-errors', outcome is G['raised'],
                    note='an exception of read_packet / _react leaves _run unchanged (it is routed by run(): C14/C15); got %r' % (outcome,))
        else:
            E.check('run.raises-only-pending-write-error', outcome is ioerr and G['pending'] is ioerr,
                    note='the only exception _run itself raises is a pending write error (%r)' % (outcome,))
        if G.get('raised') is not None:
            E.check('run.error-not-swallowed', outcome is G['raised'],
                    note='read_packet / _react raised %r but _run ended with %r' % (G['raised'], outcome))
        else:
            E.check('run.reads-equal-reacts', G['reads'] == G['reacts'])
        return None

    def replay(self, model, label):
        return replay_run()

    def bounded(self, rng, tier):
        rp = replay_run()
        return dict(name='C11.run.batches', evaluations=rp['n'], failures=[dict(call=rp['call'], observed=rp['observed'],
                    witness='run-loop')] if rp['confirmed'] else [],
                    bound='real _run with 700 queued packets and 120 incoming ones (crossing the 300/50 batch limits)')


def replay_run():
    """The real _run against a scripted connection: order and exactly-once across the batch limits."""
    conn = native_connection()          # a real Connection: helpers the loop may call exist; I/O is scripted
    setattr(conn, lock_name(), threading.RLock())
    q = deque(range(700))
    written, reacted = [], []
    incoming = deque('p%d' % i for i in range(120))
    t = NetworkingThread(conn)

    def _pop_packet():
        if not q:
            return False
        written.append(q.popleft())
        return True

    stale = []

    def read_packet(stream, timeout=0):
        if stream is not conn.file_object:
            stale.append(len(reacted))
        if not incoming:
            if not q:
                t.interrupt = True
            return None
        return types.SimpleNamespace(packet_name='other', v=incoming.popleft())

    def _react(p):
        reacted.append(p.v)
        if len(reacted) in (3, 77):                 # as the login reactor does after an encryption request
            conn.file_object = object()
            conn.reactor = types.SimpleNamespace(read_packet=read_packet)
    conn._pop_packet = _pop_packet
    conn._outgoing_packet_queue = q
    conn.reactor = types.SimpleNamespace(read_packet=read_packet)
    conn.file_object = object()
    conn._react = _react
    k, v = native_call(t._run, timeout=10)
    bad = None
    if stale:
        bad = 'after a reaction replaced connection.file_object (packet %d), the next read still used the old file object' % stale[0]
    elif k != 'ok':
        bad = '%s %r' % (k, v)
    elif written != list(range(700)):
        bad = 'written order broken (first difference at %d)' % next(i for i, (a, b) in enumerate(zip(written, range(700))) if a != b)
    elif reacted != ['p%d' % i for i in range(120)]:
        bad = 'reactions %r...' % (reacted[:5],)
    if bad is None:
        # the reader fails: _run must end with that very exception (it is run() that routes it)
        for exc in (EOFError('Unexpected end of stream.'), ValueError('bad frame'), OSError(104, 'Connection reset by peer'),
                    OSError(113, 'No route to host')):
            conn2 = native_connection()
            setattr(conn2, lock_name(), threading.RLock())
            conn2._outgoing_packet_queue = deque()
            conn2._pop_packet = lambda: False
            calls = []

            def failing(stream, timeout=0, exc=exc):
                calls.append(1)
                if len(calls) > 3:
                    t2.interrupt = True           # give a spinning loop a way out so that the replay terminates
                    return None
                raise exc
            conn2.reactor = types.SimpleNamespace(read_packet=failing)
            conn2.file_object = object()
            conn2._react = lambda p: None
            t2 = NetworkingThread(conn2)
            k, v = native_call(t2._run, timeout=10)
            if k != 'raise' or v is not exc:
                bad = 'read_packet raised %r but _run %s (%d read attempts)' % (
                    exc, 'returned' if k == 'ok' else 'ended with %r' % (v,), len(calls))
                return dict(confirmed=True, n=823, call='_run with a reader that fails', observed=bad)
    return dict(confirmed=bad is not None, n=823, call='_run with 700 outgoing / 120 incoming packets', observed=bad or 'conforms')


class HandleExit(Unit):
    prop = 'C11'
    name = 'C11.handle-exit'
    int_mode = 'int'
    functions = ('minecraft.networking.connection.Connection._handle_exit',)

    def run(self, I):
        E = I.E
        calls = []
        connected = bool(E.fork(2, 'connected'))
        has_cb = bool(E.fork(2, 'callback'))
        conn = harness_connection()
        conn.__dict__.update(connected=connected, handle_exit=(lambda: calls.append(1)) if has_cb else None)
        I.call(raw(Connection, '_handle_exit'), conn)
        E.check('exit.callback-exactly-once-iff', len(calls) == (1 if (not connected and has_cb) else 0),
                note='the exit callback runs exactly once when the connection has been closed and a callback is set')
        return None

    def replay(self, model, label):
        return dict(confirmed=False, call='_handle_exit', observed='')


def _own_units(tier):
    from . import c01
    fr = c01.ReadFrame()
    # "with compression on and off": the packets reach the reactor only if the reader accepts the frames of ANY conforming
    # peer (a vanilla server compresses from size >= threshold) - the same frame contract as C01/C10, claimed here too
    fr.prop, fr.name = 'C11', 'C11.frames.any-conforming-peer'
    from . import c13
    tr = c13.PacketTruthiness()
    # the read loop takes a false value for "nothing read": every packet object (keep-alives included) must be true
    tr.prop, tr.name = 'C11', 'C11.packets-are-true'
    return [PlaySteps(), KeepAliveWire(), PopPacket(), RunLoop(), HandleExit(), fr, tr]


def units(tier):
    from .deps import dependency_units
    return _own_units(tier) + dependency_units('C11')
