"""C02 — primitive wire types encode and decode exactly as the protocol prescribes.

Functions under contract: read/send of every type in minecraft/networking/types/basic.py
(Boolean .. Double, FixedPoint, Angle, *ByteArray, String, UUID, PrefixedArray) and the
context dispatch Type.read_with_context / send_with_context.
"""
import io
import struct
import uuid as uuid_mod
from fractions import Fraction

import z3

from minecraft.networking.types import basic as B
from minecraft.networking.types.basic import (Type, Boolean, UnsignedByte, Byte, Short, UnsignedShort, Integer, Long,
                                               UnsignedLong, Float, Double, FixedPoint, Angle, VarInt, VarLong,
                                               ShortPrefixedByteArray, VarIntPrefixedByteArray, TrailingByteArray,
                                               String, UUID, PrefixedArray)
from minecraft.networking.connection import ConnectionContext

import json
import os
from pyvc.driver import Unit, REPO
from pyvc.values import (SInt, SBool, SReal, SStr, SBytes, Blob, W, mk_bool, And, Or, Not, Implies, Unsupported,
                         to_real, ite)
from pyvc.models import OutSocket, InStream, ArbitraryStream, slice_blob
from pyvc.interp import PyRaise
from pyvc.harness import native_call, Sink, CountingStream
from pyvc.engine import EngineError
from pyvc.builtins_model import pack_f32, pack_f64, unpack_f32, unpack_f64
from spec import wire, wire_sym as ws
from .common import raw, unroll_varint
from .codec import install_scalar_contracts, SCALARS, dom

ASSUMPTIONS = [
    'struct.pack/unpack for ? B b H h i q Q f d Ns with ">" : big-endian two\'s complement / IEEE-754 bytes of exactly '
    'calcsize length; pack raises struct.error out of range; unpack raises on a wrong length (assumed; sampled '
    'against spec/wire.py in the bounded part)',
    'IEEE-754: unpack_f64(pack_f64(r)) = r for every double r; floats are modelled as reals in FixedPoint/Angle '
    '(machine arithmetic treated as mathematical) - bounded IEEE stand-in alongside',
    'str.encode("utf-8") / bytes.decode("utf-8") are an inverse pair; decode of a proper piece of an encoding either '
    'raises UnicodeDecodeError or returns some string',
    'uuid.UUID(str).bytes / str(uuid.UUID(bytes=b)) are an inverse pair on canonical UUID strings; UUID(bytes=b) raises '
    'ValueError unless len(b) == 16',
    'PrefixedArray: byte-level units for fixed lengths 0..3 with concrete element types; for ANY length (symbolic n) the '
    'structure - length first, then n elements in order, once each - is proved with abstract length/element types',
]
T_ = 'minecraft.networking.types.basic.'


# ------------------------------------------------------------------------------------------
# integer scalars and Boolean
# ------------------------------------------------------------------------------------------
class IntScalar(Unit):
    prop = 'C02'
    trusted = ('struct.pack/unpack',)

    def __init__(self, T):
        self.T = T
        self.tname = T.__name__
        self.n, self.kind = SCALARS[self.tname]
        self.name = 'C02.%s' % self.tname
        self.functions = (T_ + self.tname + '.send', T_ + self.tname + '.read')

    def run(self, I):
        E = I.E
        T, n = self.T, self.n
        if self.kind == 'bool':
            v = E.new_bool('v')
            vt = z3.If(v.t, z3.BitVecVal(1, W), z3.BitVecVal(0, W))
        else:
            lo, hi = dom(self.tname)
            v = E.new_int('v', lo, hi)
            vt = v.t
        self.v = v
        sock = OutSocket()
        try:
            I.call(raw(T, 'send'), v, sock)
        except PyRaise as e:
            E.check('send.no-raise', False, note='raised %r for an in-domain value' % (e.exc,))
            return ('raise',)
        ts = sock.out.byte_terms()
        E.check('send.size', ts is not None and len(ts) == n)
        if ts is None or len(ts) != n:
            return ('out', sock.out)
        E.check('send.bytes', SBool(ws.eq_bytes(ts, ws.be_terms(vt, n))),
                note='big-endian two\'s complement, %d bytes' % n)
        if n > 1:
            E.must_fail('send.bytes-little-endian', SBool(ws.eq_bytes(ts, ws.be_terms(vt, n)[::-1])))
        st = InStream(I, sock.out)
        try:
            r = I.call(raw(T, 'read'), st)
        except PyRaise as e:
            E.check('read.inverse', False, note='decoder raised %r' % (e.exc,))
            return ('out', sock.out)
        E.check('read.inverse', r == v)
        E.check('read.consumed', st.remaining().length() == 0)
        return ('out', sock.out)

    def on_path(self, I, rec):
        m = I.E.model()
        if m is None or rec['outcome'][0] != 'out':
            return
        v = m.value(self.v)
        s = Sink()
        kind, _ = native_call(self.T.send, v, s)
        self.conformance_count += 1
        if kind != 'ok' or s.data != m.value(rec['outcome'][1]):
            raise EngineError('conformance: %s.send(%r) native %r vs symbolic %r'
                              % (self.tname, v, s.data, m.value(rec['outcome'][1])))

    def replay(self, model, label):
        v = model.get('v', 0)
        return replay_scalar(self.T, v)

    def bounded(self, rng, tier):
        fails, cnt = [], 0
        if self.kind == 'bool':
            vals = [True, False]
        else:
            lo, hi = dom(self.tname)
            if self.n <= 2:
                vals = range(lo, hi + 1)
            else:
                vals = sorted({lo, lo + 1, -1, 0, 1, hi - 1, hi, 0x7F, 0x80, 0xFF, 0x100, 0x7FFF, 0x8000} |
                              {rng.randint(lo, hi) for _ in range(500)})
                vals = [x for x in vals if lo <= x <= hi]
        for v in vals:
            cnt += 1
            rp = replay_scalar(self.T, v)
            if rp['confirmed']:
                fails.append(dict(call=rp['call'], observed=rp['observed'], witness='%s:%r' % (self.tname, v)))
                break
        return dict(name=self.name + '.values', evaluations=cnt, failures=fails,
                    bound='exhaustive' if self.n <= 2 else 'boundaries + 500 seeded random',
                    exhaustive_for_bound=self.n <= 2)


def replay_scalar(T, v):
    tname = T.__name__
    n, kind = SCALARS[tname]
    s = Sink()
    k, val = native_call(T.send, v, s)
    if kind == 'bool':
        want = b'\x01' if v else b'\x00'
    else:
        want = wire.be(int(v), n, kind)
    bad = None
    if k != 'ok':
        bad = '%s %r' % (k, val)
    elif s.data != want:
        bad = 'sent %s, protocol prescribes %s' % (s.data.hex(), want.hex())
    else:
        st = CountingStream(s.data)
        k2, r = native_call(T.read, st)
        if k2 != 'ok' or r != v or st.tell() != n:
            bad = 'decoded back as %s %r (consumed %d)' % (k2, r, st.tell())
        else:
            for cut in range(n):
                k3, r3 = native_call(T.read, io.BytesIO(want[:cut]))
                if k3 != 'raise':
                    bad = 'decoding the %d-byte prefix returned %r' % (cut, r3)
    return dict(confirmed=bad is not None, call='%s.send(%r)' % (tname, v), observed=bad or 'conforms')


class ScalarPrefix(Unit):
    """read.prefix: on fewer than |T| bytes followed by end of stream every fixed-width type raises."""
    prop = 'C02'
    trusted = ('struct.unpack length check', 'S1 stream read')

    def __init__(self, T):
        self.T = T
        self.tname = T.__name__
        self.n = SCALARS[self.tname][0]
        self.name = 'C02.%s.prefix' % self.tname
        self.functions = (T_ + self.tname + '.read [truncated input]',)

    def run(self, I):
        E = I.E
        s = ArbitraryStream(I, 's')
        E.assume(s.total < self.n)
        try:
            r = I.call(raw(self.T, 'read'), s)
        except PyRaise as e:
            E.check('read.prefix-raises', True)
            return 'raised'
        E.check('read.prefix-raises', False, note='returned %r from a truncated encoding' % (r,))
        return 'returned'

    def replay(self, model, label):
        total = int(model.get('s.total', 0))
        data = bytes(int(model.get('s[%d]' % i, 0)) & 0xFF for i in range(total))
        k, r = native_call(self.T.read, io.BytesIO(data))
        return dict(confirmed=k != 'raise', call='%s.read(BytesIO(%r))' % (self.tname, data),
                    observed='%s %r' % (k, r))


class FloatScalar(Unit):
    prop = 'C02'
    trusted = ('struct.pack/unpack f/d = IEEE-754 (opaque pack/unpack functions)',)

    def __init__(self, T):
        self.T = T
        self.tname = T.__name__
        self.n = SCALARS[self.tname][0]
        self.name = 'C02.%s' % self.tname
        self.functions = (T_ + self.tname + '.send', T_ + self.tname + '.read')

    def run(self, I):
        E = I.E
        n = self.n
        v = E.new_real('v')
        pack, unpack = (pack_f32, unpack_f32) if n == 4 else (pack_f64, unpack_f64)
        sock = OutSocket()
        try:
            I.call(raw(self.T, 'send'), v, sock)
        except PyRaise as e:
            E.check('send.no-raise', False, note='raised %r' % (e.exc,))
            return None
        ts = sock.out.byte_terms()
        E.check('send.size', ts is not None and len(ts) == n)
        bits = pack(v.t)
        want = [z3.Extract(8 * (n - i) - 1, 8 * (n - i - 1), bits) for i in range(n)]
        E.check('send.bytes', SBool(ws.eq_bytes(ts, want)), note='IEEE-754 binary%d, big-endian' % (8 * n))
        E.must_fail('send.bytes-little-endian', SBool(ws.eq_bytes(ts, want[::-1])))
        st = InStream(I, sock.out)
        try:
            r = I.call(raw(self.T, 'read'), st)
        except PyRaise as e:
            E.check('read.inverse', False, note='decoder raised %r' % (e.exc,))
            return None
        E.check('read.inverse', SBool(r.t == unpack(pack(v.t))) if isinstance(r, SReal) else False,
                note='read(enc(v)) = unpack(pack(v)) (= v for representable v, assumed IEEE)')
        E.check('read.consumed', st.remaining().length() == 0)
        return None

    def replay(self, model, label):
        return replay_float(self.T, 1.5)

    def bounded(self, rng, tier):
        fails, cnt = [], 0
        vals = [0.0, -0.0, 1.0, -1.0, 1.5, 0.1, 1e-45, 3.4028234663852886e38, -3.4028234663852886e38, 1e-310,
                float('inf'), float('-inf')] + [rng.uniform(-1e6, 1e6) for _ in range(300)]
        for v in vals:
            cnt += 1
            rp = replay_float(self.T, v)
            if rp['confirmed']:
                fails.append(dict(call=rp['call'], observed=rp['observed'], witness='%s:%r' % (self.tname, v)))
                break
        return dict(name=self.name + '.ieee', evaluations=cnt, failures=fails, bound='boundaries + 300 seeded random doubles')


def replay_float(T, v):
    n = SCALARS[T.__name__][0]
    s = Sink()
    k, val = native_call(T.send, v, s)
    want = ieee_bytes(v, n)
    bad = None
    if k != 'ok':
        bad = '%s %r' % (k, val)
    elif s.data != want:
        bad = 'sent %s, IEEE-754 big-endian is %s' % (s.data.hex(), want.hex())
    else:
        k2, r = native_call(T.read, io.BytesIO(s.data))
        back = ieee_value(want, n)
        if k2 != 'ok' or not (r == back or (r != r and back != back)):
            bad = 'decoded back as %s %r' % (k2, r)
        for cut in range(n):
            k3, r3 = native_call(T.read, io.BytesIO(want[:cut]))
            if k3 != 'raise':
                bad = 'decoding the %d-byte prefix returned %r' % (cut, r3)
    return dict(confirmed=bad is not None, call='%s.send(%r)' % (T.__name__, v), observed=bad or 'conforms')


def ieee_bytes(v, n):
    """Independent IEEE-754 encoder (round-to-nearest-even), big-endian."""
    import math
    ebits, mbits = (8, 23) if n == 4 else (11, 52)
    bias = (1 << (ebits - 1)) - 1
    sign = 1 if math.copysign(1.0, v) < 0 else 0
    if v != v:
        e, m = (1 << ebits) - 1, 1 << (mbits - 1)
    elif v in (float('inf'), float('-inf')):
        e, m = (1 << ebits) - 1, 0
    elif v == 0:
        e, m = 0, 0
    else:
        f = Fraction(abs(v))
        ex = f.numerator.bit_length() - f.denominator.bit_length()
        if Fraction(2) ** ex > f:
            ex -= 1
        ex = max(ex, 1 - bias)
        scaled = f / Fraction(2) ** (ex - mbits)
        q = scaled.numerator // scaled.denominator
        rem = scaled - q
        if rem > Fraction(1, 2) or (rem == Fraction(1, 2) and q & 1):
            q += 1
        if q >= 1 << (mbits + 1):
            q >>= 1
            ex += 1
        if q < 1 << mbits:
            e, m = 0, q
        else:
            e, m = ex + bias, q - (1 << mbits)
        if e >= (1 << ebits) - 1:
            e, m = (1 << ebits) - 1, 0
    word = (sign << (ebits + mbits)) | (e << mbits) | m
    return word.to_bytes(n, 'big')


def ieee_value(b, n):
    ebits, mbits = (8, 23) if n == 4 else (11, 52)
    bias = (1 << (ebits - 1)) - 1
    w = int.from_bytes(b, 'big')
    sign = -1.0 if w >> (ebits + mbits) else 1.0
    e = (w >> mbits) & ((1 << ebits) - 1)
    m = w & ((1 << mbits) - 1)
    if e == (1 << ebits) - 1:
        return float('nan') if m else sign * float('inf')
    if e == 0:
        return sign * float(Fraction(m) * Fraction(2) ** (1 - bias - mbits))
    return sign * float((Fraction(1) + Fraction(m, 1 << mbits)) * Fraction(2) ** (e - bias))


# ------------------------------------------------------------------------------------------
# fixed point and angle (Int mode, reals; integer carriers through their S3 contracts)
# ------------------------------------------------------------------------------------------
class FixedPointUnit(Unit):
    prop = 'C02'
    int_mode = 'int'
    uses = ('S3 Integer/Short/Byte send/read contracts',)
    trusted = ('floats as reals',)

    def __init__(self, carrier, bits):
        self.carrier, self.bits = carrier, bits
        self.name = 'C02.FixedPoint(%s,%d)' % (carrier.__name__, bits)
        self.functions = (T_ + 'FixedPoint.send', T_ + 'FixedPoint.read', T_ + 'FixedPoint.__init__')

    def setup(self, I):
        install_scalar_contracts(I)

    def run(self, I):
        E = I.E
        fp = I.call(FixedPoint, self.carrier, self.bits)
        den = 1 << self.bits
        lo, hi = dom(self.carrier.__name__)
        v = E.new_real('v')
        # domain: the scaled value truncates into the carrier's range
        E.assume(And(v * den > lo - 1, v * den < hi + 1))
        self.v = v
        sock = OutSocket()
        try:
            I.call(I.getattr_(fp, 'send'), v, sock)
        except PyRaise as e:
            E.check('send.no-raise', False, note='raised %r for an in-domain value' % (e.exc,))
            return None
        E.check('send.one-atom', len(sock.out.atoms) == 1 and isinstance(sock.out.atoms[0], Blob)
                and sock.out.atoms[0].key[:2] == ('enc', self.carrier.__name__))
        if not (len(sock.out.atoms) == 1 and isinstance(sock.out.atoms[0], Blob)):
            return None
        n = sock.out.atoms[0].decoded
        t = v.t * den
        trunc = z3.If(t >= 0, z3.ToInt(t), -z3.ToInt(-t))
        E.check('send.value', SBool(n.t == trunc) if isinstance(n, SInt) else False, note='carrier = trunc(v * 2^%d)' % self.bits)
        st = InStream(I, sock.out)
        try:
            r = I.call(I.getattr_(fp, 'read'), st)
        except PyRaise as e:
            E.check('read.quantum', False, note='decoder raised %r' % (e.exc,))
            return None
        r = to_real(r)
        q = z3.RealVal(1) / den
        E.check('read.quantum', And(SBool(r.t - v.t < q), SBool(v.t - r.t < q)), note='|read(enc(v)) - v| < 2^-%d' % self.bits)
        E.check('read.consumed', st.remaining().length() == 0)
        return None

    def replay(self, model, label):
        if label.startswith('frame.'):
            rp = replay_fixed_instances(self.carrier, self.bits)
            if rp['confirmed']:
                return rp
        v = model.get('v', '0')
        v = float(Fraction(v)) if isinstance(v, str) else float(v)
        return replay_fixed(self.carrier, self.bits, v)

    def bounded(self, rng, tier):
        fails, cnt = [], 1
        rp = replay_fixed_instances(self.carrier, self.bits)
        if rp['confirmed']:
            fails.append(dict(call=rp['call'], observed=rp['observed'], witness='FixedPoint-instances'))
        lo, hi = dom(self.carrier.__name__)
        den = 1 << self.bits
        vals = [0.0, 1.0, -1.0, 0.5, -0.5, 1 / den, -1 / den, hi / den, lo / den, (hi - 0.5) / den, 3.14159] + \
               [rng.uniform(lo / den, hi / den) for _ in range(200)]
        for v in vals:
            cnt += 1
            rp = replay_fixed(self.carrier, self.bits, v)
            if rp['confirmed']:
                fails.append(dict(call=rp['call'], observed=rp['observed'],
                                  witness='FixedPoint(%s,%d)' % (self.carrier.__name__, self.bits)))
                break
        return dict(name=self.name + '.ieee', evaluations=cnt, failures=fails, bound='boundaries + 200 seeded random doubles')


def replay_fixed_instances(carrier, bits):
    """History over SEVERAL instances of the parametrised type: an instance keeps its own parameters whatever other
    instances are created afterwards, with positional or keyword arguments (seeded change C02-r10: instances interned by a
    key that leaves the keyword out, __init__ re-run on the shared object)."""
    den = 1 << bits
    v = 1.5 if den > 2 else 1.0
    n, signed = SCALARS[carrier.__name__]
    want = wire.be(int(Fraction(v) * den), n, signed)
    for first_kw in (True, False):
        a = FixedPoint(carrier, fractional_bits=bits) if first_kw else FixedPoint(carrier, bits)
        others = []
        for mk in (lambda: FixedPoint(carrier), lambda: FixedPoint(carrier, fractional_bits=(bits % 7) + 1),
                   lambda: FixedPoint(carrier, (bits % 5) + 2), lambda: FixedPoint(Integer if carrier is not Integer else Short, bits)):
            try:
                others.append(mk())
            except Exception:      # noqa
                pass
            s = Sink()
            k, val = native_call(a.send, v, s)
            k2, r = native_call(a.read, io.BytesIO(want))
            if k != 'ok' or s.data != want or k2 != 'ok' or abs(Fraction(r) - Fraction(v)) >= Fraction(1, den):
                return dict(confirmed=True, call='FixedPoint(%s, %s%d) used after %d other FixedPoint instances were created'
                            % (carrier.__name__, 'fractional_bits=' if first_kw else '', bits, len(others)),
                            observed='send(%r): %s %s (2^-%d fixed point is %s); read(%s): %s %r'
                                     % (v, k, s.data.hex(), bits, want.hex(), want.hex(), k2, r))
    return dict(confirmed=False, call='FixedPoint instances', observed='independent')


def replay_fixed(carrier, bits, v):
    fp = FixedPoint(carrier, bits)
    den = 1 << bits
    s = Sink()
    k, val = native_call(fp.send, v, s)
    n, signed = SCALARS[carrier.__name__]
    bad = None
    if k != 'ok':
        bad = '%s %r' % (k, val)
    else:
        want = wire.be(int(Fraction(v) * den), n, signed)
        if s.data != want:
            bad = 'sent %s, 2^-%d fixed point of %r is %s' % (s.data.hex(), bits, v, want.hex())
        else:
            k2, r = native_call(fp.read, io.BytesIO(s.data))
            if k2 != 'ok' or abs(Fraction(r) - Fraction(v)) >= Fraction(1, den):
                bad = 'decoded back as %s %r' % (k2, r)
    return dict(confirmed=bad is not None, call='FixedPoint(%s, %d).send(%r)' % (carrier.__name__, bits, v),
                observed=bad or 'conforms')


class AngleUnit(Unit):
    prop = 'C02'
    name = 'C02.Angle'
    int_mode = 'int'
    functions = (T_ + 'Angle.send', T_ + 'Angle.read')
    uses = ('S3 UnsignedByte send/read contracts',)
    trusted = ('floats as reals',)

    def setup(self, I):
        install_scalar_contracts(I)

    def run(self, I):
        E = I.E
        v = E.new_real('v')
        E.assume(And(v > -100000, v < 100000))
        sock = OutSocket()
        try:
            I.call(raw(Angle, 'send'), v, sock)
        except PyRaise as e:
            E.check('send.no-raise', False, note='raised %r for a finite angle' % (e.exc,))
            return None
        ok = len(sock.out.atoms) == 1 and isinstance(sock.out.atoms[0], Blob) and \
            sock.out.atoms[0].key[:2] == ('enc', 'UnsignedByte')
        E.check('send.one-byte', ok)
        if not ok:
            return None
        b = sock.out.atoms[0].decoded
        # spec: round(256 * (v mod 360) / 360) mod 256, round-half-even
        vm = v.t - 360 * z3.ToReal(z3.ToInt(v.t / 360))
        x = 256 * vm / 360
        f = z3.ToInt(x)
        frac = x - z3.ToReal(f)
        half = z3.RealVal(1) / 2
        rnd = z3.If(frac < half, f, z3.If(frac > half, f + 1, z3.If(f % 2 == 0, f, f + 1)))
        E.check('send.value', SBool(b.t == rnd % 256), note='byte = round(256 * (v mod 360) / 360) mod 256')
        st = InStream(I, sock.out)
        try:
            r = to_real(I.call(raw(Angle, 'read'), st))
        except PyRaise as e:
            E.check('read.quantum', False, note='decoder raised %r' % (e.exc,))
            return None
        d = r.t - vm
        ad = z3.If(d >= 0, d, -d)
        circ = z3.If(ad <= 180, ad, 360 - ad)
        E.check('read.range', And(SBool(r.t >= 0), SBool(r.t < 360)))
        E.check('read.quantum', SBool(circ <= z3.RealVal(360) / 256), note='within one 1/256-turn quantum (circular)')
        return None

    def replay(self, model, label):
        v = model.get('v', '0')
        v = float(Fraction(v)) if isinstance(v, str) else float(v)
        return replay_angle(v)

    def bounded(self, rng, tier):
        fails, cnt = [], 0
        vals = [i / 64.0 for i in range(-64 * 10, 64 * 370)] + [359.3, 359.99, -0.1, -1e-20, 720.0, -360.0, 1e5] + \
               [rng.uniform(-1000, 1000) for _ in range(500)]
        for v in vals:
            cnt += 1
            rp = replay_angle(v)
            if rp['confirmed']:
                fails.append(dict(call=rp['call'], observed=rp['observed'], witness='Angle'))
                break
        for byte in range(256):
            cnt += 1
            k, r = native_call(Angle.read, io.BytesIO(bytes([byte])))
            if k != 'ok' or Fraction(r) != Fraction(360 * byte, 256):
                fails.append(dict(call='Angle.read(%02x)' % byte, observed='%s %r' % (k, r), witness='Angle.read'))
                break
        return dict(name='C02.Angle.ieee', evaluations=cnt, failures=fails,
                    bound='1/64-degree grid over [-10, 370), boundary angles, 500 seeded random, all 256 bytes')


def replay_angle(v):
    s = Sink()
    k, val = native_call(Angle.send, v, s)
    bad = None
    if k != 'ok':
        bad = '%s %r' % (k, val)
    elif len(s.data) != 1:
        bad = 'sent %d bytes' % len(s.data)
    else:
        k2, r = native_call(Angle.read, io.BytesIO(s.data))
        vm = Fraction(v) % 360
        d = abs(Fraction(r) - vm) if k2 == 'ok' else None
        if k2 != 'ok' or min(d, 360 - d) > Fraction(360, 256):
            bad = 'decoded back as %s %r' % (k2, r)
    return dict(confirmed=bad is not None, call='Angle.send(%r)' % v, observed=bad or 'conforms')


# ------------------------------------------------------------------------------------------
# byte arrays, strings, UUID
# ------------------------------------------------------------------------------------------
class SymUUID(object):
    def __init__(self, s=None, b=None):
        self.s, self.b = s, b

    @property
    def bytes(self):
        return self.b

    def __sym_str__(self):
        return self.s


def uuid_model(I, hex=None, bytes=None, **kw):
    E = I.E
    if kw:
        raise Unsupported('uuid.UUID with %r' % (list(kw),))
    if hex is not None:
        if isinstance(hex, SStr):
            return SymUUID(hex, SBytes([Blob(('uuid', hex.t), 16, decoded=hex)]))
        return uuid_mod.UUID(hex)
    b = SBytes.of(bytes)
    n = b.length()
    if isinstance(n, int):
        if n != 16:
            raise ValueError('bytes is not a 16-char string')
    elif not I.truth(n == 16):
        raise ValueError('bytes is not a 16-char string')
    if b.is_concrete():
        return uuid_mod.UUID(bytes=b.concrete())
    if len(b.atoms) == 1 and isinstance(b.atoms[0], Blob) and b.atoms[0].key[0] == 'uuid':
        return SymUUID(b.atoms[0].decoded, b)
    return SymUUID(E.new_str('uuid'), b)


class ArrayUnit(Unit):
    """Length-prefixed byte arrays, String, UUID, TrailingByteArray: bytes, inverse, exact consumption, truncation."""
    prop = 'C02'
    trusted = ('struct.pack/unpack', 'utf-8 codec inverse pair', 'uuid.UUID inverse pair')

    def __init__(self, T):
        self.T = T
        self.tname = T.__name__
        self.name = 'C02.%s' % self.tname
        self.functions = (T_ + self.tname + '.send', T_ + self.tname + '.read')
        self.uses = ('VarInt.read/send bodies (inlined, unrolled; proved in C03)',)

    def setup(self, I):
        unroll_varint(I)
        I.override(uuid_mod.UUID, uuid_model, kind='assumed')

    def value(self, I):
        E = I.E
        t = self.tname
        if t == 'ShortPrefixedByteArray':
            blob = E.new_blob('payload', hi=32767)
            return SBytes([blob]), blob
        if t == 'VarIntPrefixedByteArray':
            blob = E.new_blob('payload', hi=(1 << 31) - 1)
            return SBytes([blob]), blob
        if t == 'TrailingByteArray':
            blob = E.new_blob('payload')
            return SBytes([blob]), blob
        if t == 'String':
            s = E.new_str('s')
            return s, s.encode('utf-8').atoms[0]
        if t == 'UUID':
            s = E.new_str('u')
            return s, Blob(('uuid', s.t), 16, decoded=s)
        raise AssertionError(t)

    def prefix_spec(self, I, blob, out_atoms):
        """(number of prefix atoms, formula: prefix bytes are the spec length encoding)."""
        t = self.tname
        L = blob.length
        if t == 'ShortPrefixedByteArray':
            ts = SBytes(out_atoms[:2]).byte_terms()
            return 2, SBool(ws.eq_bytes(ts, ws.be_terms(L.t, 2))) if ts and len(ts) == 2 else False
        if t in ('VarIntPrefixedByteArray', 'String'):
            k = len(out_atoms) - 1
            ts = SBytes(out_atoms[:k]).byte_terms()
            if ts is None or k < 1:
                return k, False
            return k, SBool(z3.And(ws.varint_len_cond(L.t, k), ws.eq_bytes(ts, ws.varint_terms(L.t, k))))
        return 0, True

    def run(self, I):
        E = I.E
        T = self.T
        v, blob = self.value(I)
        self.blob = blob
        sock = OutSocket()
        try:
            I.call(raw(T, 'send'), v, sock)
        except PyRaise as e:
            E.check('send.no-raise', False, note='raised %r for an in-domain value' % (e.exc,))
            return None
        atoms = sock.out.atoms
        npre, pre_ok = self.prefix_spec(I, blob, atoms)
        E.check('send.prefix', pre_ok, note='length prefix = spec encoding of the payload length')
        payload = SBytes(atoms[npre:])
        E.check('send.payload', payload == SBytes([blob]), note='payload bytes follow the prefix unchanged')
        # inverse
        st = InStream(I, sock.out)
        try:
            r = I.call(raw(T, 'read'), st)
        except PyRaise as e:
            E.check('read.inverse', False, note='decoder raised %r' % (e.exc,))
            return None
        E.check('read.inverse', r == v)
        E.check('read.consumed', st.remaining().length() == 0)
        if self.tname == 'TrailingByteArray':
            return None
        # truncation inside the payload: the first c < L bytes of the payload, then end of stream
        L = blob.length
        c = E.new_int('cut', 0, None)
        E.assume(c < L)
        self.cut = c
        st2 = InStream(I, SBytes(list(atoms[:npre]) + [slice_blob(blob, 0, c)]))
        try:
            r2 = I.call(raw(T, 'read'), st2)
        except PyRaise as e:
            E.check('read.prefix-raises', True)
            return None
        E.check('read.prefix-raises', False, note='returned %r from a truncated payload' % (r2,))
        return None

    def replay(self, model, label):
        t = self.tname
        L = int(model.get('payload.len', model.get('cut', 0) + 1))
        c = int(model.get('cut', 0))
        if t == 'String':
            L = max(c + 1, 1)
            v = 'a' * L
        elif t == 'UUID':
            v = '12345678-1234-5678-1234-567812345678'
            c = min(c, 15)
        else:
            L = max(L, c + 1)
            v = bytes((i * 7 + 1) & 0xFF for i in range(min(L, 70000)))
        return replay_array(self.T, v, c if 'prefix' in label else None)

    def bounded(self, rng, tier):
        fails, cnt = [], 0
        t = self.tname
        vals = []
        if t == 'String':
            vals = ['', 'a', 'ab', 'é', '€', '𝄞', 'x' * 127, 'x' * 128, 'é' * 64, 'x' * 16383, 'x' * 16384, 'a€b𝄞c',
                    # characters that lenient codecs, normalisation or C-string handling would alter
                    '\ufeff', '\ufeffserver', 'a\ufeffb', '\x00', 'a\x00b', '\r\n', ' padded ', '\u00a0', 'e\u0301', '\u2028', '\ufffd',
                    '\U0010ffff', '\x7f\x80\u07ff\u0800\uffff']
        elif t == 'UUID':
            vals = [str(uuid_mod.UUID(int=rng.getrandbits(128))) for _ in range(20)] + \
                   ['00000000-0000-0000-0000-000000000000', 'ffffffff-ffff-ffff-ffff-ffffffffffff']
        else:
            top = 32767 if t == 'ShortPrefixedByteArray' else 70000
            vals = [bytes(n) for n in (0, 1, 2, 127, 128, 255, 256, 16383, 16384, top) if n <= top] + \
                   [bytes(rng.getrandbits(8) for _ in range(rng.randrange(0, 300))) for _ in range(30)]
        for v in vals:
            cuts = [None] if t == 'TrailingByteArray' else [None, 0, 1, 2]
            for c in cuts:
                cnt += 1
                rp = replay_array(self.T, v, c)
                if rp['confirmed']:
                    fails.append(dict(call=rp['call'], observed=rp['observed'], witness=t))
                    break
            if fails:
                break
        return dict(name=self.name + '.values', evaluations=cnt, failures=fails,
                    bound='lengths around the 1/2/3-byte prefix boundaries, every UTF-8 width, truncations')


def spec_array_bytes(T, v):
    t = T.__name__
    if t == 'ShortPrefixedByteArray':
        return wire.be(len(v), 2, True) + v
    if t == 'VarIntPrefixedByteArray':
        return wire.varint_enc(len(v)) + v
    if t == 'TrailingByteArray':
        return v
    if t == 'String':
        e = v.encode('utf-8')
        return wire.varint_enc(len(e)) + e
    if t == 'UUID':
        return bytes.fromhex(v.replace('-', ''))
    raise AssertionError(t)


def replay_array(T, v, cut=None):
    """cut=None: full round trip; cut=c: the encoding truncated after the prefix + c payload bytes (or c bytes for UUID)."""
    want = spec_array_bytes(T, v)
    s = Sink()
    k, val = native_call(T.send, v, s)
    bad = None
    call = '%s.send(%s)' % (T.__name__, (repr(v) if len(v) < 40 else '<%d items>' % len(v)))
    if k != 'ok':
        bad = '%s %r' % (k, val)
    elif s.data != want:
        bad = 'sent %s.., protocol prescribes %s..' % (s.data[:24].hex(), want[:24].hex())
    elif cut is None:
        st = CountingStream(s.data + b'TAIL' if T.__name__ != 'TrailingByteArray' else s.data)
        k2, r = native_call(T.read, st)
        if k2 != 'ok' or r != v or st.tell() != len(want):
            bad = 'decoded back as %s %r consuming %d of %d' % (k2, r if k2 != 'ok' or len(r) < 40 else '<..>', st.tell(), len(want))
    else:
        payload_len = len(v.encode('utf-8')) if isinstance(v, str) and T.__name__ == 'String' else \
            (16 if T.__name__ == 'UUID' else len(v))
        npre = len(want) - payload_len
        if cut < payload_len:
            data = want[:npre + cut]
            call = '%s.read(%s)' % (T.__name__, data[:24].hex() + ('..' if len(data) > 24 else ''))
            k3, r3 = native_call(T.read, io.BytesIO(data))
            if k3 != 'raise':
                bad = 'decoding a truncated encoding (%d of %d payload bytes) returned %r' % (cut, payload_len, r3 if len(r3) < 40 else '<..>')
    return dict(confirmed=bad is not None, call=call, observed=bad or 'conforms')


class LengthPrefixCut(Unit):
    """Truncation inside the *length prefix* of the self-delimiting array types."""
    prop = 'C02'
    name = 'C02.arrays.prefix-cut'
    functions = tuple(T_ + t + '.read [stream ends inside the length prefix / the 16 bytes]' for t in
                      ('ShortPrefixedByteArray', 'UUID'))
    uses = ('VarInt.read raises EOFError when the stream ends inside a VarInt (C03 read.eof-means-end): covers the '
            'prefix of VarIntPrefixedByteArray and String',)

    def setup(self, I):
        unroll_varint(I)
        I.override(uuid_mod.UUID, uuid_model, kind='assumed')

    def run(self, I):
        E = I.E
        which = E.fork(2, 'type')
        T = (ShortPrefixedByteArray, UUID)[which]
        s = ArbitraryStream(I, 's')
        if T is ShortPrefixedByteArray:
            E.assume(s.total < 2)
        elif T is UUID:
            E.assume(s.total < 16)
        try:
            r = I.call(raw(T, 'read'), s)
        except PyRaise as e:
            E.check('read.prefix-raises[%s]' % T.__name__, True)
            return None
        E.check('read.prefix-raises[%s]' % T.__name__, False, note='returned %r' % (r,))
        return None

    def replay(self, model, label):
        total = int(model.get('s.total', 0))
        data = bytes(int(model.get('s[%d]' % i, 0)) & 0xFF for i in range(total))
        tn = label.split('[')[-1].rstrip(']')
        T = getattr(B, tn)
        k, r = native_call(T.read, io.BytesIO(data))
        return dict(confirmed=k != 'raise', call='%s.read(BytesIO(%r))' % (tn, data), observed='%s %r' % (k, r))


# ------------------------------------------------------------------------------------------
# PacketBuffer: the in-memory sink / source every encoding is observed through
# ------------------------------------------------------------------------------------------
PB_ = 'minecraft.networking.packets.packet_buffer.PacketBuffer.'


class BufferContract(Unit):
    """PacketBuffer against its abstract view (content, cursor), from ANY reachable state (arbitrary content of symbolic
    length; cursor at the end, rewound, or rewound and k bytes read): send appends; get_writable returns the content as an
    immutable byte string and changes nothing; reset empties whatever the cursor position; reset_cursor rewinds; read / recv
    hand out the content from the cursor on.  The real method bodies run on the assumed BytesIO model."""
    prop = 'C02'
    name = 'C02.PacketBuffer'
    int_mode = 'int'
    functions = tuple(PB_ + m for m in ('__init__', 'send', 'read', 'recv', 'reset', 'reset_cursor', 'get_writable'))
    trusted = ('io.BytesIO (write at the end, read, seek(0), getvalue, tell, getbuffer pins the buffer)',)

    def setup(self, I):
        from .codec import install_buffer_model
        install_buffer_model(I)

    def run(self, I):
        from minecraft.networking.packets.packet_buffer import PacketBuffer
        E = I.E
        call = lambda obj, name, *a: I.call(I.getattr_(obj, name), *a)     # noqa
        buf = I.call(PacketBuffer)
        c0 = SBytes([E.new_blob('content', lo=0, hi=1 << 20)])
        call(buf, 'send', c0)
        cur = ('end', 'rewound', 'mid')[E.fork(3, 'cursor')]
        if cur != 'end':
            call(buf, 'reset_cursor')
        if cur == 'mid':
            k = E.new_int('k', 0, 1 << 20)
            E.assume(k <= c0.length())
            call(buf, 'read', k)
        op = ('get_writable', 'reset', 'reset_cursor', 'read', 'send')[E.fork(5, 'operation')]
        v = SBytes([E.new_blob('v', lo=0, hi=1 << 20)])
        try:
            if op == 'get_writable':
                r = call(buf, 'get_writable')
                E.check('buffer.writable-is-bytes', isinstance(r, (bytes, SBytes)),
                        note='get_writable returns an immutable byte string (a snapshot), not %s' % type(r).__name__)
                if not isinstance(r, (bytes, SBytes)):
                    return None
                E.check('buffer.writable-is-content', SBytes.of(r) == c0, note='everything sent since the last reset, in order')
                r2 = call(buf, 'get_writable')
                E.check('buffer.writable-pure', isinstance(r2, (bytes, SBytes)) and SBytes.of(r2) == c0)
                if cur == 'end':
                    call(buf, 'send', v)          # a snapshot that is still referenced does not block or alias later writes
                    E.check('buffer.send-after-snapshot', SBytes.of(call(buf, 'get_writable')) == c0 + v and SBytes.of(r) == c0)
            elif op == 'reset':
                call(buf, 'reset')
                E.check('buffer.reset-empties', I.equals(SBytes.of(call(buf, 'get_writable')).length(), 0),
                        note='whatever the content and wherever the cursor (cursor %s)' % cur)
                E.check('buffer.reset-nothing-to-read', I.equals(SBytes.of(call(buf, 'read')).length(), 0))
                call(buf, 'send', v)
                E.check('buffer.reset-then-send', SBytes.of(call(buf, 'get_writable')) == v,
                        note='after reset the buffer holds exactly what is sent afterwards')
                call(buf, 'reset_cursor')
                E.check('buffer.reset-then-read', SBytes.of(call(buf, 'read')) == v)
            elif op == 'reset_cursor':
                call(buf, 'reset_cursor')
                E.check('buffer.rewind-reads-all', SBytes.of(call(buf, 'read')) == c0)
                E.check('buffer.rewind-keeps-content', SBytes.of(call(buf, 'get_writable')) == c0)
            elif op == 'read':
                if cur != 'rewound':
                    return None
                n = E.new_int('n', 0, 1 << 20)
                which = ('read', 'recv')[E.fork(2, 'read-or-recv')]
                a = SBytes.of(call(buf, which, n))
                b = SBytes.of(call(buf, which))
                ln = a.length()
                E.check('buffer.read-length', Or(And(n <= c0.length(), I.equals(ln, n)), And(n > c0.length(), I.equals(ln, c0.length()))),
                        note='%s(n) returns min(n, remaining) bytes' % which)
                E.check('buffer.read-in-order', a + b == c0, note='%s(n) followed by %s() yields the content, in order, once' % (which, which))
                E.check('buffer.read-keeps-content', SBytes.of(call(buf, 'get_writable')) == c0)
            else:
                if cur != 'end':
                    return None
                v2 = SBytes([E.new_blob('v2', lo=0, hi=1 << 20)])
                call(buf, 'send', v)
                call(buf, 'send', v2)
                E.check('buffer.send-appends', SBytes.of(call(buf, 'get_writable')) == c0 + v + v2)
        except PyRaise as e:
            E.check('buffer.no-raise', False, note='%s with the cursor %s raised %r' % (op, cur, e.exc))
        return None

    def replay(self, model, label):
        return replay_buffer()

    def bounded(self, rng, tier):
        rp = replay_buffer(rng, rounds=300 if tier == 'quick' else 3000)
        return dict(name='C02.PacketBuffer.op-sequences', evaluations=rp['n'], bound='seeded operation sequences of up to 12 steps '
                    '(send / read / recv / reset / reset_cursor / get_writable with retained snapshots) against a reference '
                    'implementation of the abstract view', failures=[dict(call=rp['call'], observed=rp['observed'],
                                                                          witness='packet-buffer')] if rp['confirmed'] else [])


def replay_buffer(rng=None, rounds=300):
    """The real PacketBuffer against (content, cursor) kept by hand; snapshots returned by get_writable are kept alive and
    must stay what they were."""
    import random
    from minecraft.networking.packets.packet_buffer import PacketBuffer
    rng = rng or random.Random(12)
    n = 0
    scripted = [['send', 'reset_cursor', 'reset', 'send-short', 'get_writable'], ['send', 'get_writable', 'send', 'get_writable'],
                ['send', 'reset_cursor', 'read', 'reset', 'get_writable', 'read']]
    for rd in range(rounds):
        buf = PacketBuffer()
        content, pos, snaps, hist = bytearray(), 0, [], []
        ops = scripted[rd] if rd < len(scripted) else [rng.choice(['send', 'send', 'read', 'recv', 'reset', 'reset_cursor', 'get_writable'])
                                                       for _ in range(rng.randrange(1, 13))]
        for op in ops:
            n += 1
            hist.append(op)
            bad = None
            if op in ('send', 'send-short'):
                if pos != len(content):
                    hist.pop()
                    continue                   # writing in the middle is not part of the abstract view
                data = bytes(rng.getrandbits(8) for _ in range(1 if op == 'send-short' else rng.randrange(0, 40)))
                k, r = native_call(buf.send, data)
                content += data
                pos = len(content)
                if k != 'ok':
                    bad = 'send raised %r' % (r,)
            elif op in ('read', 'recv'):
                ln = rng.choice([None, 0, 1, 5, 1000])
                k, r = native_call(getattr(buf, op), ln) if ln is not None or rng.random() < 0.5 else native_call(getattr(buf, op))
                want = bytes(content[pos:] if ln is None else content[pos:pos + ln])
                pos += len(want)
                if k != 'ok' or bytes(r) != want:
                    bad = '%s(%r) gave %s %r, the abstract view has %r' % (op, ln, k, r if k != 'ok' else bytes(r)[:20], want[:20])
            elif op == 'reset':
                k, r = native_call(buf.reset)
                content, pos = bytearray(), 0
                if k != 'ok':
                    bad = 'reset raised %r' % (r,)
            elif op == 'reset_cursor':
                k, r = native_call(buf.reset_cursor)
                pos = 0
                if k != 'ok':
                    bad = 'reset_cursor raised %r' % (r,)
            else:
                k, r = native_call(buf.get_writable)
                if k != 'ok':
                    bad = 'get_writable raised %r' % (r,)
                elif type(r) is not bytes:
                    bad = 'get_writable returned a %s, not bytes' % type(r).__name__
                    snaps.append((r, bytes(content)))
                elif r != bytes(content):
                    bad = 'get_writable returned %d bytes (%r..), %d were sent since the last reset (%r..)' % (len(r), r[:12], len(content), bytes(content[:12]))
                else:
                    snaps.append((r, bytes(content)))
            if bad is None:
                for sn, was in snaps:
                    try:
                        if bytes(sn) != was:
                            bad = 'a byte string returned earlier by get_writable changed afterwards'
                    except Exception as e:      # noqa
                        bad = 'a value returned earlier by get_writable is no longer readable: %r' % (e,)
            if bad:
                return dict(confirmed=True, n=n, call='PacketBuffer: ' + ', '.join(hist), observed=bad)
    return dict(confirmed=False, n=n, call='PacketBuffer operation sequences', observed='conform')


# ------------------------------------------------------------------------------------------
# PrefixedArray and context dispatch
# ------------------------------------------------------------------------------------------
class PrefixedArrayUnit(Unit):
    prop = 'C02'
    uses = ('VarInt.read/send bodies (inlined; proved in C03)', 'S3 scalar contracts')

    def __init__(self, length_type, elem_type, nested=False):
        self.lt, self.et, self.nested = length_type, elem_type, nested
        self.name = 'C02.PrefixedArray(%s,%s%s)' % (length_type.__name__, 'PrefixedArray:' if nested else '', elem_type.__name__)
        self.functions = (T_ + 'PrefixedArray.send', T_ + 'PrefixedArray.read', T_ + 'PrefixedArray.send_with_context',
                          T_ + 'PrefixedArray.read_with_context', T_ + 'PrefixedArray._PrefixedArray__read',
                          T_ + 'PrefixedArray._PrefixedArray__send')

    def setup(self, I):
        unroll_varint(I)
        install_scalar_contracts(I)

    def elem(self, E, name):
        lo, hi = dom(self.et.__name__) if self.et.__name__ in SCALARS else (0, (1 << 31) - 1)
        return E.new_int(name, lo, hi)

    def run(self, I):
        E = I.E
        n = E.fork(4, 'length')          # array lengths 0..3: complete unrolling per length
        via_ctx = bool(E.fork(2, 'dispatch'))
        if self.nested:
            inner = I.call(PrefixedArray, self.lt, self.et)
            arr = I.call(PrefixedArray, self.lt, inner)
            value = [[self.elem(E, 'e%d_%d' % (i, j)) for j in range(i % 3)] for i in range(n)]
        else:
            arr = I.call(PrefixedArray, self.lt, self.et)
            value = [self.elem(E, 'e%d' % i) for i in range(n)]
        ctx = ConnectionContext(protocol_version=47)
        sock = OutSocket()
        try:
            if via_ctx:
                I.call(I.getattr_(arr, 'send_with_context'), value, sock, ctx)
            else:
                I.call(I.getattr_(arr, 'send'), value, sock)
        except PyRaise as e:
            E.check('send.no-raise', False, note='raised %r' % (e.exc,))
            return None
        # spec: L.enc(n) || concat(enc(x)), checked against the independently built sequence
        want = OutSocket()
        self.spec_write(I, want, value, self.nested)
        E.check('send.bytes', sock.out == want.out, note='prefixed(L, xs) = L.enc(|xs|) || concat(enc(x))')
        st = InStream(I, sock.out)
        try:
            r = I.call(I.getattr_(arr, 'read_with_context'), st, ctx) if via_ctx else I.call(I.getattr_(arr, 'read'), st)
        except PyRaise as e:
            E.check('read.inverse', False, note='decoder raised %r' % (e.exc,))
            return None
        E.check('read.inverse', I.equals(r, value))
        E.check('read.consumed', st.remaining().length() == 0)
        return None

    def spec_write(self, I, sock, value, nested):
        from .codec import send_contract
        ltn = self.lt.__name__
        if ltn in SCALARS:
            send_contract(ltn)(I, len(value), sock)
        else:
            sock.send(wire.varint_enc(len(value)))
        for x in value:
            if nested:
                self.spec_write(I, sock, x, False)
            elif self.et.__name__ in SCALARS:
                send_contract(self.et.__name__)(I, x, sock)
            else:
                I.call(raw(self.et, 'send'), x, sock)

    def replay(self, model, label):
        return dict(confirmed=False, call='(see bounded stand-in)', observed='')

    def bounded(self, rng, tier):
        fails, cnt = [], 0
        arr = PrefixedArray(self.lt, PrefixedArray(self.lt, self.et)) if self.nested else PrefixedArray(self.lt, self.et)
        lo, hi = dom(self.et.__name__) if self.et.__name__ in SCALARS else (0, (1 << 31) - 1)

        def elem():
            return rng.choice([lo, hi, 0, 1, rng.randint(lo, hi)])
        for n in list(range(0, 6)) + [127, 128, 300]:
            value = [[elem() for _ in range(rng.randrange(0, 4))] for _ in range(n)] if self.nested else [elem() for _ in range(n)]
            cnt += 1
            s = Sink()
            k, val = native_call(arr.send, value, s)
            want = self.spec_concrete(value, self.nested)
            bad = None
            if k != 'ok':
                bad = '%s %r' % (k, val)
            elif s.data != want:
                bad = 'sent %s.., spec %s..' % (s.data[:20].hex(), want[:20].hex())
            else:
                st = CountingStream(s.data + b'T')
                k2, r = native_call(arr.read, st)
                if k2 != 'ok' or r != value or st.tell() != len(want):
                    bad = 'decoded back as %s (consumed %d of %d)' % (k2, st.tell(), len(want))
            if bad:
                fails.append(dict(call='%s.send(<%d elements>)' % (self.name, n), observed=bad, witness=self.name))
                break
        return dict(name=self.name + '.lengths', evaluations=cnt, failures=fails,
                    bound='lengths 0..5, 127, 128, 300 with boundary/seeded elements')

    def spec_concrete(self, value, nested):
        def enc(T, x):
            if T.__name__ in SCALARS:
                n, signed = SCALARS[T.__name__]
                return wire.be(x, n, signed)
            return wire.varint_enc(x)
        out = enc(self.lt, len(value))
        for x in value:
            out += self.spec_concrete(x, False) if nested else enc(self.et, x)
        return out


class PrefixedArrayAnyLength(Unit):
    """PrefixedArray for arrays of ANY length (symbolic n) with an abstract length type and an abstract element type:
    send = the length n first, then the elements 0..n-1 in order, each exactly once, all to the same socket (and under the
    same context in the contextual variant); read = the length first, then exactly n element reads in order from the same
    stream, the result being the list of what they returned.  With the S3-shaped contracts of concrete element types this
    gives prefixed(L, xs) = L.enc(|xs|) || concat(enc(x)) and its inverse for every length."""
    prop = 'C02'
    name = 'C02.PrefixedArray.any-length'
    int_mode = 'int'
    functions = (T_ + 'PrefixedArray._PrefixedArray__send', T_ + 'PrefixedArray._PrefixedArray__read', T_ + 'PrefixedArray.send',
                 T_ + 'PrefixedArray.read', T_ + 'PrefixedArray.send_with_context', T_ + 'PrefixedArray.read_with_context')

    def setup(self, I):
        import ast
        from pyvc.loops import ForSpec, CompSpec
        from pyvc.models import AbstractSeq
        from .common import loop_keys
        unit = self

        class AbsValue(AbstractSeq):
            def __init__(self, n):
                self.n = n

            def __sym_len__(self):
                return self.n
        self.AbsValue = AbsValue

        class AbsResult(object):
            def __init__(self, n):
                self.n = n
        self.AbsResult = AbsResult
        from .common import reachable_loops, ByIterable
        from pyvc.builtins_model import SymRange
        pub = [raw(PrefixedArray, m) for m in ('send', 'read', 'send_with_context', 'read_with_context')]
        kfor, kr = set(), set()
        for f in pub:
            kfor |= set(reachable_loops(f, PrefixedArray, kind=ast.For, depth=1))
            kr |= set(reachable_loops(f, PrefixedArray, kind=ast.ListComp, depth=1))
        kr = sorted(kr)
        if not kfor:
            raise Unsupported('contract does not fit the code any more: no element loop reachable from PrefixedArray.send / read')

        # the reader written as an explicit loop appending to an accumulator list
        class AbsList(AbsResult):
            def append(self_, v):
                I.E.check('array.element-value', v == ('read', self_.n) if not isinstance(v, tuple)
                          else And(v[0] == 'read', v[1] == self_.n),
                          note='element j of the result is what the j-th element read returned')
                self_.n = self_.n + 1

        def acc_name(fr):
            names = [k for k, v in fr.locals.items() if isinstance(v, (list, AbsResult))]
            if len(names) != 1:
                raise Unsupported('array read loop: expected exactly one accumulator list, found %r' % (names,))
            return names[0]

        def r_inv(I_, fr, j):
            acc = fr.locals[acc_name(fr)]
            return And(unit.count == j, unit.length_read == 1, (len(acc) if isinstance(acc, list) else acc.n) == j)

        def r_havoc(I_, fr, j):
            unit.count = j
            fr.locals[acc_name(fr)] = AbsList(j)
        read_for = ForSpec('elements', lambda I_, it: it.n, lambda I_, it, j: j, r_inv, r_havoc)
        send_for = ForSpec('elements', lambda I_, it: it.n, lambda I_, it, j: ('elem', j),
                           lambda I_, fr, j: And(unit.count == j, unit.length_sent == 1),
                           lambda I_, fr, j: setattr(unit, 'count', j))

        class BySide(object):
            # the loop over the value being sent gets the writer contract, a loop over range(count) the reader contract
            def run(self_, I_, node, frame):
                it = I_.eval(node.iter, frame)
                if isinstance(it, AbsValue):
                    return send_for.run(I_, node, frame)
                if isinstance(it, SymRange):
                    return read_for.run(I_, node, frame)
                return I_.for_plain(node, frame)
        for k in kfor:
            I.loop_specs[k] = BySide()
        for _k in kr:
            I.loop_specs[_k] = CompSpec('elements', lambda I_, it: it.n, lambda I_, it, j: j,
                                       lambda I_, fr, j: And(unit.count == j, unit.length_read == 1),
                                       lambda I_, fr, j: setattr(unit, 'count', j),
                                       lambda I_, j, v: I_.E.check('array.element-value', v == ('read', j) if not isinstance(v, tuple)
                                                                   else And(v[0] == 'read', v[1] == j),
                                                                   note='element j of the result is what the j-th element read returned'),
                                       lambda I_, n: AbsResult(n))

    def run(self, I):
        E = I.E
        unit = self
        self.count, self.length_sent, self.length_read = 0, 0, 0
        n = E.new_int('n', 0, None)
        sock, ctx = object(), ConnectionContext(protocol_version=757)
        via_ctx = bool(E.fork(2, 'contextual'))
        direction = E.fork(2, 'direction')

        class LenType(object):
            @staticmethod
            def send(value, socket):
                E.check('array.length-first', And(I.equals(value, n), socket is sock, unit.count == 0, unit.length_sent == 0),
                        note='the length |xs| is written first, once, to the same socket')
                unit.length_sent += 1

            @staticmethod
            def read(file_object):
                E.check('array.length-read-first', And(file_object is sock, unit.count == 0, unit.length_read == 0))
                unit.length_read += 1
                return n

        class ElemType(object):
            @staticmethod
            def send(value, socket):
                E.check('array.element-order', And(value[0] == 'elem', value[1] == unit.count, socket is sock, not via_ctx),
                        note='element j is written j-th, once, to the same socket')
                unit.count = unit.count + 1

            @staticmethod
            def send_with_context(value, socket, context):
                E.check('array.element-order', And(value[0] == 'elem', value[1] == unit.count, socket is sock, context is ctx, via_ctx))
                unit.count = unit.count + 1

            @staticmethod
            def read(file_object):
                E.check('array.element-read-order', And(file_object is sock, not via_ctx))
                j = unit.count
                unit.count = unit.count + 1
                return ('read', j)

            @staticmethod
            def read_with_context(file_object, context):
                E.check('array.element-read-order', And(file_object is sock, context is ctx, via_ctx))
                j = unit.count
                unit.count = unit.count + 1
                return ('read', j)
        arr = I.call(PrefixedArray, LenType, ElemType)
        if direction == 0:
            value = self.AbsValue(n)
            if via_ctx:
                I.call(I.getattr_(arr, 'send_with_context'), value, sock, ctx)
            else:
                I.call(I.getattr_(arr, 'send'), value, sock)
            E.check('array.all-elements-sent', And(self.count == n, self.length_sent == 1))
        else:
            r = I.call(I.getattr_(arr, 'read_with_context'), sock, ctx) if via_ctx else I.call(I.getattr_(arr, 'read'), sock)
            E.check('array.result', isinstance(r, self.AbsResult) and And(r.n == n, self.count == n, self.length_read == 1),
                    note='exactly n element reads; the result is the list of their values')
        return None

    def replay(self, model, label):
        u = PrefixedArrayUnit(VarInt, Short)
        import random
        b = u.bounded(random.Random(3), 'quick')
        if b['failures']:
            return dict(confirmed=True, call=b['failures'][0]['call'], observed=b['failures'][0]['observed'])
        return dict(confirmed=False, call='PrefixedArray(VarInt, Short) for lengths 0..300', observed='conforms')


class Dispatch(Unit):
    """read_with_context / send_with_context of context-free types are read / send (class and instance access);
    the abstract Type raises as documented."""
    prop = 'C02'
    name = 'C02.dispatch'
    functions = (T_ + 'Type.read_with_context', T_ + 'Type.send_with_context', T_ + 'Type.read', T_ + 'Type.send',
                 'minecraft.utility.class_and_instancemethod.__get__')
    TYPES = (Boolean, UnsignedByte, Byte, Short, UnsignedShort, Integer, Long, UnsignedLong, VarInt, VarLong)

    def setup(self, I):
        unroll_varint(I)

    def run(self, I):
        E = I.E
        k = E.fork(len(self.TYPES) + 2, 'type')
        ctx = ConnectionContext(protocol_version=47)
        if k == len(self.TYPES):
            for nm, args in (('read', (InStream(I, b''),)), ('send', (0, OutSocket()))):
                try:
                    I.call(I.getattr_(Type, nm), *args)
                    E.check('abstract.%s-raises' % nm, False)
                except PyRaise as e:
                    E.check('abstract.%s-raises' % nm, isinstance(e.exc, NotImplementedError))
            return None
        if k == len(self.TYPES) + 1:
            # a context-only type (Position) refuses the context-free entry points with TypeError
            for nm, args in (('read', (InStream(I, b'\0' * 8),)), ('send', ((0, 0, 0), OutSocket()))):
                try:
                    I.call(I.getattr_(B.Position, nm), *args)
                    E.check('contextual.%s-raises' % nm, False)
                except PyRaise as e:
                    E.check('contextual.%s-raises' % nm, isinstance(e.exc, TypeError))
            return None
        T = self.TYPES[k]
        v = E.new_bool('v') if T is Boolean else E.new_int('v', *(dom(T.__name__) if T.__name__ in SCALARS else (0, (1 << 31) - 1)))
        a, b = OutSocket(), OutSocket()
        try:
            I.call(I.getattr_(T, 'send_with_context'), v, a, ctx)
            I.call(I.getattr_(T, 'send'), v, b)
            E.check('dispatch.send[%s]' % T.__name__, a.out == b.out)
            r1 = I.call(I.getattr_(T, 'read_with_context'), InStream(I, a.out), ctx)
            r2 = I.call(I.getattr_(T, 'read'), InStream(I, a.out))
            E.check('dispatch.read[%s]' % T.__name__, r1 == r2)
        except PyRaise as e:
            E.check('dispatch.no-raise[%s]' % T.__name__, False, note='%r' % (e.exc,))
        return None

    def replay(self, model, label):
        return dict(confirmed=False, call='(dispatch)', observed='')


class OptimisedInterpreter(Unit):
    """"Decoding a strict prefix raises" must not depend on how the interpreter was started: `python -O` (PYTHONOPTIMIZE)
    removes every `assert`, so a truncation guard written as an assert vanishes there (seeded change C02-r13).  Obligation:
    no `assert` statement in the wire-type modules (closed scan); bounded: the prefix checks of every self-delimiting type
    re-run in a `python -O` child process on the real code.  A hit of the scan alone is undecided (an assert that guards
    nothing is harmless); with a failing input from the -O run it is a violation."""
    prop = 'C02'
    name = 'C02.optimised-interpreter'
    int_mode = 'int'
    functions = ('minecraft/networking/types/*.py [closed scan: assert statements]',)

    @staticmethod
    def scan():
        import ast as _ast
        import glob
        hits = []
        for path in sorted(glob.glob(os.path.join(os.path.dirname(B.__file__), '*.py'))):
            tree = _ast.parse(open(path, encoding='utf-8').read(), path)
            for node in _ast.walk(tree):
                if isinstance(node, _ast.Assert):
                    hits.append('%s:%d' % (os.path.basename(path), node.lineno))
        return hits

    def run(self, I):
        hits = self.scan()
        I.E.check('frame.no-guard-is-an-assert', not hits, kind='frame',
                  note='assert statements in the wire-type modules (removed under python -O): %s' % ', '.join(hits[:6]) if hits else
                       'no assert statement in the wire-type modules')
        return None

    def replay(self, model, label):
        return replay_under_O()

    def bounded(self, rng, tier):
        rp = replay_under_O()
        return dict(name='C02.prefixes-under-python-O', evaluations=rp['n'], bound='every strict prefix of sample encodings of the '
                    'self-delimiting types, decoded in a `python -O` child process', failures=[dict(call=rp['call'],
                    observed=rp['observed'], witness='python-O')] if rp['confirmed'] else [])


_UNDER_O = r"""
import io, sys, json
from minecraft.networking.types import (String, VarIntPrefixedByteArray, ShortPrefixedByteArray, UUID, Integer, Long, Short,
                                        UnsignedLong, Double, Float, VarInt, VarLong, Boolean, Byte)
from minecraft.networking.packets import PacketBuffer
assert False, 'must be removed: this child has to run with -O'
samples = [(String, 'hello wörld'), (String, 'x' * 200), (VarIntPrefixedByteArray, bytes(range(40))),
           (ShortPrefixedByteArray, bytes(range(9))), (UUID, '12345678-9abc-def0-1234-56789abcdef0'), (Integer, 70000),
           (Long, -5), (Short, 300), (UnsignedLong, 2 ** 63 + 1), (Double, 1.5), (Float, 2.5), (VarInt, 300), (VarLong, 2 ** 40 + 5)]
bad, n = None, 0
for T, v in samples:
    buf = PacketBuffer()
    T.send(v, buf)
    enc = buf.get_writable()
    for cut in range(len(enc)):
        n += 1
        try:
            r = T.read(io.BytesIO(enc[:cut]))
        except Exception:
            continue
        bad = '%s.read on the first %d of the %d bytes encoding %r returned %r instead of raising' % (T.__name__, cut, len(enc), v, r)
        break
    if bad:
        break
print(json.dumps(dict(bad=bad, n=n)))
"""


def replay_under_O():
    import subprocess
    import sys
    env = dict(os.environ)
    env['PYTHONPATH'] = REPO + os.pathsep + env.get('PYTHONPATH', '')
    env.pop('PYTHONOPTIMIZE', None)
    try:
        out = subprocess.run([sys.executable, '-O', '-c', _UNDER_O], env=env, capture_output=True, timeout=60)
        res = json.loads(out.stdout.decode().strip().splitlines()[-1])
    except Exception as e:      # noqa
        return dict(confirmed=False, n=0, call='python -O child process', observed='did not run: %r' % (e,))
    return dict(confirmed=res['bad'] is not None, n=res['n'], call='truncated encodings decoded under `python -O`',
                observed=res['bad'] or 'every strict prefix raises')


def units(tier):
    us = [IntScalar(T) for T in (Boolean, UnsignedByte, Byte, Short, UnsignedShort, Integer, Long, UnsignedLong)]
    us += [ScalarPrefix(T) for T in (Boolean, UnsignedByte, Byte, Short, UnsignedShort, Integer, Long, UnsignedLong,
                                     Float, Double)]
    us += [FloatScalar(Float), FloatScalar(Double)]
    us += [FixedPointUnit(Integer, 5), FixedPointUnit(Short, 12), FixedPointUnit(Byte, 5), AngleUnit()]
    us += [ArrayUnit(T) for T in (ShortPrefixedByteArray, VarIntPrefixedByteArray, TrailingByteArray, String, UUID)]
    us += [LengthPrefixCut()]
    us += [PrefixedArrayUnit(VarInt, Byte), PrefixedArrayUnit(Integer, Short), PrefixedArrayUnit(VarInt, VarInt),
           PrefixedArrayUnit(VarInt, Byte, nested=True)]
    us += [PrefixedArrayAnyLength(), Dispatch(), BufferContract(), OptimisedInterpreter()]
    # VarInt / VarLong are scalar wire types too: their byte-level contracts (C03) are claimed here as well
    from . import c03
    for u, nm in ((c03.ReadArbitrary(VarInt), 'C02.VarInt.read'), (c03.ReadArbitrary(c03.VarLong), 'C02.VarLong.read'),
                  (c03.SendCanonical(VarInt, 32), 'C02.VarInt.send'), (c03.SendCanonical(c03.VarLong, 64), 'C02.VarLong.send')):
        u.prop, u.name = 'C02', nm
        us.append(u)
    return us
