"""C20 (part 2): player-list and map trackers.

Maps keyed by symbolic keys are modelled by a two-point abstraction: the entry of the key the step touches, the entry of
ONE OTHER arbitrary key (any key different from the first), and an arbitrary rest.  A step that leaves the second entry
untouched for an arbitrary second key leaves every other entry untouched: this is the frame condition over the whole view.
"""
import ast

import z3

from minecraft.networking.packets.clientbound.play import PlayerListItemPacket, MapPacket

from pyvc.driver import Unit
from pyvc.models import AbstractSeq
from pyvc.values import SInt, SBool, SStr, And, Or, Not, Implies, Unsupported, is_symbolic
from pyvc.interp import PyRaise
from pyvc.loops import ForSpec
from pyvc.builtins_model import SymRange
from pyvc.harness import native_call
from .common import raw, loop_keys

PL = PlayerListItemPacket
PL_ = 'minecraft.networking.packets.clientbound.play.player_list_item_packet.PlayerListItemPacket.'
MP_ = 'minecraft.networking.packets.clientbound.play.map_packet.MapPacket.'


class TwoPointMap(object):
    """dict with symbolic keys: entries for the keys k1, k2 (k1 != k2 assumed by the unit) and an abstract rest."""
    ABSENT = None

    def __init__(self, I, k1, e1, k2, e2):
        self.I = I
        self.k = [k1, k2]
        self.e = [e1, e2]
        self.other_writes = 0

    def _slot(self, key):
        I = self.I
        for j in (0, 1):
            r = I.equals(key, self.k[j])
            if r is True or (r is not False and I.truth(r)):
                return j
        return None

    def get(self, key, default=None):
        j = self._slot(key)
        if j is None:
            raise Unsupported('lookup of a third key in the two-point map')
        return default if self.e[j] is None else self.e[j]

    def __contains__(self, key):
        j = self._slot(key)
        if j is None:
            raise Unsupported('membership of a third key in the two-point map')
        return self.e[j] is not None

    def __getitem__(self, key):
        j = self._slot(key)
        if j is None or self.e[j] is None:
            raise KeyError(key)
        return self.e[j]

    def __setitem__(self, key, value):
        j = self._slot(key)
        if j is None:
            self.other_writes += 1
            return
        self.e[j] = value

    def __delitem__(self, key):
        j = self._slot(key)
        if j is None:
            self.other_writes += 1
            return
        if self.e[j] is None:
            raise KeyError(key)
        self.e[j] = None


FIELDS = ('uuid', 'name', 'properties', 'gamemode', 'ping', 'display_name')


def sym_item(E, tag, uuid):
    it = PL.PlayerListItem()
    vals = dict(uuid=uuid, name=E.new_str(tag + '.name'), properties=['props-' + tag], gamemode=E.new_int(tag + '.gamemode'),
                ping=E.new_int(tag + '.ping'), display_name=E.new_str(tag + '.display') if E.fork(2, tag + '.has-display') else None)
    for k, v in vals.items():
        setattr(it, k, v)
    return it, vals


def same_fields(item, vals):
    return all(getattr(item, k) is v for k, v in vals.items())


class PlayerListStep(Unit):
    prop = 'C20'
    name = 'C20.playerlist.step'
    int_mode = 'int'
    functions = tuple(PL_ + a + '.apply' for a in ('AddPlayerAction', 'UpdateGameModeAction', 'UpdateLatencyAction',
                                                   'UpdateDisplayNameAction', 'RemovePlayerAction'))
    max_paths = 5000

    def run(self, I):
        E = I.E
        u, u2 = E.new_str('uuid'), E.new_str('other-uuid')
        E.assume(u != u2)
        e1, v1 = (sym_item(E, 'cur', u) if E.fork(2, 'present') else (None, None))
        e2, v2 = (sym_item(E, 'oth', u2) if E.fork(2, 'other-present') else (None, None))
        m = TwoPointMap(I, u, e1, u2, e2)
        plist = PL.PlayerList()
        plist.players_by_uuid = m
        kind = ('add', 'gamemode', 'latency', 'display', 'remove')[E.fork(5, 'action')]
        cls = {'add': PL.AddPlayerAction, 'gamemode': PL.UpdateGameModeAction, 'latency': PL.UpdateLatencyAction,
               'display': PL.UpdateDisplayNameAction, 'remove': PL.RemovePlayerAction}[kind]
        act = cls()
        act.uuid = u
        new = dict(name=E.new_str('new.name'), properties=['new-props'], gamemode=E.new_int('new.gamemode'),
                   ping=E.new_int('new.ping'), display_name=E.new_str('new.display') if E.fork(2, 'new-has-display') else None)
        own = cls.__dict__.get('__slots__', ())
        own = (own,) if isinstance(own, str) else tuple(own)
        # fault at one point: the action was only partly decoded (the stream ended inside it) and one of its fields was never
        # set.  Applying it fails - and must then leave the tracked state exactly as it was: the state is "the replay of the
        # packets that applied" (seeded change C20-r10: the entry is replaced by a half-filled record before the copy fails)
        missing = E.fork(len(own) + 1, 'field-never-set') - 1
        for j, k in enumerate(own):
            if j != missing:
                setattr(act, k, new[k])
        try:
            I.call(I.getattr_(act, 'apply'), plist)
        except PyRaise as e:
            if missing >= 0:
                E.check('playerlist.failed-apply-leaves-state', m.e[0] is e1 and (e1 is None or same_fields(e1, v1)) and
                        m.e[1] is e2 and (e2 is None or same_fields(e2, v2)) and m.other_writes == 0,
                        note='%s without %r raised %r: the tracker must be unchanged' % (kind, own[missing], type(e.exc).__name__))
                return None
            E.check('playerlist.no-raise', False, note='%s: %r' % (kind, e.exc))
            return None
        if missing >= 0:
            return None          # tolerated the missing field: no claim
        after = m.e[0]
        # frame over the whole view: the arbitrary other entry is untouched, nothing else is written
        E.check('playerlist.frame', m.e[1] is e2 and (e2 is None or same_fields(e2, v2)) and m.other_writes == 0,
                note='every other player entry is untouched')
        if kind == 'add':
            ok = after is not None and after is not e1 and type(after) is PL.PlayerListItem and after.uuid is u and \
                all(getattr(after, k) is new[k] for k in new)
            E.check('playerlist.add-overwrites', ok, note='an add installs a fresh record with exactly the action\'s fields')
        elif kind == 'remove':
            E.check('playerlist.remove', after is None, note='removal deletes the entry; unknown players are a no-op')
        else:
            field = {'gamemode': 'gamemode', 'latency': 'ping', 'display': 'display_name'}[kind]
            if e1 is None:
                E.check('playerlist.update-unknown-noop', after is None, note='updating an unknown player is a no-op')
            else:
                want = dict(v1)
                want[field] = new[field]
                E.check('playerlist.update-one-field', after is e1 and same_fields(e1, want),
                        note='exactly the %s field of the existing entry changes' % field)
        return None

    def replay(self, model, label):
        return replay_playerlist()

    def bounded(self, rng, tier):
        rp = replay_playerlist(rng, 300 if tier == 'quick' else 3000)
        return dict(name='C20.playerlist.histories', evaluations=rp['n'], bound='seeded histories of length 200 over a pool of 4 UUIDs '
                    'against a reference replay', failures=[dict(call=rp['call'], observed=rp['observed'], witness='playerlist')]
                    if rp['confirmed'] else [])


def replay_playerlist(rng=None, rounds=50):
    import random
    rng = rng or random.Random(11)
    pool = ['00000000-0000-0000-0000-00000000000%d' % i for i in range(4)]
    n = 0
    for _ in range(max(1, rounds // 50)):
        plist = PL.PlayerList()
        ref = {}
        for step in range(200):
            n += 1
            u = rng.choice(pool)
            k = rng.randrange(5)
            pkt = PL()
            if k == 0:
                a = PL.AddPlayerAction(uuid=u, name='n%d' % step, properties=[], gamemode=step % 4, ping=step, display_name=None)
                ref[u] = dict(uuid=u, name=a.name, properties=a.properties, gamemode=a.gamemode, ping=a.ping, display_name=None)
            elif k == 1:
                a = PL.UpdateGameModeAction(uuid=u, gamemode=step)
                if u in ref:
                    ref[u]['gamemode'] = step
            elif k == 2:
                a = PL.UpdateLatencyAction(uuid=u, ping=step)
                if u in ref:
                    ref[u]['ping'] = step
            elif k == 3:
                a = PL.UpdateDisplayNameAction(uuid=u, display_name='d%d' % step)
                if u in ref:
                    ref[u]['display_name'] = 'd%d' % step
            else:
                a = PL.RemovePlayerAction(uuid=u)
                ref.pop(u, None)
            pkt.action_type, pkt.actions = type(a), [a]
            kk, v = native_call(pkt.apply, plist)
            got = {uu: {f: getattr(it, f) for f in FIELDS} for uu, it in plist.players_by_uuid.items()}
            if kk != 'ok' or got != ref:
                return dict(confirmed=True, n=n, call='history step %d: %s on %s' % (step, type(a).__name__, u),
                            observed='%s; tracker %r, replay gives %r' % (kk, got.get(u), ref.get(u)))
    # an action that lacks one field (truncated decode): apply raises and the tracker is unchanged
    for missing in ('name', 'properties', 'gamemode', 'ping', 'display_name'):
        n += 1
        plist = PL.PlayerList()
        u = pool[0]
        PL.AddPlayerAction(uuid=u, name='old', properties=[], gamemode=1, ping=2, display_name='d').apply(plist)
        before = {f: getattr(plist.players_by_uuid[u], f) for f in FIELDS}
        a = PL.AddPlayerAction()
        for f, v in dict(uuid=u, name='new', properties=[], gamemode=3, ping=4, display_name=None).items():
            if f != missing:
                setattr(a, f, v)
        kk, v = native_call(a.apply, plist)
        it = plist.players_by_uuid.get(u)
        now = None if it is None else {f: getattr(it, f, '<unset>') for f in FIELDS}
        if kk == 'raise' and now != before:
            return dict(confirmed=True, n=n, call='AddPlayerAction without %r (partly decoded) applied over an existing player' % missing,
                        observed='apply raised %r, but the tracked entry changed from %r to %r' % (v, before, now))
    return dict(confirmed=False, n=n, call='player list histories', observed='conform')


class AbsActions(AbstractSeq):
    def __init__(self, n):
        self.n = n


class PlayerListOrder(Unit):
    """PlayerListItemPacket.apply applies its actions in list order, each exactly once (list of symbolic length)."""
    prop = 'C20'
    name = 'C20.playerlist.order'
    int_mode = 'int'
    functions = (PL_ + 'apply',)

    def setup(self, I):
        keys = loop_keys(raw(PL, 'apply'), PL_ + 'apply', kind=ast.For)
        unit = self

        class Act(object):
            def __init__(self, j):
                self.j = j

            def apply(self, plist):
                I.E.check('packet.actions-in-order', And(unit.count == self.j, plist is unit.plist))
                unit.count = unit.count + 1
        I.loop_specs[keys[0]] = ForSpec('actions', lambda I_, it: it.n, lambda I_, it, j: Act(j),
                                        lambda I_, fr, j: unit.count == j, lambda I_, fr, j: setattr(unit, 'count', j))

    def run(self, I):
        E = I.E
        self.count = 0
        n = E.new_int('n_actions', 0, None)
        pkt = PL()
        pkt.actions = AbsActions(n)
        self.plist = PL.PlayerList()
        I.call(raw(PL, 'apply'), pkt, self.plist)
        E.check('packet.all-actions-once', self.count == n)
        return None

    def replay(self, model, label):
        return replay_playerlist()


# ------------------------------------------------------------------------------------------
class SymArray(object):
    def __init__(self, name, n):
        self.arr = z3.Array(name, z3.IntSort(), z3.IntSort())
        self.n = n

    def __sym_len__(self):
        return self.n

    def __getitem__(self, i):
        it = i.t if isinstance(i, SInt) else z3.IntVal(i)
        return SInt(z3.Select(self.arr, it), 0, 255)

    def __setitem__(self, i, v):
        it = i.t if isinstance(i, SInt) else z3.IntVal(i)
        vt = v.t if isinstance(v, SInt) else z3.IntVal(v)
        self.writes.append(it) if hasattr(self, 'writes') else None
        self.arr = z3.Store(self.arr, it, vt)


MW = 128


class MapPatch(Unit):
    """map.patch: pixel i lands at (off_x + i mod w, off_z + i div w); every other cell is unchanged.  The pixel loop is
    verified by a quantified for-loop invariant for a 128-wide map, every patch width 1..128, symbolic height/offsets/pixels."""
    prop = 'C20'
    name = 'C20.map.patch'
    int_mode = 'int'
    functions = (MP_ + 'apply_to_map',)
    max_paths = 2000
    timeout_ms = 8000
    wall_budget_s = 90

    def setup(self, I):
        from .common import reachable_loops
        from pyvc.values import Unsupported
        keys = reachable_loops(raw(MapPacket, 'apply_to_map'), MapPacket, kind=ast.For, depth=1)
        wkeys = reachable_loops(raw(MapPacket, 'apply_to_map'), MapPacket, kind=ast.While, depth=1)
        if len(keys) + len(wkeys) != 1:
            raise Unsupported('contract does not fit the code any more: apply_to_map has %d pixel loops' % (len(keys) + len(wkeys)))
        unit = self
        if wkeys:
            # the same blit written as `i = 0; while i < count: ...; i += 1`: the position is the loop-carried integer
            from pyvc.loops import LoopSpec

            def the_i(fr):
                names = [k for k, v in fr.locals.items() if k in wspec.live and isinstance(v, (SInt, int)) and not isinstance(v, bool)]
                if len(names) != 1:
                    raise Unsupported('pixel loop: expected exactly one loop-carried integer, found %r' % (names,))
                return names[0]

            def w_inv(I_, fr):
                i = fr.locals[the_i(fr)]
                it = i.t if isinstance(i, SInt) else z3.IntVal(i)
                return And(SBool(unit.view(it)), i >= 0, i <= unit.n)

            def w_havoc(I_, fr):
                unit.mp.arr = z3.Array(I_.E.fresh_name('pixels@head'), z3.IntSort(), z3.IntSort())
                fr.locals[the_i(fr)] = I_.E.new_int('i@head', 0, None)
            wspec = LoopSpec('pixels', w_inv, w_havoc, lambda I_, fr: unit.n - fr.locals[the_i(fr)])
            I.loop_specs[wkeys[0]] = wspec
            return

        def inv(I_, fr, j):
            jt = j.t if isinstance(j, SInt) else z3.IntVal(j)
            return SBool(unit.view(jt))

        def havoc(I_, fr, j):
            if isinstance(j, int) and j == 0:
                return
            unit.mp.arr = z3.Array(I_.E.fresh_name('pixels@head'), z3.IntSort(), z3.IntSort())
        I.loop_specs[keys[0]] = ForSpec('pixels', lambda I_, it: it.n, lambda I_, it, j: j, inv, havoc)

    def view(self, jt):
        """for all cells c: the cell holds pixel ((z-oz)*w + (x-ox)) if that index is < j and (x, z) lies in the patch
        rectangle, else its original content."""
        c = z3.Int('c')
        w, ox, oz = self.w, self.ox.t, self.oz.t
        x, z = c % MW, c / MW
        idx = (z - oz) * w + (x - ox)
        inp = z3.And(x >= ox, x < ox + w, z >= oz, idx < jt, idx >= 0)
        return z3.ForAll([c], z3.Implies(z3.And(c >= 0, c < MW * MW),
                                         z3.Select(self.mp.arr, c) == z3.If(inp, z3.Select(self.px.arr, idx),
                                                                             z3.Select(self.mp0, c))))

    def run(self, I):
        E = I.E
        self.w = 1 + E.fork(MW, 'patch-width')
        h = E.new_int('patch-height', 0, MW)
        self.ox = E.new_int('off_x', 0, MW - self.w)
        self.oz = E.new_int('off_z', 0, MW)
        E.assume(self.oz + h <= MW)
        n = h * self.w
        self.n = n
        self.px = SymArray('patch', n)
        self.mp = SymArray('map', MW * MW)
        self.mp0 = self.mp.arr
        pkt = MapPacket()
        mp = MapPacket.Map.__new__(MapPacket.Map)
        icons_old = ['old-icon']
        vals = dict(map_id=E.new_int('map_id'), scale=E.new_int('scale'), icons=['i1', 'i2'], width=self.w, height=h,
                    offset=(self.ox, self.oz), pixels=self.px, is_tracking_position=E.new_bool('tracking'),
                    is_locked=E.new_bool('locked'))
        for k, v in vals.items():
            setattr(pkt, k, v)
        mp.id, mp.scale, mp.icons, mp.width, mp.height, mp.pixels = 0, 0, icons_old, MW, MW, self.mp
        mp.is_tracking_position, mp.is_locked = True, False
        try:
            I.call(raw(MapPacket, 'apply_to_map'), pkt, mp)
        except PyRaise as e:
            E.check('map.no-raise', False, note='%r' % (e.exc,))
            return None
        E.check('map.patch', SBool(self.view(n.t if isinstance(n, SInt) else z3.IntVal(n))),
                note='pixel i at (off_x + i mod w, off_z + i div w); all other cells unchanged')
        E.check('map.fields', mp.id is vals['map_id'] and mp.scale is vals['scale'] and mp.icons is icons_old and
                mp.icons == ['i1', 'i2'] and mp.is_tracking_position is vals['is_tracking_position'] and
                mp.is_locked is vals['is_locked'] and mp.width == MW, note='id/scale/icons/flags copied, icons in place')
        return None

    def replay(self, model, label):
        return replay_map()

    def bounded(self, rng, tier):
        rp = replay_map(rng)
        return dict(name='C20.map.patches', evaluations=rp['n'], bound='seeded patches (all widths 1..128 incl. other map widths 16/64) '
                    'against a reference blit', failures=[dict(call=rp['call'], observed=rp['observed'], witness='map-patch')]
                    if rp['confirmed'] else [])


def replay_map(rng=None):
    import random
    rng = rng or random.Random(4)
    n = 0
    for mw in (128, 16, 64):
        for _ in range(60):
            n += 1
            w = rng.randrange(1, mw + 1)
            h = rng.randrange(0, mw + 1)
            ox, oz = rng.randrange(0, mw - w + 1), rng.randrange(0, mw - h + 1)
            pkt = MapPacket()
            pkt.map_id, pkt.scale, pkt.icons, pkt.width, pkt.height = 5, 1, [], w, h
            npx = w * h
            if h and rng.random() < 0.4:
                npx -= rng.randrange(1, w) if w > 1 else 0       # a last row that is not full: pixel i still lands at (i mod w, i div w)
            pkt.offset, pkt.pixels = (ox, oz), bytearray(rng.getrandbits(8) for _ in range(npx))
            pkt.is_tracking_position, pkt.is_locked = True, False
            m = MapPacket.Map(5, width=mw, height=mw)
            m.pixels = bytearray(rng.getrandbits(8) for _ in range(mw * mw))
            ref = bytearray(m.pixels)
            for i, p in enumerate(pkt.pixels):
                ref[(ox + i % w) + mw * (oz + i // w)] = p
            k, v = native_call(pkt.apply_to_map, m)
            if k != 'ok' or m.pixels != ref:
                return dict(confirmed=True, n=n, call='%d pixels, %d to a row, at (%d,%d) on a %d-wide map' % (npx, w, ox, oz, mw),
                            observed='%s; %s' % (k, 'the map now has %d cells instead of %d' % (len(m.pixels), len(ref))
                                                if len(m.pixels) != len(ref) else 'pixels differ from the reference blit'))
    return dict(confirmed=False, n=n, call='map patches', observed='conform')


class MapSet(Unit):
    prop = 'C20'
    name = 'C20.map.set'
    int_mode = 'int'
    functions = (MP_ + 'apply_to_map_set', MP_ + 'Map.__init__', MP_ + 'MapSet.__init__')

    def run(self, I):
        E = I.E
        mid, other = E.new_int('map_id'), E.new_int('other_id')
        E.assume(mid != other)
        existing = MapPacket.Map(0) if E.fork(2, 'known-map') else None
        oth = MapPacket.Map(1)
        m = TwoPointMap(I, mid, existing, other, oth)
        ms = MapPacket.MapSet()
        ms.maps_by_id = m
        calls = []
        I.override(raw(MapPacket, 'apply_to_map'), lambda I_, self_, mp: calls.append(mp), kind='contract')
        pkt = MapPacket()
        pkt.map_id = mid
        I.call(raw(MapPacket, 'apply_to_map_set'), pkt, ms)
        cur = m.e[0]
        if existing is None:
            E.check('mapset.creates-default', type(cur) is MapPacket.Map and cur.id is mid and cur.width == 128 and
                    cur.height == 128 and len(cur.pixels) == 128 * 128 and not any(cur.pixels) and cur.icons == [],
                    note='an unknown map id creates a default 128x128 map first')
        else:
            E.check('mapset.reuses', cur is existing)
            probe = MapPacket.Map(2)
            shared = sorted(k for k, v in _state_of(cur).items() if isinstance(v, (list, bytearray, dict, set))
                            and any(v is w for w in _state_of(probe).values()))
            E.check('mapset.fresh-map-owns-its-state', not shared, note='a map created for an unknown id shares no mutable state '
                    'with any other map (shared: %s); otherwise a packet for one id changes the state recorded for another' % shared)
        E.check('mapset.applies-once', calls == [cur])
        E.check('mapset.frame', m.e[1] is oth and m.other_writes == 0)
        return None

    def replay(self, model, label):
        ms = MapPacket.MapSet()
        p = MapPacket()
        p.map_id, p.scale, p.icons, p.width, p.height, p.offset, p.pixels = 3, 0, [], 0, 0, None, None
        p.is_tracking_position, p.is_locked = True, False
        k, v = native_call(p.apply_to_map_set, ms)
        bad = k != 'ok' or list(ms.maps_by_id) != [3] or ms.maps_by_id[3].id != 3
        if not bad:
            return replay_map_history()
        return dict(confirmed=bad, call='apply_to_map_set on an empty MapSet', observed='%s %r' % (k, ms.maps_by_id))

    def bounded(self, rng, tier):
        rp = replay_map_history(rng, rounds=40 if tier == 'quick' else 200)
        return dict(name='C20.map.histories', evaluations=rp['n'], bound='seeded histories of up to 40 map packets over a pool of 3 map '
                    'ids (icons, scale, flags, small patches), MapSet state compared with an in-order reference replay after every packet',
                    failures=[dict(call=rp['call'], observed=rp['observed'], witness='map-history')] if rp['confirmed'] else [])


def _state_of(obj):
    out = dict(getattr(obj, '__dict__', {}))
    for c in type(obj).__mro__:
        for k in getattr(c, '__slots__', ()):
            if hasattr(obj, k):
                out[k] = getattr(obj, k)
    return out


def replay_map_history(rng=None, rounds=40):
    """Histories over a small pool of map ids against a reference that replays them in order (each id owns its own record)."""
    import random
    rng = rng or random.Random(11)
    n = 0
    for _ in range(rounds):
        ms = MapPacket.MapSet()
        ref = {}
        hist = []
        for step in range(rng.randrange(1, 41)):
            n += 1
            p = MapPacket()
            p.map_id, p.scale = rng.choice((1, 2, 7)), rng.randrange(0, 5)
            p.icons = [MapPacket.MapIcon(rng.randrange(0, 10), rng.randrange(0, 16), (rng.randrange(-128, 128), rng.randrange(-128, 128)))
                       for _i in range(rng.randrange(0, 3))]
            p.is_tracking_position, p.is_locked = rng.random() < 0.5, rng.random() < 0.5
            if rng.random() < 0.5:
                w, h = rng.randrange(1, 5), rng.randrange(1, 5)
                p.width, p.height, p.offset = w, h, (rng.randrange(0, 128 - w), rng.randrange(0, 128 - h))
                p.pixels = bytearray(rng.getrandbits(8) for _i in range(w * h))
            else:
                p.width, p.height, p.offset, p.pixels = 0, 0, None, None
            hist.append('id %d, %d icons, %s' % (p.map_id, len(p.icons), 'patch %dx%d' % (p.width, p.height) if p.pixels else 'no pixels'))
            r = ref.setdefault(p.map_id, dict(px=bytearray(128 * 128)))
            r.update(scale=p.scale, icons=list(p.icons), tracking=p.is_tracking_position, locked=p.is_locked)
            if p.pixels is not None:
                for i, b in enumerate(p.pixels):
                    r['px'][(p.offset[0] + i % p.width) + 128 * (p.offset[1] + i // p.width)] = b
            k, v = native_call(p.apply_to_map_set, ms)
            got = None
            if k == 'ok':
                try:
                    got = {i: dict(px=bytearray(m.pixels), scale=m.scale, icons=list(m.icons), tracking=m.is_tracking_position,
                                   locked=m.is_locked) for i, m in ms.maps_by_id.items()}
                except Exception as e:      # noqa
                    k = 'state unreadable: %r' % (e,)
            if k != 'ok' or got != ref:
                wrong = sorted(i for i in ref if got is None or got.get(i) != ref[i])
                what = [f for i in wrong[:1] for f in ref[i] if got is None or i not in got or got[i][f] != ref[i][f]]
                return dict(confirmed=True, n=n, call='map packets in order: ' + '; '.join(hist[-4:]) + ' (last of %d)' % len(hist),
                            observed='%s; the record of map id %s differs from an in-order replay in %s' % (k, wrong, what))
    return dict(confirmed=False, n=n, call='map histories', observed='conform')


class PacketValues(Unit):
    """Packet(**values) / set_values(**values): every given attribute holds exactly the given value afterwards - also None,
    0, '', False, [] - and set_values returns the packet.  The tracker packets are built this way; a value that is silently
    not stored (pixels=None on a re-used MapPacket) makes the tracker apply stale state."""
    prop = 'C20'
    name = 'C20.packet.set_values'
    int_mode = 'int'
    functions = ('minecraft.networking.packets.packet.Packet.__init__', 'minecraft.networking.packets.packet.Packet.set_values')

    def run(self, I):
        from minecraft.networking.packets import Packet
        E = I.E
        vals = dict(map_id=E.new_int('a'), scale=None, icons=[], width=0, is_locked=False, pixels=None, offset=None,
                    note='', name=E.new_str('s'))
        cls = (Packet, MapPacket, PlayerListItemPacket)[E.fork(3, 'class')]
        try:
            if E.fork(2, 'how') == 0:
                p = I.call(cls, None, **vals)
            else:
                p = I.call(cls)
                for k in vals:
                    setattr(p, k, 'stale')
                r = I.call(I.getattr_(p, 'set_values'), **vals)
                E.check('set_values.returns-self', r is p)
        except PyRaise as e:
            E.check('set_values.no-raise', False, note='%r' % (e.exc,))
            return None
        wrong = sorted(k for k, v in vals.items() if getattr(p, k, 'missing') is not v)
        E.check('set_values.stores-every-value', not wrong, note='attributes not holding the given value: %s' % wrong)
        return None

    def replay(self, model, label):
        from minecraft.networking.packets import Packet
        vals = dict(map_id=int(model.get('a', 0)) if model else 3, scale=None, icons=[], width=0, is_locked=False, pixels=None,
                    offset=None, note='', name='n')
        for cls in (Packet, MapPacket, PlayerListItemPacket):
            for how in (0, 1):
                if how == 0:
                    k, p = native_call(cls, None, **vals)
                else:
                    p = cls()
                    for a in vals:
                        setattr(p, a, 'stale')
                    k, r = native_call(p.set_values, **vals)
                    if k == 'ok' and r is not p:
                        return dict(confirmed=True, call='%s().set_values(...)' % cls.__name__, observed='returned %r' % (r,))
                if k != 'ok':
                    return dict(confirmed=True, call='%s(**values)' % cls.__name__, observed='%s %r' % (k, p))
                wrong = sorted(a for a, v in vals.items() if getattr(p, a, 'missing') is not v)
                if wrong:
                    return dict(confirmed=True, call='%s with %s' % (('%s(**values)' if how == 0 else '%s().set_values(**values) over '
                                'earlier values') % cls.__name__, ', '.join('%s=%r' % (a, vals[a]) for a in wrong)),
                                observed='afterwards %s' % ', '.join('%s is %r' % (a, getattr(p, a, 'missing')) for a in wrong))
        return dict(confirmed=False, call='Packet values', observed='conform')

    def bounded(self, rng, tier):
        rp = self.replay(None, '')
        return dict(name='C20.packet.set_values.native', evaluations=6, bound='3 packet classes x constructor / set_values, 9 values incl. '
                    'None, 0, "", False, []', failures=[dict(call=rp['call'], observed=rp['observed'], witness='set-values')]
                    if rp['confirmed'] else [])


def units(tier):
    return [PlayerListStep(), PlayerListOrder(), MapPatch(), MapSet(), PacketValues()]
