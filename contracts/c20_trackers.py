"""C20 (part 2): player-list and map trackers - placeholder, filled in below."""


def units(tier):
    return []
