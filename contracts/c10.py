"""C10 — login completes correctly for every order of optional server steps.

Per-step contracts of LoginReactor.react over a ghost event trace; the history quantifier (any order of
encrypt / compress / plugin* / success | disconnect) is handled by the invariant "the framing and cipher mode of
the connection is the mode announced by the packets reacted to so far", which every step is shown to
preserve (each step is machine-checked; the induction over the script is the argument of DESIGN.md).
Under contract: LoginReactor.react, encryption.encrypt_token_and_secret, generate_shared_secret,
create_AES_cipher, Connection.write_packet (force), Connection._write_packet, Connection._version_mismatch.
"""
import json
import os
import re
import threading
import types
from collections import deque

import z3
from cryptography.hazmat.primitives.ciphers import Cipher, algorithms, modes
from cryptography.hazmat.primitives import serialization
from cryptography.hazmat.primitives.asymmetric import padding as asym_padding

import minecraft
from minecraft.networking import connection as conn_mod, encryption
from minecraft.networking.connection import Connection, ConnectionContext, LoginReactor, PlayingReactor
from minecraft.networking.packets import clientbound, serverbound, Packet
from minecraft.exceptions import LoginDisconnect, VersionMismatch

from pyvc.driver import Unit
from pyvc.values import SInt, SBool, SStr, SBytes, Blob, And, Or, Not, Implies, Unsupported, is_symbolic
from pyvc.interp import PyRaise
from pyvc.models import GhostLock
from pyvc.harness import native_call
from .common import harness_connection, lock_name, native_connection, raw
from .codec import _key_of

ASSUMPTIONS = [
    'os.urandom(16): 16 fresh bytes per call',
    'RSA PKCS#1 v1.5 encrypt under the DER-loaded key is an uninterpreted function rsa(key, plaintext) that the key holder '
    'inverts; AES/CFB8 objects are opaque constructors (what they compute: C18 bounded part)',
    'generate_verification_hash is used through its C17 contract (uninterpreted function of its three arguments)',
    'json.loads: explored by shape (non-JSON, object with string text, object with non-string text, object without '
    'text, array, string, number, null); re.match of the "Outdated ..." pattern via z3 regular expressions',
    'the induction over the order of login steps is an argument over the per-step obligations, not machine-checked',
]
L_ = 'minecraft.networking.connection.LoginReactor.react'


class GhostCipher(object):
    def __init__(self, alg, mode):
        self.alg, self.mode = alg, mode
        self.ctxs = []

    def encryptor(self):
        c = ('enc', self)
        self.ctxs.append(c)
        return c

    def decryptor(self):
        c = ('dec', self)
        self.ctxs.append(c)
        return c


class GhostPubKey(object):
    def __init__(self, der):
        self.der = der

    def encrypt(self, data, pad):
        return SBytes([Blob(('rsa', _key_of(self.der), type(pad).__name__, _key_of(SBytes.of(data))), 128)])


class Trace(object):
    def __init__(self):
        self.ev = []


def install_crypto(I, tr):
    def urandom(I_, n):
        b = I_.E.new_blob('urandom', n)
        tr.ev.append(('urandom', n, b))
        return SBytes([b])
    I.override(os.urandom, urandom, kind='assumed')
    I.override(serialization.load_der_public_key, lambda I_, der, *a: GhostPubKey(SBytes.of(der)), kind='assumed')
    I.global_overrides[('minecraft.networking.encryption', 'load_der_public_key')] = serialization.load_der_public_key
    I.override(algorithms.AES, lambda I_, key: ('AES', key), kind='assumed')
    I.override(modes.CFB8, lambda I_, iv: ('CFB8', iv), kind='assumed')
    I.override(Cipher, lambda I_, alg, mode, backend=None: GhostCipher(alg, mode), kind='assumed')
    I.override(encryption.generate_verification_hash,
               lambda I_, sid, secret, key: ('HASH', sid, secret, key), kind='contract')


class FakeToken(object):
    def __init__(self, tr):
        self.tr = tr

    fail_with = None            # fault at one point: the FIRST join is answered with an HTTP error by the session service

    def join(self, server_id):
        self.tr.ev.append(('join', server_id))
        if self.fail_with is not None and sum(1 for e in self.tr.ev if e[0] == 'join') == 1:
            from minecraft.exceptions import YggdrasilError
            raise PyRaise(YggdrasilError(status_code=self.fail_with, yggdrasil_error='ServiceUnavailable',
                                         yggdrasil_message='try again'))


def make_login(I, tr, token=True, proto=757):
    I.override(threading.RLock, lambda I_: GhostLock(), kind='assumed')
    conn = harness_connection()
    ctx = ConnectionContext(protocol_version=proto)
    lock = GhostLock()
    sock, fobj = types.SimpleNamespace(name='raw-socket'), types.SimpleNamespace(name='raw-file')
    conn.__dict__[lock_name()] = lock
    conn.__dict__.update(context=ctx, socket=sock, file_object=fobj, _outgoing_packet_queue=deque(),
                         early_outgoing_packet_listeners=[], outgoing_packet_listeners=[],
                         options=types.SimpleNamespace(compression_enabled=False, compression_threshold=-1, address='a', port=1),
                         auth_token=FakeToken(tr) if token else None, connected=True, spawned=False)
    r = I.call(LoginReactor, conn)
    conn.__dict__['reactor'] = r

    def pwrite(I_, pkt, socket, threshold=None):
        tr.ev.append(('wire', pkt, socket, threshold, lock.depth))
    I.override(raw(Packet, 'write'), pwrite, kind='contract')
    return conn, r, sock, fobj


class EncStep(Unit):
    prop = 'C10'
    name = 'C10.enc.step'
    functions = (L_ + ' [encryption request]', 'minecraft.networking.encryption.encrypt_token_and_secret',
                 'minecraft.networking.encryption.generate_shared_secret', 'minecraft.networking.encryption.create_AES_cipher',
                 'minecraft.networking.connection.Connection.write_packet', 'minecraft.networking.connection.Connection._write_packet',
                 'minecraft.networking.encryption.EncryptedSocketWrapper.__init__',
                 'minecraft.networking.encryption.EncryptedFileObjectWrapper.__init__')
    uses = ('C17 generate_verification_hash contract',)

    def run(self, I):
        E = I.E
        tr = Trace()
        install_crypto(I, tr)
        token = bool(E.fork(2, 'auth-token'))
        conn, r, sock, fobj = make_login(I, tr, token)
        pkt = clientbound.login.EncryptionRequestPacket()
        sid = E.new_str('server_id')
        pub = SBytes([E.new_blob('public_key')])
        vt = SBytes([E.new_blob('verify_token')])
        pkt.server_id, pkt.public_key, pkt.verify_token = sid, pub, vt
        before_opts = dict(conn.options.__dict__)
        fault = (None, 503, 403)[E.fork(3, 'session-service-answer')] if token else None
        if fault is not None:
            conn.auth_token.fail_with = fault
        try:
            I.call(I.getattr_(r, 'react'), pkt)
        except PyRaise as e:
            if fault is None:
                E.check('enc.no-raise', False, note='%r' % (e.exc,))
                return None
        ev = tr.ev
        if fault is not None:
            # whatever the client does about a failed join (give up, try again): EVERY request to the session service carries
            # the hash of (server id, THE secret sent to the server, the packet's key) - C17's "the server hash sent ..."
            # (seeded change C17-r10: the retry after a 503 sends the raw server id)
            draws = [e for e in ev if e[0] == 'urandom']
            for j in [e for e in ev if e[0] == 'join']:
                a = j[1]
                E.check('enc.join-argument-on-every-attempt', isinstance(a, tuple) and len(a) == 4 and a[0] == 'HASH' and a[1] is sid
                        and len(draws) == 1 and _same(a[2], SBytes([draws[0][2]])) and _same(a[3], pub),
                        note='join attempt after the service answered %d was given %r' % (fault, a if not isinstance(a, tuple) else a[0]))
            return None
        draws = [e for e in ev if e[0] == 'urandom']
        E.check('enc.one-fresh-secret', len(draws) == 1 and draws[0][1] == 16, note='exactly one os.urandom(16) per encryption request')
        if len(draws) != 1:
            return None
        secret = SBytes([draws[0][2]])
        online = I.truth(sid != '-')
        joins = [e for e in ev if e[0] == 'join']
        wires = [e for e in ev if e[0] == 'wire']
        if online and token:
            E.check('enc.join', len(joins) == 1 and joins[0][1][0] == 'HASH' and joins[0][1][1] is sid and
                    _same(joins[0][1][2], secret) and _same(joins[0][1][3], pub),
                    note='join(hash(server_id, the SAME secret, the packet\'s public key)) - C17 obligation "use"')
        else:
            E.check('enc.no-join', joins == [], note='offline server id "-" or no token: the session service is not contacted')
        E.check('enc.one-response', len(wires) == 1)
        if len(wires) != 1:
            return None
        _, resp, wsock, thr, depth = wires[0]
        rsa = lambda x: GhostPubKey(pub).encrypt(x, asym_padding.PKCS1v15())
        E.check('enc.response-fields', And(type(resp) is serverbound.login.EncryptionResponsePacket,
                                           _same(resp.shared_secret, rsa(secret)), _same(resp.verify_token, rsa(vt))),
                note='shared_secret = RSA(secret), verify_token = RSA(token) under the packet\'s key, PKCS#1 v1.5 (no swap)')
        E.check('enc.response-unencrypted-locked', wsock is sock and depth >= 1 and thr is None,
                note='forced write under the lock through the UNWRAPPED socket, before the cipher is installed')
        E.check('enc.join-before-response', not joins or ev.index(joins[0]) < ev.index(wires[0]))
        E.check('enc.nothing-queued', len(conn._outgoing_packet_queue) == 0)
        ws, wf = conn.socket, conn.file_object
        ok_types = type(ws) is encryption.EncryptedSocketWrapper and type(wf) is encryption.EncryptedFileObjectWrapper
        E.check('enc.wrappers-installed', ok_types)
        if ok_types:
            enc, dec, dec2 = ws.encryptor, ws.decryptor, wf.decryptor
            cipher = enc[1] if isinstance(enc, tuple) else None
            E.check('enc.wrappers-wrap-originals', ws.actual_socket is sock and wf.actual_file_object is fobj)
            E.check('enc.cipher-params', isinstance(cipher, GhostCipher) and cipher.alg[0] == 'AES' and _same(cipher.alg[1], secret)
                    and cipher.mode[0] == 'CFB8' and _same(cipher.mode[1], secret),
                    note='AES keyed by the secret, CFB8 with IV = the same secret')
            E.check('enc.directions', isinstance(enc, tuple) and enc[0] == 'enc' and dec[0] == 'dec' and dec[1] is cipher and
                    dec2 is dec, note='one cipher object: encryptor for sending, ONE decryptor shared by recv and the file object')
        E.check('enc.frame', conn.options.__dict__ == before_opts and type(conn.reactor) is LoginReactor)
        return None

    def replay(self, model, label):
        return replay_login_live(label)

    def bounded(self, rng, tier):
        rp = replay_login_live('all')
        return dict(name='C10.enc.real-crypto', evaluations=rp.get('n', 1),
                    failures=[dict(call=rp['call'], observed=rp['observed'], witness='login-enc')] if rp['confirmed'] else [],
                    bound='real RSA-1024 key + real AES: the reaction against an independent decryption of the response')


def _same(a, b):
    try:
        r = SBytes.of(a) == SBytes.of(b)
    except Exception:
        return False
    return r


def replay_login_live(label):
    """LoginReactor.react(encryption request) on real crypto: decrypt the response with the private key, then check that
    the installed wrappers speak AES-CFB8 keyed by that secret."""
    from cryptography.hazmat.primitives.asymmetric import rsa
    from cryptography.hazmat.backends import default_backend
    key = rsa.generate_private_key(public_exponent=65537, key_size=1024, backend=default_backend())
    der = key.public_key().public_bytes(serialization.Encoding.DER, serialization.PublicFormat.SubjectPublicKeyInfo)
    sent = []

    class Sock(object):
        def send(self, d):
            sent.append(bytes(d))
    joined = []
    conn = native_connection()
    conn.context = ConnectionContext(protocol_version=757)
    setattr(conn, lock_name(), threading.RLock())
    conn.socket, conn.file_object = Sock(), types.SimpleNamespace()
    conn._outgoing_packet_queue = deque()
    conn.early_outgoing_packet_listeners, conn.outgoing_packet_listeners = [], []
    conn.options = types.SimpleNamespace(compression_enabled=False, compression_threshold=-1)
    conn.auth_token = types.SimpleNamespace(join=lambda h: joined.append(h))
    r = LoginReactor(conn)
    pkt = clientbound.login.EncryptionRequestPacket()
    pkt.server_id, pkt.public_key, pkt.verify_token = 'srv', der, b'\x01\x02\x03\x04'
    k, v = native_call(r.react, pkt, timeout=20)
    bad = None
    if k != 'ok':
        bad = '%s %r' % (k, v)
    elif not 1 <= len(sent) <= 2:
        bad = '%d sends for the response' % len(sent)
    else:
        from minecraft.networking.packets import PacketBuffer
        from minecraft.networking.types import VarInt
        try:
            buf = PacketBuffer()
            buf.send(b''.join(sent))             # the frame, in however many sends it went out
            buf.reset_cursor()
            VarInt.read(buf)                     # frame length
            VarInt.read(buf)                     # packet id
            resp = serverbound.login.EncryptionResponsePacket(conn.context)
            resp.read(buf)
            secret = key.decrypt(resp.shared_secret, asym_padding.PKCS1v15())
            token = key.decrypt(resp.verify_token, asym_padding.PKCS1v15())
        except Exception as e:
            secret = token = None
            bad = 'the encryption response cannot be read in the clear / decrypted by the key holder: %r' % (e,)
        if bad:
            pass
        elif token != b'\x01\x02\x03\x04' or len(secret) != 16:
            bad = 'key holder recovers token %r and a %d-byte secret' % (token, len(secret))
        elif joined != [encryption.generate_verification_hash('srv', secret, der)]:
            bad = 'join hash does not use the transmitted secret'
        else:
            ref = Cipher(algorithms.AES(secret), modes.CFB8(secret), backend=default_backend())
            conn.socket.send(b'hello world')
            if sent[-1] != ref.encryptor().update(b'hello world'):
                bad = 'bytes after the swap are not AES-CFB8(secret, secret) of the plaintext'
            else:
                # the inbound direction is ONE stream, whichever of file_object.read / socket.recv takes the bytes
                plain = bytes(range(200))
                incoming = ref.encryptor().update(b'') or b''
                wire_in = Cipher(algorithms.AES(secret), modes.CFB8(secret), backend=default_backend()).encryptor().update(plain)
                import io
                raw_in = io.BytesIO(wire_in)
                conn.file_object.actual_file_object = raw_in
                conn.socket.actual_socket.recv = raw_in.read
                got = conn.file_object.read(41) + conn.socket.recv(100) + conn.file_object.read(59)
                if got != plain:
                    bad = 'inbound stream read through file_object.read and socket.recv does not decrypt as one stream'
    if bad is None:
        # fault: the session service answers the first join with 503 (then 204).  Whether or not the client tries again,
        # every attempt must carry the hash of (server id, the secret it goes on to send, the key)
        from minecraft.exceptions import YggdrasilError
        for status in (503, 502, 403):
            attempts, sent2 = [], []

            def join(h, attempts=attempts, status=status):
                attempts.append(h)
                if len(attempts) == 1:
                    raise YggdrasilError(status_code=status, yggdrasil_error='E', yggdrasil_message='m')

            class Sock2(object):
                def send(self, d):
                    sent2.append(bytes(d))
            conn2 = native_connection()
            conn2.context = ConnectionContext(protocol_version=757)
            setattr(conn2, lock_name(), threading.RLock())
            conn2.socket, conn2.file_object = Sock2(), types.SimpleNamespace()
            conn2._outgoing_packet_queue = deque()
            conn2.early_outgoing_packet_listeners, conn2.outgoing_packet_listeners = [], []
            conn2.options = types.SimpleNamespace(compression_enabled=False, compression_threshold=-1)
            conn2.auth_token = types.SimpleNamespace(join=join)
            pkt2 = clientbound.login.EncryptionRequestPacket()
            pkt2.server_id, pkt2.public_key, pkt2.verify_token = 'srv', der, b'\x01\x02\x03\x04'
            k, v = native_call(LoginReactor(conn2).react, pkt2, timeout=20)
            if len(set(attempts)) > 1 or any(not isinstance(h, str) or h == 'srv' for h in attempts):
                bad = 'session service answered the first join with %d: the attempts carried %r (the raw server id is %r)' \
                      % (status, attempts, 'srv')
                break
    if bad is None:
        # the server id is hashed as the server sent it: ids with surrounding white space, empty, non-ASCII; only the exact
        # id '-' means offline mode (seeded change C17-r16: the id stripped before the comparison and the hash)
        from minecraft.networking.packets import PacketBuffer
        from minecraft.networking.types import VarInt
        for sid in (' lobby', '5b1f3a6c9d2e4f70 ', '\t-\n', '', '\u00e9\u4e16', '-'):
            joined3, sent3 = [], []

            class Sock3(object):
                def send(self, d):
                    sent3.append(bytes(d))
            conn3 = native_connection()
            conn3.context = ConnectionContext(protocol_version=757)
            setattr(conn3, lock_name(), threading.RLock())
            conn3.socket, conn3.file_object = Sock3(), types.SimpleNamespace()
            conn3._outgoing_packet_queue = deque()
            conn3.early_outgoing_packet_listeners, conn3.outgoing_packet_listeners = [], []
            conn3.options = types.SimpleNamespace(compression_enabled=False, compression_threshold=-1)
            conn3.auth_token = types.SimpleNamespace(join=lambda h, joined3=joined3: joined3.append(h))
            pkt3 = clientbound.login.EncryptionRequestPacket()
            pkt3.server_id, pkt3.public_key, pkt3.verify_token = sid, der, b'\x01\x02\x03\x04'
            k, v = native_call(LoginReactor(conn3).react, pkt3, timeout=20)
            try:
                buf = PacketBuffer()
                buf.send(b''.join(sent3))
                buf.reset_cursor()
                VarInt.read(buf)
                VarInt.read(buf)
                resp = serverbound.login.EncryptionResponsePacket(conn3.context)
                resp.read(buf)
                secret = key.decrypt(resp.shared_secret, asym_padding.PKCS1v15())
            except Exception as e:      # noqa
                bad = 'server id %r: %s %r, response unreadable (%r)' % (sid, k, v, e)
                break
            want = [] if sid == '-' else [encryption.generate_verification_hash(sid, secret, der)]
            if k != 'ok' or joined3 != want:
                bad = ('server id %r: the session service was given %r, the hash of the id as sent, the secret and the key is %r'
                       % (sid, joined3, want))
                break
    return dict(confirmed=bad is not None, n=1, call='LoginReactor.react(encryption request) with a real RSA-1024 key', observed=bad or 'conforms')


class RsaHelperCall(Unit):
    """encrypt_token_and_secret as a public function of its own: (encrypted token, encrypted secret) under the given key,
    PKCS#1 v1.5 - whether the three documented parameters are passed by position or BY NAME (seeded change C18-r12:
    parameters and results reordered consistently, so that only keyword callers get the two ciphertexts swapped)."""
    prop = 'C18'
    name = 'C18.rsa.helper-call'
    functions = ('minecraft.networking.encryption.encrypt_token_and_secret',)

    def run(self, I):
        E = I.E
        tr = Trace()
        install_crypto(I, tr)
        pub = SBytes([E.new_blob('public_key')])
        tok = SBytes([E.new_blob('verify_token')])
        sec = SBytes([E.new_blob('secret', 16)])
        by_name = bool(E.fork(2, 'keyword-call'))
        try:
            if by_name:
                r = I.call(encryption.encrypt_token_and_secret, pubkey=pub, verification_token=tok, shared_secret=sec)
            else:
                r = I.call(encryption.encrypt_token_and_secret, pub, tok, sec)
        except PyRaise as e:
            E.check('rsa.helper.no-raise', False, note='%r' % (e.exc,))
            return None
        rsa = lambda x: GhostPubKey(pub).encrypt(x, asym_padding.PKCS1v15())
        E.check('rsa.helper.result', isinstance(r, tuple) and len(r) == 2 and _same(r[0], rsa(tok)) and _same(r[1], rsa(sec)),
                note='(RSA(token), RSA(secret)) in that order, %s' % ('parameters passed by their documented names' if by_name
                                                                        else 'parameters passed by position'))
        return None

    def replay(self, model, label):
        return replay_rsa_helper()

    def bounded(self, rng, tier):
        rp = replay_rsa_helper()
        return dict(name='C18.rsa.helper.real-key', evaluations=rp['n'], bound='positional and keyword call with a real RSA-1024 key, '
                    'both ciphertexts decrypted by the key holder', failures=[dict(call=rp['call'], observed=rp['observed'],
                                                                                  witness='rsa-helper')] if rp['confirmed'] else [])


def replay_rsa_helper():
    from cryptography.hazmat.primitives.asymmetric import rsa
    from cryptography.hazmat.backends import default_backend
    key = rsa.generate_private_key(public_exponent=65537, key_size=1024, backend=default_backend())
    der = key.public_key().public_bytes(serialization.Encoding.DER, serialization.PublicFormat.SubjectPublicKeyInfo)
    tok, sec = b'\x01\x02\x03\x04', bytes(range(16))
    n = 0
    for how in ('position', 'name'):
        n += 1
        if how == 'position':
            k, r = native_call(encryption.encrypt_token_and_secret, der, tok, sec)
        else:
            k, r = native_call(encryption.encrypt_token_and_secret, pubkey=der, verification_token=tok, shared_secret=sec)
        try:
            got = (key.decrypt(r[0], asym_padding.PKCS1v15()), key.decrypt(r[1], asym_padding.PKCS1v15())) if k == 'ok' else None
        except Exception as e:      # noqa
            got = repr(e)
        if got != (tok, sec):
            return dict(confirmed=True, n=n, call='encrypt_token_and_secret with the parameters passed by %s' % how,
                        observed='%s; the key holder decrypts the returned pair to %r, expected (token, secret) = %r' % (k, got, (tok, sec)))
    return dict(confirmed=False, n=n, call='encrypt_token_and_secret', observed='conforms')


class SimpleSteps(Unit):
    """compress.step, plugin.step, success.step and the frame condition for every other packet."""
    prop = 'C10'
    name = 'C10.steps'
    functions = (L_ + ' [set compression, plugin request, login success, others]',
                 'minecraft.networking.connection.Connection.write_packet')

    def run(self, I):
        E = I.E
        tr = Trace()
        conn, r, sock, fobj = make_login(I, tr, True, proto=(757, 385, 47)[E.fork(3, 'protocol')])
        kind = ('compress', 'plugin', 'success', 'other-known', 'generic')[E.fork(5, 'packet')]
        before = dict(conn.__dict__)
        before_opts = dict(conn.options.__dict__)
        if kind == 'compress':
            pkt = clientbound.login.SetCompressionPacket()
            thr = E.new_int('threshold')
            pkt.threshold = thr
        elif kind == 'plugin':
            pkt = clientbound.login.PluginRequestPacket()
            mid = E.new_int('message_id')
            pkt.message_id, pkt.channel, pkt.data = mid, E.new_str('channel'), SBytes([E.new_blob('data')])
        elif kind == 'success':
            pkt = clientbound.login.LoginSuccessPacket()
            pkt.UUID, pkt.Username = E.new_str('uuid'), E.new_str('user')
        elif kind == 'other-known':
            pkt = clientbound.play.KeepAlivePacket()
            pkt.keep_alive_id = E.new_int('id')
        else:
            pkt = Packet()
            pkt.id = E.new_int('pid', 0, 255)
        try:
            I.call(I.getattr_(r, 'react'), pkt)
        except PyRaise as e:
            E.check('step.no-raise', False, note='%s: %r' % (kind, e.exc))
            return None
        q = list(conn._outgoing_packet_queue)
        d = conn.__dict__
        same_attrs = all(d[k] is before[k] for k in before if k not in ('reactor',))
        if kind == 'compress':
            E.check('compress.step', And(I.equals(conn.options.compression_threshold, thr), conn.options.compression_enabled is True),
                    note='threshold := the announced one (every integer), enabled := True')
            E.check('compress.frame', same_attrs and d['reactor'] is before['reactor'] and q == [] and tr.ev == [] and
                    {k: v for k, v in conn.options.__dict__.items() if not k.startswith('compression')} ==
                    {k: v for k, v in before_opts.items() if not k.startswith('compression')})
        elif kind == 'plugin':
            E.check('plugin.step', len(q) == 1 and type(q[0]) is serverbound.login.PluginResponsePacket and
                    q[0].message_id is mid and q[0].successful is False and q[0].context is conn.context,
                    note='exactly one PluginResponse(message_id, successful=False) appended to the queue')
            E.check('plugin.frame', same_attrs and d['reactor'] is before['reactor'] and conn.options.__dict__ == before_opts and tr.ev == [])
        elif kind == 'success':
            E.check('success.step', type(d['reactor']) is PlayingReactor and d['reactor'].connection is conn,
                    note='the play reactor, built for the same connection/context')
            E.check('success.frame', same_attrs and q == [] and conn.options.__dict__ == before_opts and tr.ev == [])
        else:
            E.check('other.frame', same_attrs and d['reactor'] is before['reactor'] and q == [] and
                    conn.options.__dict__ == before_opts and tr.ev == [], note='any other packet changes nothing')
        return None

    def replay(self, model, label):
        return dict(confirmed=False, call='login steps', observed='')


class VersionsMap(object):
    """KNOWN_MINECRAFT_VERSIONS as seen by _version_mismatch: a name is either known (some protocol number) or not."""

    def __init__(self, I):
        self.I = I

    def get(self, name, default=None):
        if isinstance(name, str):
            return minecraft.KNOWN_MINECRAFT_VERSIONS.get(name, default)
        E = self.I.E
        if E.fork(2, 'version-name-known'):
            return default
        return E.new_int('proto-of-name', 0, None)


class GhostMatch(object):
    def __init__(self, ver):
        self.ver = ver

    def group(self, name):
        return self.ver


def regex_model(I, pattern, s, *a):
    want = r"Outdated (client! Please use|server! I'm still on) (?P<ver>\S+)$"
    if pattern != want:
        if not is_symbolic(s):
            return re.match(pattern, s, *a)
        raise Unsupported('re.match with another pattern')
    if not isinstance(s, (str, SStr)):
        raise TypeError('expected string or bytes-like object, got %r' % type(s).__name__)
    if isinstance(s, str):
        m = re.match(pattern, s)
        return None if m is None else GhostMatch(m.group('ver'))
    E = I.E
    ws = z3.Union(*[z3.Re(c) for c in (' ', '\t', '\n', '\r', '\x0b', '\x0c')])
    nonspace = z3.Plus(z3.Diff(z3.AllChar(z3.ReSort(z3.StringSort())), ws))
    lang = z3.Concat(z3.Re('Outdated '), z3.Union(z3.Re('client! Please use'), z3.Re("server! I'm still on")), z3.Re(' '),
                     nonspace, z3.Option(z3.Re('\n')))
    if E.decide(z3.InRe(s.t, lang)):
        ver = E.new_str('ver')
        E.assume(SBool(z3.Contains(s.t, ver.t)))
        return GhostMatch(ver)
    return None


class DisconnectStep(Unit):
    prop = 'C10'
    name = 'C10.disconnect.step'
    int_mode = 'int'
    functions = (L_ + ' [disconnect]', 'minecraft.networking.connection.Connection._version_mismatch')

    def setup(self, I):
        I.override(re.match, regex_model, kind='assumed')
        I.global_overrides[('minecraft.networking.connection', 'KNOWN_MINECRAFT_VERSIONS')] = VersionsMap(I)
        unit = self

        def loads(I_, s, **kw):
            E = I_.E
            k = ('non-json', 'text-str', 'text-number', 'text-null', 'text-list', 'no-text', 'array', 'string', 'number', 'null')[
                E.fork(10, 'json-shape')]
            unit.shape = k
            if k == 'non-json':
                raise ValueError('Expecting value')
            if k == 'text-str':
                unit.text = E.new_str('text')
                return {'text': unit.text, 'extra': []}
            return {'text-number': {'text': 5}, 'text-null': {'text': None}, 'text-list': {'text': ['a']},
                    'no-text': {'translate': 'x'}, 'array': ['text'], 'string': 'text', 'number': 7, 'null': None}[k]
        I.override(json.loads, loads, kind='assumed')

    def run(self, I):
        E = I.E
        tr = Trace()
        self.shape, self.text = None, None
        conn, r, sock, fobj = make_login(I, tr, True)
        pkt = clientbound.login.DisconnectPacket()
        raw_json = E.new_str('json_data')
        pkt.json_data = raw_json
        try:
            I.call(I.getattr_(r, 'react'), pkt)
            E.check('disconnect.never-silent', False, note='react returned for a login disconnect packet (%s)' % self.shape)
            return None
        except PyRaise as e:
            exc = e.exc
        E.check('disconnect.login-failure-error', isinstance(exc, (LoginDisconnect, VersionMismatch)),
                note='body shape %s: %r' % (self.shape, exc))
        if isinstance(exc, LoginDisconnect):
            msg = exc.args[0]
            shown = self.text if self.shape == 'text-str' else raw_json
            E.check('disconnect.carries-message', SBool(z3.Contains(msg.t, shown.t)) if isinstance(msg, SStr) else False,
                    note='the error text contains the server\'s message')
        if isinstance(exc, VersionMismatch):
            E.check('disconnect.mismatch-only-for-outdated', exc.server_version is not None)
        return None

    def replay(self, model, label):
        return replay_disconnect()

    def bounded(self, rng, tier):
        rp = replay_disconnect()
        return dict(name='C10.disconnect.bodies', evaluations=rp['n'], bound='18 concrete disconnect bodies on the real reactor',
                    failures=[dict(call=rp['call'], observed=rp['observed'], witness='login-disconnect')] if rp['confirmed'] else [])


def replay_disconnect():
    bodies = ['{"text": "bye"}', 'plain text', '{"text": 5}', '{"text": null}', '{"text": ["a"]}', '{"translate": "x"}',
              '["text"]', '"text"', '7', 'null', '', '{"text": "Outdated client! Please use 1.12.2"}',
              '{"text": "Outdated server! I\'m still on 1.8.9"}', '{"text": "Outdated server! I\'m still on 9.9.9"}',
              'Outdated client! Please use 1.16.5', '{"text": ""}', '{}', 'true']
    n = 0
    for body in bodies:
        n += 1
        conn = native_connection()
        conn.context = ConnectionContext(protocol_version=757)
        r = LoginReactor(conn)
        pkt = clientbound.login.DisconnectPacket()
        pkt.json_data = body
        k, v = native_call(r.react, pkt)
        outdated = 'Outdated' in body
        bad = None
        if k != 'raise':
            bad = 'silent exit (%s %r)' % (k, v)
        elif outdated and not isinstance(v, VersionMismatch):
            bad = 'an "Outdated" message gave %r' % (v,)
        elif not outdated and type(v) is not LoginDisconnect:
            bad = 'raised %r instead of LoginDisconnect' % (v,)
        if bad:
            return dict(confirmed=True, n=n, call='LoginReactor.react(Disconnect %r)' % body, observed=bad)
    return dict(confirmed=False, n=n, call='login disconnect bodies', observed='conform')


class LoginTables(Unit):
    """Which login packets exist at which version, under which ids, and the plugin exchange on the wire - against the
    reference in spec/protocol_ref.py (trusted), for a symbolic supported version."""
    prop = 'C10'
    name = 'C10.login.tables'
    functions = ('minecraft.networking.packets.clientbound.login.get_packets',
                 'minecraft.networking.packets.serverbound.login.get_packets',
                 'minecraft.networking.packets.clientbound.login.*.get_id', 'minecraft.networking.packets.serverbound.login.*.get_id',
                 'minecraft.networking.packets.clientbound.login.PluginRequestPacket.read',
                 'minecraft.networking.packets.serverbound.login.PluginResponsePacket.write_fields',
                 L_ + ' [plugin request]')
    uses = ('S4 protocol_later_eq', 'S3 String/TrailingByteArray codec contracts (C02)')
    trusted = ('spec/protocol_ref.py login_ids / LOGIN_PLUGIN_FROM (reference table)',)

    def setup(self, I):
        from .common import install_version_contracts, unroll_varint
        from .codec import install_buffer_model, install_string_contracts
        install_version_contracts(I)
        unroll_varint(I)
        install_string_contracts(I)
        install_buffer_model(I)

    def run(self, I):
        import minecraft
        from spec import protocol_ref as REF, wire_sym as WS
        from .common import sym_context
        from pyvc.models import InStream
        from pyvc.values import SBool
        from minecraft.networking.packets import PacketBuffer
        E = I.E
        ctx, i = sym_context(I, 'supported')
        IDX = minecraft.PROTOCOL_VERSION_INDICES
        era = 2 if I.truth(i >= IDX[REF.LOGIN_SHIFT_UNTIL]) else 1 if I.truth(i >= IDX[REF.LOGIN_PLUGIN_FROM]) else 0
        want_cb, want_sb = REF.login_ids((47, REF.LOGIN_PLUGIN_FROM, REF.LOGIN_SHIFT_UNTIL)[era])
        for side, mod, want in (('clientbound', clientbound.login, want_cb), ('serverbound', serverbound.login, want_sb)):
            got = I.call(mod.get_packets, ctx)
            names = sorted(c.__name__ for c in got)
            E.check('tables.%s-members' % side, names == sorted(want),
                    note='login %s packets %r; the specification has %r in this version range' % (side, names, sorted(want)))
            for c in got:
                if c.__name__ in want:
                    E.check('tables.%s-id[%s]' % (side, c.__name__), I.equals(I.call(I.getattr_(c, 'get_id'), ctx), want[c.__name__]))
        table = {}
        for c in I.call(I.getattr_(LoginReactor, 'get_clientbound_packets'), ctx):
            table[I.call(I.getattr_(c, 'get_id'), ctx)] = c
        if era == 0:
            return None
        # the plugin exchange, bytes in -> bytes out, for every message id / channel / payload
        E.check('tables.reactor-dispatch', table.get(want_cb['PluginRequestPacket']) is clientbound.login.PluginRequestPacket,
                note='the reactor resolves the specified id to PluginRequestPacket')
        mid = E.new_int('message_id', 0, (1 << 32) - 1)
        k = 1 + E.fork(5, 'varint-length')
        E.assume(SBool(WS.varint_len_cond(mid.t, k)))
        mid_bytes = SBytes([('byte', t) for t in WS.varint_terms(mid.t, k)])
        chan = E.new_str('channel')
        from .codec import make_atom
        wire = mid_bytes + SBytes([make_atom(I, 'String', chan), make_atom(I, 'TrailingByteArray', SBytes([E.new_blob('data')]))])
        pkt = clientbound.login.PluginRequestPacket()
        I.setattr_(pkt, 'context', ctx)
        try:
            I.call(I.getattr_(pkt, 'read'), InStream(I, wire))
        except PyRaise as e:
            E.check('plugin.wire-decodable', False, note='%r' % (e.exc,))
            return None
        tr = Trace()
        conn, r, sock, fobj = make_login(I, tr, True, proto=757)
        conn.__dict__['context'] = ctx
        try:
            I.call(I.getattr_(r, 'react'), pkt)
        except PyRaise as e:
            E.check('plugin.wire-no-raise', False, note='%r' % (e.exc,))
            return None
        q = list(conn._outgoing_packet_queue)
        E.check('plugin.wire-one-answer', len(q) == 1)
        if len(q) != 1:
            return None
        E.check('plugin.wire-answer-id', I.equals(I.call(I.getattr_(q[0], 'get_id'), ctx), want_sb['PluginResponsePacket']))
        buf = I.call(PacketBuffer)
        I.call(I.getattr_(q[0], 'write_fields'), buf)
        E.check('plugin.wire-answer-bytes', SBytes.of(I.call(I.getattr_(buf, 'get_writable'))) == mid_bytes + SBytes.of(b'\x00'),
                note='the answer is VarInt(message id) + Boolean(false), nothing else')
        return None

    def replay(self, model, label):
        return replay_login_tables()

    def bounded(self, rng, tier):
        rp = replay_login_tables()
        return dict(name='C10.login.tables-concrete', evaluations=rp['n'],
                    bound='every supported protocol: login tables and one plugin exchange through the real reactor',
                    failures=[dict(call=rp['call'], observed=rp['observed'], witness='login-tables')] if rp['confirmed'] else [])


def replay_login_tables():
    import io
    import minecraft
    from spec import protocol_ref as REF, wire as W
    n = 0
    for p in sorted(minecraft.SUPPORTED_PROTOCOL_VERSIONS):
        n += 1
        ctx = ConnectionContext(protocol_version=p)
        want_cb, want_sb = REF.login_ids(p)
        for side, mod, want in (('clientbound', clientbound.login, want_cb), ('serverbound', serverbound.login, want_sb)):
            got = {c.__name__: c.get_id(ctx) for c in mod.get_packets(ctx)}
            if got != want:
                return dict(confirmed=True, n=n, call='login %s packets at protocol %d' % (side, p),
                            observed='%r, specification: %r' % (got, want))
        if p < REF.LOGIN_PLUGIN_FROM:
            continue
        conn = native_connection()
        conn.context, conn._outgoing_packet_queue = ctx, deque()
        setattr(conn, lock_name(), threading.RLock())
        r = LoginReactor(conn)
        body = W.varint_enc(want_cb['PluginRequestPacket']) + W.varint_enc(300) + b'\x03a:b' + b'xyz'
        r.clientbound_packets = {c.get_id(ctx): c for c in r.get_clientbound_packets(ctx)} if not hasattr(r, 'clientbound_packets') else r.clientbound_packets
        cls = r.clientbound_packets.get(want_cb['PluginRequestPacket'])
        if cls is not clientbound.login.PluginRequestPacket:
            return dict(confirmed=True, n=n, call='login plugin request (id %#x) at protocol %d' % (want_cb['PluginRequestPacket'], p),
                        observed='the reactor resolves the id to %r: the request is never answered' % (cls,))
        pkt = cls(ctx)
        pkt.read(io.BytesIO(body[1:]))
        r.react(pkt)
        out = [q for q in conn._outgoing_packet_queue]
        if len(out) != 1 or out[0].get_id(ctx) != want_sb['PluginResponsePacket']:
            return dict(confirmed=True, n=n, call='login plugin request at protocol %d' % p, observed='answers: %r' % (out,))
        from minecraft.networking.packets import PacketBuffer
        b = PacketBuffer()
        out[0].write_fields(b)
        if b.get_writable() != W.varint_enc(300) + b'\x00':
            return dict(confirmed=True, n=n, call='login plugin request at protocol %d' % p, observed='answer bytes %s' % b.get_writable().hex())
    return dict(confirmed=False, n=n, call='login tables', observed='conform')


def _own_units(tier):
    from . import c01
    fr = c01.ReadFrame()
    fr.prop, fr.name = 'C10', 'C10.frames-after-set-compression'
    from . import c11
    rl = c11.RunLoop()
    # "switches both directions to encrypted immediately": the networking thread must take the reactor and the file object
    # from the connection at EVERY read, because the encryption step replaces them in the middle of a read batch
    rl.prop, rl.name = 'C10', 'C10.reads-through-current-transport'
    from . import c16
    cm = c16.ConnectModel()
    # every login script starts from plain framing: _connect() resets whatever an earlier login on the same object negotiated
    cm.prop, cm.name = 'C10', 'C10.connect.starts-plain'
    return [EncStep(), SimpleSteps(), DisconnectStep(), fr, LoginTables(), rl, cm]


def units(tier):
    from .deps import dependency_units
    return _own_units(tier) + dependency_units('C10')
