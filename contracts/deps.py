"""Dependency units: contracts a property's own units only USE, discharged here from the real bodies under that property.

Verification is modular: a unit that calls f through f's contract does not notice a change inside f.  tools/closure_audit.py
lists, per property, the library functions used through their contract and where that contract is discharged; this table
makes every such contract a unit OF THE PROPERTY THAT RELIES ON IT (same unit class as in its home property, other name),
so that a change which breaks the dependency fails the dependent property's check too.  Constructors are called lazily
(no import cycle) and never through another module's units() (no recursion)."""


def _mk(pid, name, factory):
    u = factory()
    u.prop, u.name = pid, '%s.dep.%s' % (pid, name)
    return u


def dependency_units(pid):
    from minecraft.networking.types import String, TrailingByteArray, VarInt
    from . import c01, c02, c03, c04, c05, c08, c09, c12, c13, c16, c17, c20
    order = ('version-order', lambda: c08.OrderUnit())
    life = ('connection-lifecycle', lambda: c16.Lifecycle())
    connect = ('connect-model', lambda: c16.ConnectModel())
    string = ('String', lambda: c02.ArrayUnit(String))
    trail = ('TrailingByteArray', lambda: c02.ArrayUnit(TrailingByteArray))
    vread = ('VarInt.read', lambda: c03.ReadArbitrary(VarInt))
    vsend = ('VarInt.send', lambda: c03.SendCanonical(VarInt, 32))
    hsh = ('verification-hash', lambda: c17.HashUnit())
    frame = ('write-frame', lambda: c01.WriteFrame())
    wpkt = ('write_packet-dispatch', lambda: c13.Dispatch('_write_packet'))
    gendef = ('generic-definition', lambda: c05.GenericDefinition())
    shape = ('connect-shape', lambda: c09.ConnectShape())
    wlock = ('write_packet-lock', lambda: c12.WritePacketLock())
    buf = ('PacketBuffer', lambda: c02.BufferContract())
    switch = ('write-switch', lambda: c01.WriteSwitch())
    table = {
        'C01': [gendef, connect],
        'C04': [wlock, wpkt],
        'C07': [wlock, wpkt, ('read-frame', lambda: c01.ReadFrame()), ('read-segmentation', lambda: c01.Segmentation())],
        'C05': [order, wlock, wpkt, frame, ('read-frame', lambda: c01.ReadFrame()), ('Position.send', lambda: c04.PositionSend()), ('Position.any-word', lambda: c04.PositionAnyWord()),
                ('ChunkSectionPos', lambda: c04.SectionPos()), ('BlockRecord', lambda: c04.BlockRecord()),
                ('flag-names', lambda: c20.Flags()),
                # "every supported version" includes one registered at run time: the comparisons every codec makes read
                # tables that the importing modules hold by reference, so a re-initialisation must refill them in place
                ('tables-shared-by-reference', lambda: c08.InitGlobalsBounded())],
        'C06': [order, ('context-holds-a-protocol-number', lambda: c09.InitVersions()),
            # the table a reactor decodes with is built at construction: connect() must build it after the context is updated
            ('reactor-built-for-the-context-version', lambda: c09.ConnectShape()), life, connect, wpkt],
        'C09': [life, connect, string, trail, wpkt],
        'C10': [hsh, frame, string, trail, vread, gendef, switch, wpkt],
        'C11': [wpkt, life, order, connect, shape],
        'C12': [wpkt, gendef, vsend, switch],
        'C14': [life, connect, shape, wpkt, wlock],
        'C15': [shape, life, buf, connect, wpkt],
        'C16': [shape, wpkt, wlock],
        'C18': [hsh, frame, gendef, vsend, wpkt],
        'C17': [frame, gendef, vsend],
    }
    out = [_mk(pid, name, f) for name, f in table.get(pid, [])]
    # properties that speak about what reaches the wire while several threads run claim the whole lock discipline
    if pid in ('C10', 'C11', 'C14', 'C18'):
        have = {u.name.rsplit('.', 1)[-1] for u in out}
        for u in c12.lock_units(pid, '%s.dep.lock' % pid):
            out.append(u)
    return out
