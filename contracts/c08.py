"""C08 — protocol versions are totally ordered by publication; derived tables agree.

Under contract: minecraft.utility.protocol_earlier / protocol_earlier_eq, the five
ConnectionContext predicates (their real bodies, over an ABSTRACT injective index map, so the
result holds for every table initglobals can build), and initglobals itself.
"""
import copy
import re
import z3

import minecraft
from minecraft import utility
from minecraft.networking.connection import ConnectionContext

from pyvc.driver import Unit
from pyvc.values import SInt, SBool, mk_bool, And, Or, Not, Implies, Unsupported
from pyvc.interp import PyRaise
from pyvc.harness import native_call
from .common import raw

ASSUMPTIONS = [
    'dict lookup d[k] returns the stored value or raises KeyError (model of PROTOCOL_VERSION_INDICES as an '
    'uninterpreted injective function idx on known protocols)',
    'injectivity of idx is the postcondition init.bijection of initglobals (checked in unit C08.initglobals.*)',
    're.match(r"\\d+(\\.\\d+)+$", id) decides "release id" (regex semantics assumed)',
]

_idx = z3.Function('idx', z3.IntSort(), z3.IntSort())
_known = z3.Function('known', z3.IntSort(), z3.BoolSort())


class IdxMap(object):
    """Abstract PROTOCOL_VERSION_INDICES: known(p) => idx(p) is its position; unknown => KeyError."""

    def __init__(self, I):
        self.I = I

    def __getitem__(self, pv):
        if isinstance(pv, int):
            pv = SInt(z3.IntVal(pv), pv, pv)
        if not isinstance(pv, SInt):
            raise KeyError(pv)
        if not self.I.truth(SBool(_known(pv.t))):
            raise KeyError(pv)
        r = SInt(_idx(pv.t))
        n = self.__sym_len__()
        self.I.E.assume(And(r >= 0, r < n))        # a position in the list of known versions
        return r

    def __sym_len__(self):
        return SInt(z3.Int('known.count'))

    def __contains__(self, pv):
        try:
            self[pv]
            return True
        except KeyError:
            return False

    def get(self, pv, default=None):
        try:
            return self[pv]
        except KeyError:
            return default


class OrderUnit(Unit):
    """order.strict-total, order.consistency and the S4 contract, from the real bodies."""
    prop = 'C08'
    name = 'C08.order'
    int_mode = 'int'
    functions = ('minecraft.utility.protocol_earlier', 'minecraft.utility.protocol_earlier_eq',
                 'minecraft.networking.connection.ConnectionContext.protocol_earlier',
                 'minecraft.networking.connection.ConnectionContext.protocol_earlier_eq',
                 'minecraft.networking.connection.ConnectionContext.protocol_later',
                 'minecraft.networking.connection.ConnectionContext.protocol_later_eq',
                 'minecraft.networking.connection.ConnectionContext.protocol_in_range')
    trusted = ('dict lookup semantics',)

    def setup(self, I):
        I.global_overrides[('minecraft.utility', 'PROTOCOL_VERSION_INDICES')] = IdxMap(I)

    def run(self, I):
        E = I.E
        a, b, c = E.new_int('a'), E.new_int('b'), E.new_int('c')
        for x in (a, b, c):
            E.assume(SBool(_known(x.t)))
        # instances of injectivity (postcondition of initglobals) for the symbols in play
        for x, y in ((a, b), (a, c), (b, c)):
            E.assume(SBool(z3.Implies(_idx(x.t) == _idx(y.t), x.t == y.t)))
        pe, pee = utility.protocol_earlier, utility.protocol_earlier_eq
        ab, ba, bc, ac, aa = (I.call(pe, a, b), I.call(pe, b, a), I.call(pe, b, c), I.call(pe, a, c), I.call(pe, a, a))
        E.check('order.irreflexive', Not(aa))
        E.check('order.transitive', Implies(And(ab, bc), ac))
        E.check('order.trichotomy', And(Or(ab, a == b, ba), Not(And(ab, ba)), Not(And(ab, a == b)), Not(And(ba, a == b))))
        E.check('order.eq-consistent', I.call(pee, a, b) == Or(ab, a == b))
        E.must_fail('order.symmetric', Implies(ab, ba))
        # context predicates against the two base relations and against the S4 contract
        ctx = ConnectionContext(protocol_version=0)      # the real constructor: every private attribute it creates exists
        ctx.__dict__['protocol_version'] = c
        I.tracked_frames.append(('context', ctx, dict(vars(ctx))))
        d = ConnectionContext.__dict__
        later = I.call(d['protocol_later'], ctx, a)
        later_eq = I.call(d['protocol_later_eq'], ctx, a)
        earlier = I.call(d['protocol_earlier'], ctx, a)
        earlier_eq = I.call(d['protocol_earlier_eq'], ctx, a)
        in_range = I.call(d['protocol_in_range'], ctx, a, b)
        E.check('ctx.later', later == I.call(pe, a, c))
        E.check('ctx.later_eq', later_eq == Not(I.call(pe, c, a)))
        E.check('ctx.earlier', earlier == I.call(pe, c, a))
        E.check('ctx.earlier_eq', earlier_eq == Not(I.call(pe, a, c)))
        E.check('ctx.in_range', in_range == And(I.call(d['protocol_later_eq'], ctx, a), I.call(d['protocol_earlier'], ctx, b)))
        ia, ib, ic = SInt(_idx(a.t)), SInt(_idx(b.t)), SInt(_idx(c.t))
        E.check('S4.later_eq', later_eq == (ia <= ic))
        E.check('S4.later', later == (ia < ic))
        E.check('S4.earlier', earlier == (ic < ia))
        E.check('S4.earlier_eq', earlier_eq == (ic <= ia))
        E.check('S4.in_range', in_range == And(ia <= ic, ic < ib))
        return None

    def replay(self, model, label):
        ks = minecraft.KNOWN_PROTOCOL_VERSIONS
        bad = None
        idx = minecraft.PROTOCOL_VERSION_INDICES
        for a in ks[::7]:
            for b in ks[::5]:
                ctx = ConnectionContext(protocol_version=b)
                exp = dict(later=idx[a] < idx[b], later_eq=idx[a] <= idx[b], earlier=idx[b] < idx[a],
                           earlier_eq=idx[b] <= idx[a])
                for k, v in exp.items():
                    if getattr(ctx, 'protocol_' + k)(a) != v:
                        bad = 'protocol_%s(%d) on context %d is %r' % (k, a, b, not v)
        return dict(confirmed=bad is not None, call='ConnectionContext predicates on the shipped table', observed=bad or 'conform')

    def bounded(self, rng, tier):
        """Exhaustive over all pairs (and sampled triples) of the shipped 369 known versions."""
        ks = minecraft.KNOWN_PROTOCOL_VERSIONS
        idx = minecraft.PROTOCOL_VERSION_INDICES
        fails, cnt = [], 0
        for a in ks:
            ca = ConnectionContext(protocol_version=a)
            for b in ks:
                cnt += 1
                e = utility.protocol_earlier(a, b)
                ok = e == (idx[a] < idx[b]) and utility.protocol_earlier_eq(a, b) == (e or a == b) and \
                    ca.protocol_earlier(b) == e and ca.protocol_later(b) == utility.protocol_earlier(b, a) and \
                    ca.protocol_later_eq(b) == (not e) and ca.protocol_earlier_eq(b) == (e or a == b) and \
                    (e + (a == b) + utility.protocol_earlier(b, a) == 1)
                if not ok and not fails:
                    fails.append(dict(call='order predicates on (%d, %d)' % (a, b), observed='inconsistent',
                                      witness='order:%d,%d' % (a, b)))
        trip = [(rng.choice(ks), rng.choice(ks), rng.choice(ks)) for _ in range(20000)]
        for a, b, c in trip:
            cnt += 1
            if utility.protocol_earlier(a, b) and utility.protocol_earlier(b, c) and not utility.protocol_earlier(a, c):
                fails.append(dict(call='transitivity (%d,%d,%d)' % (a, b, c), observed='violated', witness='order-trans'))
                break
            ctx = ConnectionContext(protocol_version=c)
            if ctx.protocol_in_range(a, b) != (ctx.protocol_later_eq(a) and ctx.protocol_earlier(b)):
                fails.append(dict(call='in_range(%d,%d) on %d' % (a, b, c), observed='inconsistent', witness='in_range'))
                break
        return dict(name='C08.order.all-pairs', evaluations=cnt, failures=fails, exhaustive_for_bound=True,
                    bound='all %d^2 pairs of known versions, 20000 seeded triples' % len(ks))


class Chronology(Unit):
    """table.chronology: closed obligations over the literal record list in the working tree."""
    prop = 'C08'
    name = 'C08.table'
    functions = ('minecraft.KNOWN_MINECRAFT_VERSION_RECORDS [literal table]', 'minecraft.initglobals [result at import]')

    def run(self, I):
        E = I.E
        recs = minecraft.KNOWN_MINECRAFT_VERSION_RECORDS
        PRE = minecraft.PRE
        plain = [r.protocol for r in recs if not r.protocol & PRE]
        E.check('table.numeric-order', all(a <= b for a, b in zip(plain, plain[1:])),
                note='protocol numbers without the 2^30 bit are non-decreasing in list order')
        pre = [r.protocol for r in recs if r.protocol & PRE]
        E.check('table.pre-order', all(a <= b for a, b in zip(pre, pre[1:])),
                note='pre-release numbers are non-decreasing in list order (publication order)')
        # the derived tables as functions of the records (specification of initglobals, evaluated on the literal list)
        spec = spec_tables(recs)
        for k in sorted(spec):
            got = getattr(minecraft, k)
            got = list(got.items()) if hasattr(got, 'items') and k != 'PROTOCOL_VERSION_INDICES' else \
                (dict(got) if k == 'PROTOCOL_VERSION_INDICES' else list(got))
            E.check('table.%s' % k, got == spec[k], note='equals the order-preserving duplicate-free projection')
        known = minecraft.KNOWN_PROTOCOL_VERSIONS
        E.check('table.index-injective', len(set(known)) == len(known) and
                all(minecraft.PROTOCOL_VERSION_INDICES[p] == i for i, p in enumerate(known)))
        nums = [p for p in known if not p & PRE]
        E.check('table.index-is-numeric-order', all(a < b for a, b in zip(nums, nums[1:])),
                note='on ordinary numbers, index order coincides with numeric order')
        return None

    def replay(self, model, label):
        return dict(confirmed=True, call='closed obligation %s on the literal table' % label, observed='does not hold')


def spec_tables(recs):
    """Specification of the derived tables, written from the property statement."""
    known_versions, supported_versions = {}, {}
    order_k, order_s = [], []
    for r in recs:
        if r.id not in known_versions:
            order_k.append(r.id)
        known_versions[r.id] = r.protocol
        if r.supported:
            if r.id not in supported_versions:
                order_s.append(r.id)
            supported_versions[r.id] = r.protocol

    def dedup(xs):
        out = []
        for x in xs:
            if x not in out:
                out.append(x)
        return out
    kp = dedup([r.protocol for r in recs])
    sm = [(i, supported_versions[i]) for i in order_s]
    rel = [(i, p) for i, p in sm if re.match(r'\d+(\.\d+)+$', i)]
    return dict(
        KNOWN_MINECRAFT_VERSIONS=[(i, known_versions[i]) for i in order_k],
        SUPPORTED_MINECRAFT_VERSIONS=sm,
        RELEASE_MINECRAFT_VERSIONS=rel,
        KNOWN_PROTOCOL_VERSIONS=kp,
        SUPPORTED_PROTOCOL_VERSIONS=dedup([p for _, p in sm]),
        RELEASE_PROTOCOL_VERSIONS=dedup([p for _, p in rel]),
        PROTOCOL_VERSION_INDICES={p: i for i, p in enumerate(kp)},
    )


TABLES = ('KNOWN_MINECRAFT_VERSIONS', 'SUPPORTED_MINECRAFT_VERSIONS', 'RELEASE_MINECRAFT_VERSIONS',
          'KNOWN_PROTOCOL_VERSIONS', 'SUPPORTED_PROTOCOL_VERSIONS', 'RELEASE_PROTOCOL_VERSIONS',
          'PROTOCOL_VERSION_INDICES')


def snapshot():
    d = {}
    for k in TABLES:
        v = getattr(minecraft, k)
        d[k] = list(v.items()) if hasattr(v, 'items') and k != 'PROTOCOL_VERSION_INDICES' else \
            (dict(v) if k == 'PROTOCOL_VERSION_INDICES' else list(v))
    return d


class TablesFrame(Unit):
    """Frame condition of the derived tables over the WHOLE package (closed world, like the lock scan of C12): no function
    other than initglobals writes them - no subscript store / delete, no augmented assignment, no call of a mutating method
    (setdefault, update, pop, append, ...) on any of the table names, under whatever alias they were imported.  "The
    derived tables are exactly the projections of the version records" can only stay true if nobody else edits them
    (seeded change C08-r10: `KNOWN_MINECRAFT_VERSIONS.setdefault(name)` in the version-mismatch helper).
    A hit is a violation only if the scenario replay shows a table that differs from its projection; otherwise undecided."""
    prop = 'C08'
    name = 'C08.tables.frame'
    int_mode = 'int'
    functions = ('minecraft/**.py [closed-world scan: writers of the derived tables]',)
    MUTATORS = {'append', 'extend', 'insert', 'remove', 'pop', 'clear', 'sort', 'reverse', 'update', 'setdefault', 'popitem',
                'add', 'discard', 'move_to_end', '__setitem__', '__delitem__', 'difference_update', 'intersection_update',
                'symmetric_difference_update'}

    @staticmethod
    def scan():
        import ast as _ast
        import os
        root = os.path.dirname(minecraft.__file__)
        names = set(TABLES) | {'KNOWN_MINECRAFT_VERSION_RECORDS'}
        hits = []
        # initglobals and the private helpers that ONLY it (or such a helper) calls form the one writer of the tables: a helper
        # split off initglobals is still initglobals (the interprocedural step of the lock scan, applied here)
        init_tree = _ast.parse(open(minecraft.__file__, encoding='utf-8').read())
        tops = {n.name: n for n in init_tree.body if isinstance(n, (_ast.FunctionDef, _ast.AsyncFunctionDef))}
        callers = {name: set() for name in tops}
        module_level_calls = set()
        for owner, node in list(tops.items()) + [(None, init_tree)]:
            body = node.body if owner is not None else [n for n in init_tree.body if not isinstance(n, (_ast.FunctionDef, _ast.AsyncFunctionDef, _ast.ClassDef))]
            for stmt in body:
                for sub in _ast.walk(stmt):
                    if isinstance(sub, _ast.Call) and isinstance(sub.func, _ast.Name) and sub.func.id in tops:
                        (callers[sub.func.id].add(owner) if owner is not None else module_level_calls.add(sub.func.id))
        init_only = {'initglobals'}
        changed = True
        while changed:
            changed = False
            for name in tops:
                if name not in init_only and name.startswith('_') and callers[name] and callers[name] <= init_only and \
                        name not in module_level_calls:
                    init_only.add(name)
                    changed = True
        for dp, _dn, fns in os.walk(root):
            for fn in fns:
                if not fn.endswith('.py'):
                    continue
                path = os.path.join(dp, fn)
                try:
                    tree = _ast.parse(open(path, encoding='utf-8').read(), path)
                except SyntaxError:
                    continue
                alias = {}
                for node in _ast.walk(tree):
                    if isinstance(node, _ast.ImportFrom):
                        for a in node.names:
                            if a.name in names:
                                alias[a.asname or a.name] = a.name
                if os.path.samefile(path, minecraft.__file__):
                    alias.update({n: n for n in names})

                def table_of(e):
                    if isinstance(e, _ast.Name) and e.id in alias:
                        return alias[e.id]
                    if isinstance(e, _ast.Attribute) and e.attr in names:
                        return e.attr
                    return None

                def visit(node, fname):
                    for child in _ast.iter_child_nodes(node):
                        cf = fname
                        if isinstance(child, (_ast.FunctionDef, _ast.AsyncFunctionDef)):
                            cf = child.name if fname is None else fname + '.' + child.name
                        elif isinstance(child, _ast.ClassDef):
                            cf = child.name if fname is None else fname + '.' + child.name
                        t = None
                        if isinstance(child, (_ast.Assign, _ast.AugAssign, _ast.AnnAssign, _ast.Delete)):
                            tg = child.targets if isinstance(child, (_ast.Assign, _ast.Delete)) else [child.target]
                            for x in tg:
                                if isinstance(x, _ast.Subscript) and table_of(x.value):
                                    t = (table_of(x.value), 'item store/delete')
                                elif isinstance(child, _ast.AugAssign) and table_of(x):
                                    t = (table_of(x), 'augmented assignment')
                        elif isinstance(child, _ast.Call) and isinstance(child.func, _ast.Attribute) and \
                                child.func.attr in TablesFrame.MUTATORS and table_of(child.func.value):
                            t = (table_of(child.func.value), '.%s()' % child.func.attr)
                        if t is not None:
                            inside_init = os.path.samefile(path, minecraft.__file__) and (fname or '').split('.')[0] in init_only
                            # the record list is the public extension point: user code appends to it; library code may build it
                            # at import (module level of minecraft/__init__.py) but must not edit it elsewhere
                            at_import = os.path.samefile(path, minecraft.__file__) and fname is None
                            if not inside_init and not at_import:
                                hits.append('%s:%d in %s: %s on %s' % (os.path.relpath(path, os.path.dirname(root)), child.lineno,
                                                                       fname or '<module>', t[1], t[0]))
                        visit(child, cf)
                visit(tree, None)
        return hits

    def run(self, I):
        hits = self.scan()
        I.E.check('frame.tables-written-by-initglobals-only', not hits, kind='frame',
                  note='; '.join(hits[:4]) or 'no writer of a derived table outside initglobals')
        return None

    def replay(self, model, label):
        return replay_tables_scenarios()

    def bounded(self, rng, tier):
        rp = replay_tables_scenarios()
        return dict(name='C08.tables.scenarios', evaluations=rp['n'], bound='public operations that consult the tables (constructor '
                    'with names / numbers, version-mismatch reports with known and unknown names, status handling), tables '
                    'compared with the projection of the records after each',
                    failures=[dict(call=rp['call'], observed=rp['observed'], witness='tables-frame')] if rp['confirmed'] else [])


def replay_tables_scenarios():
    """Operations of the library that READ the tables; afterwards every table must still be the projection of the records."""
    from minecraft.networking.connection import Connection, PlayingStatusReactor
    from pyvc.harness import native_call
    spec = spec_tables(minecraft.KNOWN_MINECRAFT_VERSION_RECORDS)
    n = 0

    def differs():
        now = snapshot()
        for k in TABLES:
            if now[k] != spec[k]:
                extra = [x for x in (now[k].items() if isinstance(now[k], dict) else now[k]) if x not in
                         (spec[k].items() if isinstance(spec[k], dict) else spec[k])]
                return '%s is no longer the projection of the records (e.g. extra / changed entries %r)' % (k, extra[:3])
        return None
    steps = []
    for name in ('1.8.9', '1.99-not-a-version', None, ''):
        for proto in (47, 999999, None, 0):
            steps.append(('Connection._version_mismatch(server_protocol=%r, server_version=%r)' % (proto, name),
                          lambda proto=proto, name=name: Connection('h', 1)._version_mismatch(server_protocol=proto, server_version=name)))
    for av in ({'1.8.9'}, {'no-such'}, {340, '1.12.2'}, None):
        steps.append(('Connection(allowed_versions=%r)' % (av,), lambda av=av: Connection('h', 1, allowed_versions=av)))
    for iv in ('1.12.2', 'bogus', 47, 5):
        steps.append(('Connection(initial_version=%r)' % (iv,), lambda iv=iv: Connection('h', 1, initial_version=iv)))

    def status(st):
        c = Connection('h', 1, allowed_versions={340, 47})
        c.connect = lambda: None
        c.disconnect = lambda immediate=False: None
        r = PlayingStatusReactor(c)
        r.handle_status(st)
    for st in ({'version': {'protocol': 5, 'name': 'weird-name'}}, {'version': {'name': 'x.y'}}, {'version': {'protocol': 47, 'name': '1.8.9'}}):
        steps.append(('PlayingStatusReactor.handle_status(%r)' % (st,), lambda st=st: status(st)))
    for what, fn in steps:
        n += 1
        native_call(fn)
        bad = differs()
        if bad:
            minecraft.initglobals(use_known_records=True)
            return dict(confirmed=True, n=n, call=what, observed=bad)
    return dict(confirmed=False, n=n, call='%d table-reading operations' % n, observed='tables unchanged')


class InitGlobalsBounded(Unit):
    """initglobals on generated record lists / extension histories (BOUNDED stand-in for init.known/derived/idempotent)."""
    prop = 'C08'
    name = 'C08.initglobals'
    functions = ()
    modifies_library_state = True      # initglobals is THE function whose frame is the module-level tables

    def run(self, I):
        # the closed obligation that the function is idempotent on the shipped records
        E = I.E
        saved = list(minecraft.KNOWN_MINECRAFT_VERSION_RECORDS)
        before = snapshot()
        try:
            minecraft.initglobals(use_known_records=True)
            mid = snapshot()
            minecraft.initglobals(use_known_records=True)
            after = snapshot()
        finally:
            minecraft.KNOWN_MINECRAFT_VERSION_RECORDS[:] = saved
            minecraft.initglobals(use_known_records=True)
        E.check('init.idempotent-on-shipped-table', before == mid == after)
        # "all updates are done by reference": every module that imported a table must still see the rebuilt one
        from minecraft.networking import connection as cm
        shared = [(utility, 'PROTOCOL_VERSION_INDICES'), (cm, 'PROTOCOL_VERSION_INDICES'), (cm, 'KNOWN_MINECRAFT_VERSIONS'),
                  (cm, 'SUPPORTED_MINECRAFT_VERSIONS'), (cm, 'SUPPORTED_PROTOCOL_VERSIONS')]
        E.check('init.tables-updated-in-place', all(getattr(m, n) is getattr(minecraft, n) for m, n in shared),
                note='after re-initialisation the importing modules hold the SAME table objects as the package')
        return None

    def replay(self, model, label):
        return dict(confirmed=True, call='initglobals(True) twice on the shipped records', observed='tables differ')

    def bounded(self, rng, tier):
        V = minecraft.Version
        saved = list(minecraft.KNOWN_MINECRAFT_VERSION_RECORDS)
        fails, cnt = [], 0
        ids = ['1.%d' % i for i in range(6)] + ['21w0%da' % i for i in range(4)] + ['1.2.3', 'x', '1.', '1.0-pre1']
        try:
            for trial in range(300 if tier == 'quick' else 3000):
                n = rng.randrange(0, 9)
                recs = [V(rng.choice(ids), rng.choice([1, 2, 3, 4, 5, minecraft.PRE | 1, minecraft.PRE | 2]),
                          rng.random() < 0.6) for _ in range(n)]
                minecraft.KNOWN_MINECRAFT_VERSION_RECORDS[:] = recs
                history = [list(recs)]
                steps = rng.randrange(1, 4)
                for _ in range(steps):
                    minecraft.initglobals(use_known_records=True)
                    cnt += 1
                    want = spec_tables(minecraft.KNOWN_MINECRAFT_VERSION_RECORDS)
                    got = snapshot()
                    # the comparison functions (which imported the index table) must follow the rebuilt order
                    kp = want['KNOWN_PROTOCOL_VERSIONS']
                    for a_i in range(len(kp)):
                        for b_i in range(len(kp)):
                            try:
                                r = utility.protocol_earlier(kp[a_i], kp[b_i])
                                r2 = ConnectionContext(protocol_version=kp[b_i]).protocol_later(kp[a_i])
                            except Exception as e:
                                r = r2 = repr(e)
                            if r is not (a_i < b_i) or r2 is not (a_i < b_i):
                                fails.append(dict(call='protocol_earlier(%d, %d) after rebuilding from %r' % (
                                    kp[a_i], kp[b_i], minecraft.KNOWN_MINECRAFT_VERSION_RECORDS), observed='%r' % (r,),
                                    witness='initglobals-stale-comparison'))
                                break
                        if fails:
                            break
                    if fails:
                        break
                    if got != want:
                        diff = [k for k in TABLES if got[k] != want[k]]
                        fails.append(dict(call='initglobals(True) after records %r' % (minecraft.KNOWN_MINECRAFT_VERSION_RECORDS,),
                                          observed='tables %s differ from the projection of the records' % diff,
                                          witness='initglobals'))
                        break
                    # run-time extension
                    minecraft.KNOWN_MINECRAFT_VERSION_RECORDS.append(
                        V(rng.choice(ids), rng.choice([3, 6, 7, minecraft.PRE | 3]), rng.random() < 0.6))
                if fails:
                    break
        finally:
            minecraft.KNOWN_MINECRAFT_VERSION_RECORDS[:] = saved
            minecraft.initglobals(use_known_records=True)
        return dict(name='C08.initglobals.generated-histories', evaluations=cnt, failures=fails,
                    bound='%d seeded record lists (length <= 8, colliding ids/protocols) x up to 3 extend+reinit steps' %
                          (300 if tier == 'quick' else 3000))


def units(tier):
    from . import c08_init
    return c08_init.units(tier) + [OrderUnit(), Chronology(), InitGlobalsBounded(), TablesFrame()]
