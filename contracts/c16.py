"""C16 — connection lifecycle: one active thread, clean refusal, always reusable.

Sequential typestate over (networking_thread, its interrupt flag, new_networking_thread):
  Idle (None, -, None)   Active (t, False, None)   Ending (t, True, None)   Handover (t, -, t')
crossed with the transport state (never connected / refused at each stage of _connect / open / closed).
Each public method is verified from EVERY abstract state satisfying the class invariant and shown to
re-establish it, so call histories of any length follow by induction; thread interleavings are NOT explored.
Under contract: Connection.__init__, _check_connection, _start_network_thread, connect, status, disconnect,
_connect (real body over models of the socket layer), NetworkingThread.__init__ (run: C14.thread-wrapper).
"""
import socket as socket_mod
import threading
import types
from collections import deque

from minecraft.networking import connection as conn_mod
from minecraft.networking.connection import Connection, NetworkingThread, ConnectionContext
from minecraft.exceptions import InvalidState

from pyvc.driver import Unit
from pyvc.values import And, Or, Not
from pyvc.interp import PyRaise
from pyvc.models import GhostLock
from pyvc.harness import native_call
from .common import bounded_call, lock_name, raw

ASSUMPTIONS = [
    'threading.RLock: mutual exclusion and re-entrancy; Thread.start starts exactly one thread running run()',
    'socket layer: getaddrinfo / socket() / connect / makefile either succeed or raise OSError; shutdown may raise '
    'socket.error; close never raises',
    'interleavings of several user threads are not explored (sequential typestate + lock discipline only)',
    'liveness: "interrupt set" implies both loop guards of _run are false at their next evaluation - not a proof of progress',
]
C_ = 'minecraft.networking.connection.Connection.'


class GSock(object):
    def __init__(self, log, fail_connect=False, shutdown_raises=False, established=True):
        self.log, self.fail_connect, self.shutdown_raises = log, fail_connect, shutdown_raises
        self.closed = False
        self.established = established     # TCP connection exists (False: fresh or refused socket)
        self.timeout = None                # blocking mode, as socket.socket() creates it

    # the mode of the socket is state the writers depend on: `Packet._write_buffer` and the flush ignore the count `send`
    # returns, which is the whole buffer only for a socket in BLOCKING mode (timeout None); with a timeout (or non-blocking)
    # CPython issues one non-blocking send and a large frame is cut short on the wire (seeded changes C01/C10/C12-r16)
    def settimeout(self, value):
        self.log.append(('settimeout', value))
        self.timeout = value

    def setblocking(self, flag):
        self.log.append(('setblocking', flag))
        self.timeout = None if flag else 0.0

    def gettimeout(self):
        return self.timeout

    def getblocking(self):
        return self.timeout != 0.0

    def connect(self, addr):
        self.log.append('sock.connect')
        if self.fail_connect:
            raise ConnectionRefusedError(111, 'Connection refused')
        self.established = True

    def makefile(self, *a):
        self.log.append('sock.makefile')
        return GFile(self.log)

    def shutdown(self, how):
        self.log.append('sock.shutdown')
        self.log.append(('shutdown-how', how))
        if self.shutdown_raises:
            raise socket_mod.error('not connected')

    def close(self):
        self.log.append('sock.close')
        self.closed = True

    def send(self, data):
        self.log.append('sock.send')
        if not self.established or self.closed:
            # the assumed contract of the socket layer is "raises OSError": the representative must be an instance of the BASE
            # class (EHOSTUNREACH maps to no subclass), so that an `except BrokenPipeError / ConnectionError` that is too
            # narrow does not hide the path (seeded change C11-r8)
            raise OSError(113, 'No route to host')


class GFile(object):
    def __init__(self, log):
        self.log = log
        self.closed = False

    def close(self):
        self.log.append('file.close')
        self.closed = True


def fresh_connection(I, **kw):
    """The real Connection.__init__, executed symbolically (RLock modelled)."""
    I.override(threading.RLock, lambda I_: GhostLock(), kind='assumed')
    return I.call(Connection, 'localhost', 25565, **kw)


THREAD_STATES = ('idle', 'active', 'ending', 'handover-active', 'handover-ending',
                 'handover-active-successor-interrupted', 'handover-ending-successor-interrupted')
SOCK_STATES = ('never', 'refused-no-file', 'open', 'open-shutdown-fails', 'open-peer-gone', 'closed')


def put_in_state(conn, tstate, sstate, log):
    d = conn.__dict__
    cur = new = None
    if tstate != 'idle':
        cur = types.SimpleNamespace(interrupt=tstate in ('ending', 'handover-ending', 'handover-ending-successor-interrupted'),
                                    name='cur')
    if tstate.startswith('handover'):
        # a successor that has itself been interrupted (disconnect() after a reconnect) still occupies the slot
        new = types.SimpleNamespace(interrupt=tstate.endswith('successor-interrupted'), name='new')
    d['networking_thread'], d['new_networking_thread'] = cur, new
    if sstate == 'never':
        pass                               # exactly what __init__ left
    elif sstate == 'refused-no-file':
        d['_outgoing_packet_queue'] = deque()
        d['socket'] = GSock(log, shutdown_raises=True)
    elif sstate in ('open', 'open-shutdown-fails', 'open-peer-gone'):
        d['_outgoing_packet_queue'] = deque()
        # 'open-peer-gone': the server failed / reset the connection and the networking thread has not noticed yet -
        # every send on the socket raises, shutdown raises "not connected"
        gone = sstate == 'open-peer-gone'
        d['socket'] = GSock(log, shutdown_raises=sstate.endswith('fails') or gone, established=not gone)
        d['file_object'] = GFile(log)
        d['connected'] = True
    elif sstate == 'closed':
        d['_outgoing_packet_queue'] = deque()
        d['socket'] = None
        d['file_object'] = GFile(log)
    return cur, new


class Lifecycle(Unit):
    """connect / status / disconnect from every abstract state."""
    prop = 'C16'
    name = 'C16.typestate'
    int_mode = 'int'
    functions = (C_ + '__init__', C_ + '_check_connection', C_ + '_start_network_thread', C_ + 'connect', C_ + 'status',
                 C_ + 'disconnect', 'minecraft.networking.connection.NetworkingThread.__init__')
    max_paths = 20000

    def setup(self, I):
        self.started = []
        unit = self
        I.override(threading.Thread.start, lambda I_, t: unit.started.append(t), kind='assumed')

        def _connect(I_, conn):
            # abstract contract of _connect (checked against its body in C16.connect-model)
            unit.log.append('_connect')
            if unit.connect_fails:
                conn.__dict__['_outgoing_packet_queue'] = deque()
                raise ConnectionRefusedError(111, 'Connection refused')
            d = conn.__dict__
            d['_outgoing_packet_queue'] = deque()
            d['socket'] = GSock(unit.log)
            d['file_object'] = GFile(unit.log)
            d['options'].compression_enabled = False
            d['options'].compression_threshold = -1
            d['connected'] = True
        I.override(raw(Connection, '_connect'), _connect, kind='contract')
        I.override(raw(Connection, '_handshake'), lambda I_, conn, next_state=2: unit.log.append(('handshake', next_state)),
                   kind='contract')
        I.override(raw(Connection, 'write_packet'), lambda I_, conn, p, force=False: unit.log.append('write_packet'),
                   kind='contract')
        # _pop_packet runs from its real body; the frame write itself is abstracted to "one send on the current socket"
        I.override(raw(Connection, '_write_packet'), lambda I_, c, p: (unit.log.append('_write_packet'), c.socket.send(b'frame'))[0],
                   kind='contract')
        real_check = raw(Connection, '_check_connection')

        def checked(I_, conn):
            # check-then-act must be atomic: the activity check runs with the write lock held
            I_.E.check('refusal.check-under-lock', getattr(conn, lock_name()).depth >= 1,
                       note='_check_connection is called with the write lock held (otherwise a concurrent connect can pass it too)')
            return I_.call_function(real_check, [conn], {})
        I.override(real_check, checked, kind='contract')

    def run(self, I):
        E = I.E
        self.log = []
        self.started = []
        conn = fresh_connection(I, allowed_versions={757} if E.fork(2, 'versions') else {756, 757})
        tstate = THREAD_STATES[E.fork(len(THREAD_STATES), 'thread-state')]
        sstate = SOCK_STATES[E.fork(len(SOCK_STATES), 'socket-state')]
        cur, new = put_in_state(conn, tstate, sstate, self.log)
        if sstate.startswith('open') and E.fork(2, 'packets-queued'):
            conn.__dict__['_outgoing_packet_queue'].extend(['queued-1', 'queued-2'])
        op = ('connect', 'status', 'disconnect', 'disconnect-immediate')[E.fork(4, 'operation')]
        self.connect_fails = bool(E.fork(2, 'tcp-refused')) if op in ('connect', 'status') else False
        before = dict(conn.__dict__)
        before_ctx = conn.context.protocol_version
        lock = getattr(conn, lock_name())
        try:
            if op == 'connect':
                I.call(I.getattr_(conn, 'connect'))
            elif op == 'status':
                I.call(I.getattr_(conn, 'status'), False, False)
            else:
                I.call(I.getattr_(conn, 'disconnect'), immediate=(op == 'disconnect-immediate'))
            outcome = 'returned'
        except PyRaise as e:
            outcome = e.exc
        E.check('lock.released', lock.depth == 0)
        d = conn.__dict__
        if op in ('connect', 'status'):
            busy = tstate == 'active' or tstate.startswith('handover')
            if busy:
                E.check('refusal.invalid-state', isinstance(outcome, InvalidState),
                        note='%s in state %s must fail with InvalidState: %r' % (op, tstate, outcome))
                E.check('refusal.undisturbed', d == before and conn.context.protocol_version == before_ctx and
                        not self.started and '_connect' not in self.log,
                        note='the active connection is left untouched: no attribute changes, no socket activity, no thread')
            elif self.connect_fails:
                E.check('refused.propagates', isinstance(outcome, OSError) and not self.started,
                        note='a refused TCP connect raises to the caller and starts no thread')
                E.check('refused.still-idle-or-ending', d['networking_thread'] is cur and d['new_networking_thread'] is None)
            else:
                E.check('start.accepted', outcome == 'returned', note='%s from %s: %r' % (op, tstate, outcome))
                E.check('start.exactly-one-thread', len(self.started) == 1 and isinstance(self.started[0], NetworkingThread),
                        note='exactly one networking thread is created and started')
                if len(self.started) == 1:
                    t = self.started[0]
                    if tstate == 'idle':
                        E.check('start.idle', d['networking_thread'] is t and d['new_networking_thread'] is None and
                                t.previous_thread is None and t.interrupt is False and t.connection is conn)
                    else:
                        E.check('start.successor', d['networking_thread'] is cur and d['new_networking_thread'] is t and
                                t.previous_thread is cur and t.interrupt is False,
                                note='an ending thread gets exactly one successor that waits for it')
                E.check('start.connect-before-thread', self.log.index('_connect') < len(self.log) and d['connected'] is True)
        else:
            E.check('disconnect.total', outcome == 'returned', note='disconnect(%s) in state %s/%s raised %r'
                    % (op, tstate, sstate, outcome))
            if outcome == 'returned':
                E.check('disconnect.flags', d['connected'] is False and d.get('socket', None) is None)
                target = new if new is not None else cur
                E.check('disconnect.interrupts', (target is None) or target.interrupt is True,
                        note='interrupt is set on the successor if there is one, else on the current thread')
                if new is not None and cur is not None:
                    E.check('disconnect.leaves-predecessor', cur.interrupt == ('handover-ending' in tstate or tstate == 'ending'))
                if op == 'disconnect-immediate':
                    E.check('disconnect.immediate-writes-nothing', '_write_packet' not in self.log and 'sock.send' not in self.log)
                if sstate.startswith('open'):
                    E.check('disconnect.closes', self.log.count('sock.close') == 1 and 'file.close' in self.log)
                    # "always leads to the networking thread terminating": the thread may be blocked in recv() inside a
                    # frame; assumed socket contract - a blocked recv returns only once the READ direction is shut down
                    # (close() from another thread does not wake it).  Seeded change C16-r9: shutdown(SHUT_WR).
                    hows = [x[1] for x in self.log if isinstance(x, tuple) and x[0] == 'shutdown-how']
                    E.check('disconnect.wakes-blocked-reader', len(hows) >= 1 and
                            all(h in (socket_mod.SHUT_RD, socket_mod.SHUT_RDWR) for h in hows),
                            note='socket.shutdown must include the read direction; called with %r' % (hows,))
                # idempotent
                n = len(self.log)
                try:
                    I.call(I.getattr_(conn, 'disconnect'), immediate=bool(E.fork(2, 'second-immediate')))
                    E.check('disconnect.twice', 'sock.close' not in self.log[n:] and d['connected'] is False)
                except PyRaise as e:
                    E.check('disconnect.twice', False, note='second disconnect raised %r' % (e.exc,))
        return None

    def replay(self, model, label):
        if label.startswith(('refusal', 'start')):
            rp = replay_typestates()
            return rp if rp['confirmed'] else replay_live()
        rp = replay_lifecycle(label)
        if not rp['confirmed']:
            rp = replay_peer_gone()
        if not rp['confirmed'] and label.startswith('disconnect'):
            from . import c12
            rp = c12.replay_flush()        # incl. socket.shutdown raising ENOTCONN: the socket must be closed all the same
        if not rp['confirmed'] and label.startswith('disconnect'):
            rp = replay_flush_send_fails()
        if not rp['confirmed'] and label.startswith('disconnect.wakes'):
            rp = replay_blocked_reader()
        return rp

    def bounded(self, rng, tier):
        live = replay_live()
        if not live['confirmed']:
            live = replay_peer_gone()
        if not live['confirmed']:
            live = replay_flush_send_fails()
        if not live['confirmed']:
            live = replay_blocked_reader()
        if live['confirmed']:
            return dict(name='C16.live', evaluations=1, failures=[dict(call=live['call'], observed=live['observed'],
                                                                       witness='live-lifecycle')], bound='one live scenario')
        rp = replay_lifecycle('all')
        return dict(name='C16.histories', evaluations=rp.get('n', 0), failures=[dict(call=rp['call'], observed=rp['observed'],
                    witness=rp.get('witness', 'lifecycle'))] if rp['confirmed'] else [],
                    bound='every call history of length <= 4 over {connect, status, disconnect, disconnect(immediate)} against a '
                          'refusing local port, on the real Connection')


def replay_lifecycle(label):
    """Real Connection objects against a local port nobody listens on (refused TCP connect)."""
    import itertools
    n = 0
    ops = ('disconnect', 'disconnect-immediate', 'connect', 'status')
    for ln in range(1, 5):
        for hist in itertools.product(ops, repeat=ln):
            n += 1
            c = Connection('127.0.0.1', 1, username='u')
            for op in hist:
                try:
                    if op == 'connect':
                        c.connect()
                    elif op == 'status':
                        c.status()
                    else:
                        c.disconnect(immediate=op.endswith('immediate'))
                    res = 'ok'
                except OSError as e:
                    res = 'oserror'
                except Exception as e:
                    res = e
                if op.startswith('disconnect') and res != 'ok':
                    return dict(confirmed=True, n=n, call='history %r on a fresh Connection (port refusing)' % (hist,),
                                observed='%s raised %r' % (op, res), witness='disconnect-raises')
                if op in ('connect', 'status') and res not in ('ok', 'oserror'):
                    return dict(confirmed=True, n=n, call='history %r' % (hist,), observed='%s raised %r' % (op, res),
                                witness='connect-raises')
    return dict(confirmed=False, n=n, call='histories up to length 4', observed='conform')


def replay_typestates():
    """The real connect()/status() on a real Connection object placed in each busy thread state (thread objects are
    stand-ins with an `interrupt` flag; the transport is stubbed so that any socket activity is recorded)."""
    for tstate in THREAD_STATES:
        if not (tstate == 'active' or tstate.startswith('handover')):
            continue
        for op in ('connect', 'status'):
            c = Connection('127.0.0.1', 1, username='u', allowed_versions={757})
            log = []
            put_in_state(c, tstate, 'open', log)
            c._connect = lambda: log.append('_connect')
            before = dict(c.__dict__)
            try:
                getattr(c, op)()
                res = 'returned'
            except InvalidState:
                res = 'InvalidState'
            except Exception as e:
                res = repr(e)
            after = dict(c.__dict__)
            disturbed = '_connect' in log or any(after.get(k) is not before.get(k) for k in ('socket', 'file_object', 'reactor',
                                                                                             '_outgoing_packet_queue', 'networking_thread',
                                                                                             'new_networking_thread'))
            if res != 'InvalidState' or disturbed:
                return dict(confirmed=True, call='%s() on a Connection in thread state %s' % (op, tstate),
                            observed='%s; transport touched: %r' % (res, disturbed))
    return dict(confirmed=False, call='connect()/status() in every busy thread state', observed='all refused, undisturbed')


def replay_live():
    """A live scenario on loopback with real threads: connect, refused second connect/status while active,
    disconnect, thread ends, the same object connects again."""
    import socket, threading, time
    srv = socket.socket()
    srv.bind(('127.0.0.1', 0))
    srv.listen(5)
    port = srv.getsockname()[1]
    held = []
    stop = []

    def acceptor():
        srv.settimeout(0.2)
        while not stop:
            try:
                held.append(srv.accept()[0])
            except OSError:
                pass
    th = threading.Thread(target=acceptor, daemon=True)
    th.start()
    bad = None
    c = Connection('127.0.0.1', port, username='u', allowed_versions={757}, handle_exception=False)
    try:
        c.connect()
        time.sleep(0.05)
        first = c.networking_thread
        sock, fobj, queue = c.socket, c.file_object, c._outgoing_packet_queue
        for name in ('connect', 'status'):
            try:
                getattr(c, name)()
                bad = bad or '%s() on an active connection did not fail' % name
            except InvalidState:
                pass
            except Exception as e:
                bad = bad or '%s() on an active connection raised %r instead of InvalidState' % (name, e)
        if c.networking_thread is not first or c.new_networking_thread is not None or c.socket is not sock or \
                c.file_object is not fobj or c._outgoing_packet_queue is not queue or not c.connected:
            bad = bad or 'the active connection was disturbed by the refused call (socket / queue / thread slots replaced)'
        c.disconnect()
        if first is not None:
            first.join(15.0)
            if first.is_alive():
                bad = bad or 'networking thread still alive 15 s after disconnect()'
        try:
            c.connect()
            time.sleep(0.05)
            if c.networking_thread is None and c.new_networking_thread is None:
                bad = bad or 'reconnect started no thread'
        except Exception as e:
            bad = bad or 'reconnect after disconnect raised %r' % (e,)
        bounded_call(c.disconnect, immediate=True)
        bounded_call(c.disconnect)
    except Exception as e:
        bad = bad or 'scenario raised %r' % (e,)
    finally:
        stop.append(1)
        for s_ in held:
            try:
                s_.close()
            except OSError:
                pass
        srv.close()
    return dict(confirmed=bad is not None, call='live loopback scenario: connect, connect/status while active, disconnect, reconnect',
                observed=bad or 'conforms')


def replay_peer_gone():
    """Live, public API only: the server sends one login packet and then resets the connection; a listener for that
    packet (running on the networking thread, as the property allows) queues two packets and calls disconnect()."""
    import socket, struct, time
    from minecraft.networking.packets import clientbound, serverbound
    srv = socket.socket()
    srv.bind(('127.0.0.1', 0))
    srv.listen(1)
    port = srv.getsockname()[1]
    seen = {}

    def server():
        try:
            peer = srv.accept()[0]
            peer.settimeout(2.0)
            try:
                peer.recv(4096)                                   # handshake + login start
            except OSError:
                pass
            peer.sendall(bytes([3, 0x03, 0x80, 0x02]))            # login: set compression, threshold 256
            time.sleep(0.05)
            peer.setsockopt(socket.SOL_SOCKET, socket.SO_LINGER, struct.pack('ii', 1, 0))
            peer.close()                                          # the server fails: connection reset
        except OSError as e:
            seen['server'] = e
    th = threading.Thread(target=server, daemon=True)
    th.start()
    c = Connection('127.0.0.1', port, username='u', allowed_versions={757}, handle_exception=lambda e, i: None)
    done = threading.Event()

    def listener(packet):
        time.sleep(0.3)                                           # by now the reset has arrived
        for k in range(2):
            p = serverbound.play.ChatPacket()
            p.message = 'late %d' % k
            c.write_packet(p)
        try:
            c.disconnect()
            seen['disconnect'] = None
        except Exception as e:
            seen['disconnect'] = e
        seen['socket-released'] = c.socket is None
        done.set()
    c.register_packet_listener(listener, clientbound.login.SetCompressionPacket, early=True)
    bad = None
    try:
        c.connect()
        if not done.wait(5.0):
            return dict(confirmed=False, call='peer-gone scenario', observed='listener was not reached (scenario did not run)')
        if seen.get('disconnect') is not None:
            bad = 'disconnect() raised %r; socket released: %r' % (seen['disconnect'], seen['socket-released'])
        t = c.networking_thread
        if t is not None:
            t.join(15.0)
            if t.is_alive():
                bad = bad or 'networking thread still alive 15 s after disconnect()'
    except Exception as e:
        bad = 'scenario raised %r' % (e,)
    finally:
        try:
            bounded_call(c.disconnect, immediate=True)
        except Exception:
            pass
        srv.close()
    return dict(confirmed=bad is not None,
                call='server sends one packet and resets the connection; a listener queues two packets and calls disconnect()',
                observed=bad or 'conforms')


def replay_blocked_reader():
    """Live: the server announces a 10-byte frame, sends 3 bytes of it and stalls with the TCP connection open; the
    networking thread blocks in recv().  disconnect() from the main thread must make it terminate."""
    import socket, time
    srv = socket.socket()
    srv.bind(('127.0.0.1', 0))
    srv.listen(1)
    port = srv.getsockname()[1]
    held = []

    def server():
        try:
            peer = srv.accept()[0]
            held.append(peer)
            peer.settimeout(2.0)
            try:
                peer.recv(4096)
            except OSError:
                pass
            peer.sendall(bytes([10, 0x02, 0x01]) + b'ab'[:1])       # length 10, then only 3 body bytes
        except OSError:
            pass
    th = threading.Thread(target=server, daemon=True)
    th.start()
    c = Connection('127.0.0.1', port, username='u', allowed_versions={757}, handle_exception=lambda e, i: None)
    bad = None
    try:
        k, v = bounded_call(c.connect, timeout=5.0)
        if k != 'ok':
            return dict(confirmed=False, call='blocked-reader scenario', observed='scenario did not run: connect %s %r' % (k, v))
        time.sleep(0.4)                                  # the thread is now blocked inside the frame body
        t = c.networking_thread
        k, v = bounded_call(c.disconnect, timeout=5.0)
        if k != 'ok':
            bad = 'disconnect() %s %r' % (k, v)
        elif t is not None:
            t.join(4.0)
            if t.is_alive():
                bad = 'the networking thread is still alive 4 s after disconnect() (blocked in recv inside a frame)'
    finally:
        for p in held:
            try:
                p.close()
            except OSError:
                pass
        srv.close()
    return dict(confirmed=bad is not None, call='server sends a length prefix of 10 and 3 body bytes, then stalls with the connection '
                'open; disconnect() from the main thread', observed=bad or 'the thread terminated')


def replay_flush_send_fails():
    """disconnect() with one real packet queued on a real Connection whose socket fails on send with each kind of OSError the
    socket layer produces (base class, timeout, connection errors): never raises, the socket is closed and released."""
    import socket
    from minecraft.networking.packets import serverbound
    kinds = [OSError(113, 'No route to host'), socket.timeout('timed out'), OSError(110, 'Connection timed out'),
             BrokenPipeError(32, 'Broken pipe'), ConnectionResetError(104, 'Connection reset by peer')]
    for exc in kinds:
        log = []

        class Sock(object):
            def send(self, data):
                log.append('send')
                raise exc

            def shutdown(self, how):
                log.append('shutdown')
                raise OSError(107, 'Transport endpoint is not connected')

            def close(self):
                log.append('close')
        c = Connection('127.0.0.1', 1, username='u', allowed_versions={757})
        c.context.protocol_version = 757
        c._outgoing_packet_queue = deque()
        c.socket, c.file_object, c.connected = Sock(), GFile(log), True
        p = serverbound.play.ChatPacket()
        p.message = 'queued'
        c.write_packet(p)
        from pyvc.harness import native_call
        k, v = native_call(c.disconnect, timeout=3.0)
        res = None if k == 'ok' else ('did not return within 3 s (%d send attempts)' % log.count('send') if k == 'hang' else v)
        if res is not None or 'close' not in log or c.socket is not None:
            return dict(confirmed=True, call='disconnect() with one packet queued; socket.send raises %r' % (exc,),
                        observed='disconnect: %r; last events %r; socket released: %r' % (res, log[-4:], c.socket is None))
    return dict(confirmed=False, call='disconnect() with a queued packet over 5 kinds of send failure', observed='conforms')


def replay_stale_queue():
    """Live: a connection ends with a packet still queued, the next connect is refused at TCP level, then disconnect()."""
    import socket, time
    from minecraft.networking.packets import serverbound
    srv = socket.socket()
    srv.bind(('127.0.0.1', 0))
    srv.listen(2)
    port = srv.getsockname()[1]
    bad = None
    c = Connection('127.0.0.1', port, username='u', allowed_versions={757}, handle_exception=False)
    try:
        c.connect()
        peer = srv.accept()[0]
        bounded_call(c.disconnect, immediate=True)
        p = serverbound.play.ChatPacket()
        p.message = 'late'
        c.write_packet(p)                      # a late write on the dead connection stays in the queue
        if c.networking_thread is not None:
            c.networking_thread.join(15.0)
            if c.networking_thread is not None and c.networking_thread.is_alive():
                return dict(confirmed=False, call='stale-queue scenario', observed='scenario did not run (machine too loaded)')
        peer.close()
        srv.close()                            # from now on the port refuses
        try:
            c.connect()
            bad = 'connect to a closed port did not fail'
        except OSError:
            pass
        except InvalidState:
            return dict(confirmed=False, call='stale-queue scenario', observed='scenario did not run (old thread still ending)')
        for imm in (False, True, False):
            try:
                c.disconnect(immediate=imm)
            except Exception as e:
                bad = bad or 'disconnect(immediate=%r) after the refused reconnect raised %r' % (imm, e)
    except Exception as e:
        bad = bad or 'scenario raised %r' % (e,)
    finally:
        try:
            srv.close()
        except OSError:
            pass
    return dict(confirmed=bad is not None,
                call='connect; disconnect(immediate); late write_packet; server gone; connect (refused); disconnect()',
                observed=bad or 'conforms')


def install_socket_layer(I, log, stage='ok'):
    """Models of getaddrinfo / socket() for the real _connect: success, or OSError at the given stage."""
    def getaddrinfo(I_, host, port, *a):
        log.append('getaddrinfo')
        if stage == 'getaddrinfo':
            raise socket_mod.gaierror(-2, 'Name or service not known')
        return [(socket_mod.AF_INET6, 1, 6, '', ('::1', port)), (socket_mod.AF_INET, 1, 6, '', ('127.0.0.1', port))]

    def mksock(I_, fam, typ, proto):
        log.append(('socket', fam))
        if stage == 'socket':
            raise OSError('too many open files')
        s = GSock(log, fail_connect=(stage == 'connect'), shutdown_raises=(stage in ('connect', 'makefile')),
                  established=False)
        if stage == 'makefile':
            def mf(*a):
                raise OSError('makefile failed')
            s.makefile = mf
        return s
    I.override(socket_mod.getaddrinfo, getaddrinfo, kind='assumed')
    I.override(socket_mod.socket, mksock, kind='assumed')


class ConnectModel(Unit):
    """The real _connect against models of the socket layer: success, or OSError at any stage; every resulting object
    state still lets disconnect() run (definite assignment on exceptional exits)."""
    prop = 'C16'
    name = 'C16.connect-model'
    int_mode = 'int'
    functions = (C_ + '_connect', C_ + 'disconnect [after every exit of _connect]')

    def run(self, I):
        E = I.E
        log = []
        conn = fresh_connection(I)
        stage = ('ok', 'getaddrinfo', 'socket', 'connect', 'makefile')[E.fork(5, 'failure-stage')]
        second = bool(E.fork(2, 'had-earlier-connection'))
        if second:
            put_in_state(conn, 'idle', 'closed', log)
            if E.fork(2, 'stale-packets-left-in-queue'):
                # the previous connection ended with packets still queued (immediate disconnect, late write_packet)
                conn.__dict__['_outgoing_packet_queue'] = deque(['stale-1', 'stale-2'])
            if E.fork(2, 'earlier-connection-negotiated-compression'):
                # whatever way the earlier connection ended (server disconnect during login, error, reconnect from a handler
                # without a disconnect() in between), its framing mode must not leak into the new one
                conn.options.compression_enabled = True
                conn.options.compression_threshold = 256
        I.override(raw(Connection, '_write_packet'), lambda I_, c, p: c.socket.send(b'frame of %s' % str(p).encode()), kind='contract')

        install_socket_layer(I, log, stage)
        try:
            I.call(raw(Connection, '_connect'), conn)
            outcome = 'returned'
        except PyRaise as e:
            outcome = e.exc
        d = conn.__dict__
        if stage == 'ok':
            E.check('connect.success', outcome == 'returned' and d['connected'] is True and isinstance(d['socket'], GSock) and
                    isinstance(d.get('file_object'), GFile) and isinstance(d.get('_outgoing_packet_queue'), deque) and
                    len(d['_outgoing_packet_queue']) == 0 and
                    d['options'].compression_enabled is False and d['options'].compression_threshold == -1,
                    note='a fresh empty queue OF ITS OWN (an instance attribute, not one shared through the class), socket and file object, connected = True, and plain framing whatever the earlier '
                         'connection on this object had negotiated (the handshake of the new login goes out uncompressed)')
            E.check('connect.prefers-ipv4', ('socket', socket_mod.AF_INET) in log)
            sk = d.get('socket')
            E.check('connect.socket-left-blocking', isinstance(sk, GSock) and sk.timeout is None,
                    note='the socket the connection keeps is in blocking mode (timeout None): the writers ignore the count send() '
                         'returns and the reader reads a frame with blocking reads, both of which are whole only in blocking mode; '
                         'a connect timeout has to be taken off again (timeout left: %r)' % (getattr(sk, 'timeout', '?'),))
            qs = [v for v in d.values() if isinstance(v, deque)]
            E.check('connect.queue-unbounded', len(qs) >= 1 and all(q.maxlen is None for q in qs),
                    note='the outgoing queue is an unbounded FIFO: append never discards a queued packet (a deque with maxlen '
                         'silently drops the oldest entry when full)')
        else:
            E.check('connect.failure-propagates', isinstance(outcome, OSError), note='%r' % (outcome,))
            E.check('connect.failure-not-connected', d['connected'] is False)
            E.check('connect.failure-no-stale-queue', d.get('socket') is None or len(d.get('_outgoing_packet_queue', ())) == 0,
                    note='the contract the typestate proof uses: after a failed _connect that left a socket object behind, '
                         'nothing of an earlier connection is still queued (else the next disconnect() flushes it into a dead socket)')
        # whatever happened, disconnect must be callable
        for imm in (False, True):
            try:
                I.call(I.getattr_(conn, 'disconnect'), immediate=imm)
                E.check('disconnect.total-after-%s' % stage, True)
            except PyRaise as e:
                E.check('disconnect.total-after-%s' % stage, False, note='disconnect(immediate=%r) raised %r' % (imm, e.exc))
        return None

    def replay(self, model, label):
        if label == 'connect.socket-left-blocking':
            return replay_socket_mode()
        if label in ('connect.success', 'connect.queue-unbounded'):
            return replay_connect_plain()
        rp = replay_lifecycle(label)
        return rp if rp['confirmed'] else replay_stale_queue()

    def bounded(self, rng, tier):
        rp = replay_stale_queue()
        rp2 = replay_connect_plain()
        return dict(name='C16.connect.live', evaluations=2, bound='two live loopback scenarios (stale queue; reconnect after a '
                    'connection that had negotiated compression)',
                    failures=[dict(call=r['call'], observed=r['observed'], witness=w)
                              for r, w in ((rp, 'stale-queue'), (rp2, 'reconnect-framing')) if r['confirmed']])


def replay_connect_plain():
    """Live: _connect() on a Connection whose earlier login had switched compression on (and which was not disconnect()ed in
    between, as when an exception handler reconnects after a login disconnect): the new connection starts with plain framing."""
    import socket
    srv = socket.socket()
    srv.bind(('127.0.0.1', 0))
    srv.listen(2)
    bad = None
    try:
        c = Connection('127.0.0.1', srv.getsockname()[1], username='u', allowed_versions={757}, handle_exception=False)
        c.options.compression_enabled, c.options.compression_threshold = True, 256
        k, v = native_call(c._connect, timeout=5.0)
        if k != 'ok':
            bad = '_connect: %s %r' % (k, v)
        elif c.options.compression_enabled is not False or c.options.compression_threshold != -1:
            bad = ('the new connection starts with compression_enabled=%r, threshold=%r: its handshake and login start go out in '
                   'compressed framing, which no server expects' % (c.options.compression_enabled, c.options.compression_threshold))
        else:
            for name, q in vars(c).items():
                if isinstance(q, deque) and q.maxlen is not None:
                    for i in range(q.maxlen + 5):
                        q.append(i)
                    bad = ('the outgoing queue %s holds at most %d packets: after %d appends the oldest queued entry is %r, entries '
                           '0..%d were discarded without being written' % (name, q.maxlen, q.maxlen + 5, q[0], q[0] - 1))
                    q.clear()
        try:
            bounded_call(c.disconnect, immediate=True)
        except Exception:       # noqa
            pass
    finally:
        srv.close()
    return dict(confirmed=bad is not None, call='_connect() on a Connection whose earlier login had enabled compression (threshold 256)',
                observed=bad or 'conforms')


def replay_socket_mode():
    """Live: _connect() to a loopback peer that starts reading late; one 12 MB plugin message is written through the real
    _write_packet.  All of its bytes must arrive (in blocking mode send() returns only when the whole buffer is handed over)."""
    import socket, threading, time
    from minecraft.networking.packets import serverbound
    srv = socket.socket()
    srv.bind(('127.0.0.1', 0))
    srv.listen(2)
    got = [0]

    def peer():
        try:
            s, _ = srv.accept()
            time.sleep(0.6)
            s.settimeout(1.5)
            while True:
                b = s.recv(1 << 20)
                if not b:
                    break
                got[0] += len(b)
        except Exception:       # noqa
            pass
    t = threading.Thread(target=peer, daemon=True)
    t.start()
    bad = None
    try:
        c = Connection('127.0.0.1', srv.getsockname()[1], username='u', allowed_versions={757}, handle_exception=False)
        k, v = native_call(c._connect, timeout=5.0)
        if k != 'ok':
            bad = '_connect: %s %r' % (k, v)
        else:
            mode = c.socket.gettimeout()
            p = serverbound.play.PluginMessagePacket(channel='x:y', data=b'\x5a' * (12 << 20))
            p.context = c.context
            k, v = native_call(c._write_packet, p, timeout=20.0)
            try:
                c.socket.shutdown(socket.SHUT_WR)
            except Exception:   # noqa
                pass
            t.join(25)
            if k == 'ok' and got[0] < (12 << 20):
                bad = ('after _connect() the socket has timeout %r; a %d-byte plugin message written to a peer that starts reading '
                       '0.6 s late put %d bytes on the wire and returned normally: the frame is cut short and every later frame is '
                       'out of step' % (mode, 12 << 20, got[0]))
            elif k == 'raise':
                bad = ('after _connect() the socket has timeout %r; writing a %d-byte plugin message to a slow peer raised %r'
                       % (mode, 12 << 20, v))
        try:
            bounded_call(c.disconnect, immediate=True)
        except Exception:       # noqa
            pass
    finally:
        srv.close()
    return dict(confirmed=bad is not None, call='_connect() to a loopback peer that reads late, then one 12 MB plugin message '
                'through _write_packet', observed=bad or 'conforms')


def _own_units(tier):
    from . import c18
    wd = c18.WrapperDelegation()
    # after the login encryption step connection.socket / file_object are cipher wrappers: disconnect() reaches the real
    # transport only if their close / shutdown delegate
    wd.prop, wd.name = 'C16', 'C16.close-through-cipher-wrappers'
    from . import c14
    tw = c14.ThreadWrapper()
    # "always reusable" and "one active thread" rest on run(): wait for the predecessor, install itself and clear the successor
    # slot whether or not the predecessor is still alive, clear the thread slot on every exit
    tw.prop, tw.name = 'C16', 'C16.hand-over'
    return [Lifecycle(), ConnectModel(), wd, tw]


def units(tier):
    from .deps import dependency_units
    return _own_units(tier) + dependency_units('C16')
