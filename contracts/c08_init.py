"""C08 (part 2): initglobals for an ARBITRARY record list, by quantified loop invariants.

The module tables are replaced by symbolic containers (z3 arrays + symbolic length, with ghost first-occurrence /
position / last-writer arrays); the two loops of the real initglobals carry for-loop invariants stating that, after k
records, every table is the order-preserving duplicate-free projection (lists) resp. the last-writer-wins map with keys in
first-insertion order (ordered dicts) of the first k records.  Entry: the invariant holds for k = 0 because every table is
cleared first - so the result is a function of the CURRENT records only (idempotence, run-time extension).
"""
import ast
import re

import z3

import minecraft

from pyvc.driver import Unit
from pyvc.values import SInt, SBool, And, Or, Not, Implies, Unsupported
from pyvc.interp import PyRaise
from pyvc.loops import ForSpec
from pyvc.models import AbstractSeq
from .common import loop_keys

IntS, BoolS = z3.IntSort(), z3.BoolSort()
_isrel = z3.Function('is_release_id', IntS, BoolS)


def T(x):
    return x.t if isinstance(x, SInt) else (z3.IntVal(x) if isinstance(x, int) else x)


class SymList(object):
    """list of ints: array + length, with ghost position map (has, val) and first-occurrence array fo."""

    def __init__(self, E, name):
        self.E, self.name = E, name
        self.fresh()

    def fresh(self):
        E, nm = self.E, self.E.fresh_name(self.name)
        self.arr = z3.Array(nm + '.arr', IntS, IntS)
        self.n = SInt(z3.Int(nm + '.len'))
        self.has = z3.Array(nm + '.has', IntS, BoolS)
        self.val = z3.Array(nm + '.pos', IntS, IntS)
        self.fo = z3.Array(nm + '.fo', IntS, IntS)

    def clear(self):
        self.n = SInt(z3.IntVal(0), 0, 0)
        self.has = z3.K(IntS, z3.BoolVal(False))

    def __sym_len__(self):
        return self.n

    def __contains__(self, x):
        # list membership: EXISTS an index holding x (the true semantics of `in`), as a fresh boolean
        E = self.E
        b = E.new_bool(self.name + '.contains')
        a = z3.Int('q_' + self.name)
        E.assume(SBool(b.t == z3.Exists([a], z3.And(a >= 0, a < self.n.t, z3.Select(self.arr, a) == T(x)))))
        return b

    def append(self, x):
        xt = T(x)
        self.arr = z3.Store(self.arr, self.n.t, xt)
        self.has = z3.Store(self.has, xt, z3.BoolVal(True))
        self.val = z3.Store(self.val, xt, self.n.t)
        self.fo = z3.Store(self.fo, self.n.t, T(self.unit.J))
        self.n = self.n + 1


class SymDict(object):
    def __init__(self, E, name):
        self.E, self.name = E, name
        self.fresh()

    def fresh(self):
        nm = self.E.fresh_name(self.name)
        self.has = z3.Array(nm + '.has', IntS, BoolS)
        self.val = z3.Array(nm + '.val', IntS, IntS)

    def clear(self):
        self.has = z3.K(IntS, z3.BoolVal(False))

    def __setitem__(self, k, v):
        self.has = z3.Store(self.has, T(k), z3.BoolVal(True))
        self.val = z3.Store(self.val, T(k), T(v))


class SymODict(SymDict):
    """OrderedDict: map + key order (ko, q), ghosts: key position kpos, last writer index, first-occurrence kfo."""

    def fresh(self):
        SymDict.fresh(self)
        nm = self.E.fresh_name(self.name + '.order')
        self.ko = z3.Array(nm + '.keys', IntS, IntS)
        self.q = SInt(z3.Int(nm + '.count'))
        self.kpos = z3.Array(nm + '.kpos', IntS, IntS)
        self.last = z3.Array(nm + '.last', IntS, IntS)
        self.kfo = z3.Array(nm + '.kfo', IntS, IntS)

    def clear(self):
        SymDict.clear(self)
        self.q = SInt(z3.IntVal(0), 0, 0)

    def __setitem__(self, k, v):
        kt = T(k)
        I = self.unit.I
        if not I.truth(SBool(z3.Select(self.has, kt))):
            self.ko = z3.Store(self.ko, self.q.t, kt)
            self.kpos = z3.Store(self.kpos, kt, self.q.t)
            self.kfo = z3.Store(self.kfo, self.q.t, T(self.unit.J))
            self.q = self.q + 1
        self.last = z3.Store(self.last, kt, T(self.unit.J))
        SymDict.__setitem__(self, k, v)

    def items(self):
        return ItemsView(self)


class ItemsView(AbstractSeq):
    def __init__(self, d):
        self.d = d
        self.n = d.q


class Records(AbstractSeq):
    def __init__(self, n):
        self.n = n


def dedup_inv(arr, n, has, val, fo, S, F, j):
    """(arr, n) is the order-preserving duplicate-free projection of S(r) over r < j with F(r); (has, val) its position map."""
    a, b, p, r = z3.Ints('a b p r')
    nt = n.t if isinstance(n, SInt) else n
    return {
        'bounds': z3.And(nt >= 0, nt <= j),
        'A.position-of-element': z3.ForAll([a], z3.Implies(z3.And(a >= 0, a < nt),
                                                            z3.And(z3.Select(has, z3.Select(arr, a)),
                                                                   z3.Select(val, z3.Select(arr, a)) == a))),
        'B.element-at-position': z3.ForAll([p], z3.Implies(z3.Select(has, p),
                                                            z3.And(z3.Select(val, p) >= 0, z3.Select(val, p) < nt,
                                                                   z3.Select(arr, z3.Select(val, p)) == p))),
        'C.covers-prefix': z3.ForAll([r], z3.Implies(z3.And(r >= 0, r < j, F(r)), z3.Select(has, S(r)))),
        'D.first-occurrence': z3.ForAll([a], z3.Implies(z3.And(a >= 0, a < nt), z3.And(
            z3.Select(fo, a) >= 0, z3.Select(fo, a) < j, F(z3.Select(fo, a)), S(z3.Select(fo, a)) == z3.Select(arr, a),
            z3.ForAll([r], z3.Implies(z3.And(r >= 0, r < z3.Select(fo, a), F(r)), S(r) != z3.Select(arr, a)))))),
        'E.order-preserving': z3.ForAll([a, b], z3.Implies(z3.And(a >= 0, a < b, b < nt), z3.Select(fo, a) < z3.Select(fo, b))),
    }


def odict_inv(d, K, V, F, j):
    """d maps K(r) -> V(r), last writer wins, over r < j with F(r); its keys are in first-insertion order."""
    a, b, i, r = z3.Ints('a b i r')
    qt = d.q.t
    last = lambda x: z3.Select(d.last, x)
    out = {
        'F.keys-cover-prefix': z3.ForAll([r], z3.Implies(z3.And(r >= 0, r < j, F(r)), z3.Select(d.has, K(r)))),
        'G.last-writer-wins': z3.ForAll([i], z3.Implies(z3.Select(d.has, i), z3.And(
            last(i) >= 0, last(i) < j, F(last(i)), K(last(i)) == i, z3.Select(d.val, i) == V(last(i)),
            z3.ForAll([r], z3.Implies(z3.And(r > last(i), r < j, F(r)), K(r) != i))))),
    }
    for k, v in dedup_inv(d.ko, d.q, d.has, d.kpos, d.kfo, K, F, j).items():
        out['H.key-order.' + k] = v
    return out


class GhostReMatch(object):
    """Stands for a successful re.match (truthy, not None); groups are not used by initglobals."""


class InitGlobals(Unit):
    prop = 'C08'
    name = 'C08.initglobals.proof'
    modifies_library_state = True      # initglobals is THE function whose frame is the module-level tables
    int_mode = 'int'
    functions = ('minecraft.initglobals',)
    trusted = ('list / dict / OrderedDict semantics (append, in, item assignment, clear, items order)', 're.match as a predicate on ids')
    timeout_ms = 8000
    branch_timeout_ms = 1500
    wall_budget_s = 300
    max_paths = 400

    def setup(self, I):
        self.I = I
        from .common import reachable_loops
        keys = reachable_loops(minecraft.initglobals, None, kind=ast.For, depth=1)
        if len(keys) != 2:
            raise Unsupported('contract does not fit the code any more: initglobals (with its direct helpers) no longer has two loops')
        unit = self
        Version = minecraft.Version

        def elem1(I_, it, j):
            unit.J = j
            jt = T(j)
            return Version(SInt(z3.Select(unit.RID, jt)), SInt(z3.Select(unit.RPROTO, jt)), SBool(z3.Select(unit.RSUP, jt)))

        def inv1(I_, fr, j):
            return SBool(z3.And(*unit.inv1(T(j)).values()))

        def havoc1(I_, fr, j):
            if isinstance(j, int) and j == 0:
                return
            for o in (unit.KP, unit.PVI, unit.KMV, unit.SMV):
                o.fresh()
        spec1 = CheckedForSpec('records', lambda I_, it: it.n, elem1, inv1, havoc1, lambda j: unit.inv1(T(j)))

        def elem2(I_, it, j):
            unit.J = j
            jt = T(j)
            k = z3.Select(unit.SMV.ko, jt)
            return (SInt(k), SInt(z3.Select(unit.SMV.val, k)))

        def inv2(I_, fr, j):
            return SBool(z3.And(*unit.inv2(T(j)).values()))

        def havoc2(I_, fr, j):
            if isinstance(j, int) and j == 0:
                return
            for o in (unit.SP, unit.RMV, unit.RP):
                o.fresh()
        spec2 = CheckedForSpec('supported-items', lambda I_, it: it.n, elem2, inv2, havoc2, lambda j: unit.inv2(T(j)))

        class ByRole(object):
            # the loop over the records gets the first contract, the loop over the supported items the second -
            # wherever the two loops are written (inline or in private helpers)
            def run(self_, I_, node, frame):
                it = I_.eval(node.iter, frame)
                if isinstance(it, Records):
                    return spec1.run(I_, node, frame)
                if isinstance(it, ItemsView):
                    return spec2.run(I_, node, frame)
                raise Unsupported('initglobals contract: loop over %s has no contract' % type(it).__name__)
        for k in keys:
            I.loop_specs[k] = ByRole()

        def rematch(I_, pattern, s, *a):
            if isinstance(s, SInt):
                # a match object or None (decided per path), so that `if m:` and `m is not None` both mean the same
                return GhostReMatch() if I_.truth(SBool(_isrel(s.t))) else None
            return re.match(pattern, s, *a)
        I.override(re.match, rematch, kind='assumed')

    # ---- invariants ---------------------------------------------------------------------------
    def inv1(self, k):
        RID, RP, RS = self.RID, self.RPROTO, self.RSUP
        allr = lambda r: z3.BoolVal(True)
        out = {}
        for nm, v in dedup_inv(self.KP.arr, self.KP.n, self.PVI.has, self.PVI.val, self.KP.fo,
                               lambda r: z3.Select(RP, r), allr, k).items():
            out['known-protocols.' + nm] = v
        for nm, v in odict_inv(self.KMV, lambda r: z3.Select(RID, r), lambda r: z3.Select(RP, r), allr, k).items():
            out['known-versions.' + nm] = v
        for nm, v in odict_inv(self.SMV, lambda r: z3.Select(RID, r), lambda r: z3.Select(RP, r),
                               lambda r: z3.Select(RS, r), k).items():
            out['supported-versions.' + nm] = v
        return out

    def inv2(self, j):
        S = self.SMV
        key = lambda r: z3.Select(S.ko, r)
        val = lambda r: z3.Select(S.val, z3.Select(S.ko, r))
        allr = lambda r: z3.BoolVal(True)
        rel = lambda r: _isrel(key(r))
        out = {}
        for nm, v in dedup_inv(self.SP.arr, self.SP.n, self.SP.has, self.SP.val, self.SP.fo, val, allr, j).items():
            out['supported-protocols.' + nm] = v
        for nm, v in odict_inv(self.RMV, key, val, rel, j).items():
            out['release-versions.' + nm] = v
        for nm, v in dedup_inv(self.RP.arr, self.RP.n, self.RP.has, self.RP.val, self.RP.fo, val, rel, j).items():
            out['release-protocols.' + nm] = v
        return out

    def run(self, I):
        E = I.E
        self.J = 0
        N = E.new_int('n_records', 0, None)
        self.RID = z3.Array('rec.id', IntS, IntS)
        self.RPROTO = z3.Array('rec.protocol', IntS, IntS)
        self.RSUP = z3.Array('rec.supported', IntS, BoolS)
        mk = lambda cls, nm: self._mk(cls, E, nm)
        self.KP, self.SP, self.RP = mk(SymList, 'KNOWN_PROTOCOL_VERSIONS'), mk(SymList, 'SUPPORTED_PROTOCOL_VERSIONS'), mk(SymList, 'RELEASE_PROTOCOL_VERSIONS')
        self.PVI = mk(SymDict, 'PROTOCOL_VERSION_INDICES')
        self.KMV, self.SMV, self.RMV = mk(SymODict, 'KNOWN_MINECRAFT_VERSIONS'), mk(SymODict, 'SUPPORTED_MINECRAFT_VERSIONS'), mk(SymODict, 'RELEASE_MINECRAFT_VERSIONS')
        g = I.global_overrides
        g[('minecraft', 'KNOWN_MINECRAFT_VERSION_RECORDS')] = Records(N)
        for nm, o in (('KNOWN_PROTOCOL_VERSIONS', self.KP), ('SUPPORTED_PROTOCOL_VERSIONS', self.SP), ('RELEASE_PROTOCOL_VERSIONS', self.RP),
                      ('PROTOCOL_VERSION_INDICES', self.PVI), ('KNOWN_MINECRAFT_VERSIONS', self.KMV),
                      ('SUPPORTED_MINECRAFT_VERSIONS', self.SMV), ('RELEASE_MINECRAFT_VERSIONS', self.RMV)):
            g[('minecraft', nm)] = o
        try:
            I.call(minecraft.initglobals, use_known_records=True)
        except PyRaise as e:
            E.check('init.no-raise', False, note='%r' % (e.exc,))
            return None
        # both loops were left through their exit branches: the tables satisfy inv1(N) and inv2(|supported versions|),
        # i.e. they are the projections of the CURRENT records, whatever the tables held before
        E.check('init.postcondition-reached', True)
        return None

    def _mk(self, cls, E, nm):
        o = cls(E, nm)
        o.unit = self
        return o

    def replay(self, model, label):
        from .c08 import InitGlobalsBounded
        import random
        b = InitGlobalsBounded().bounded(random.Random(1), 'quick')
        if b['failures']:
            f = b['failures'][0]
            return dict(confirmed=True, call=f['call'], observed=f['observed'])
        return dict(confirmed=False, call='initglobals on generated record lists', observed='conforms')


class CheckedForSpec(ForSpec):
    """ForSpec that checks every conjunct of the invariant as its own named obligation."""

    def __init__(self, label, length, element, invariant, havoc, conjuncts):
        ForSpec.__init__(self, label, length, element, invariant, havoc)
        self.conjuncts = conjuncts

    def run(self, I, node, frame):
        from pyvc.engine import PathEnd
        from pyvc.interp import _Break, _Continue
        E = I.E
        it = I.eval(node.iter, frame)
        n = self.length(I, it)
        E.notes.append('loop contract %s (quantified for-loop invariant over the record index)' % self.label)
        for nm, f in self.conjuncts(0).items():
            E.check('%s.entry.%s' % (self.label, nm), SBool(f), kind='loop')
        b = E.new_bool('%s.iterate' % self.label)
        if E.decide(b.t):
            j = E.new_int('%s.j' % self.label, 0, None)
            E.assume(j < n)
            self.havoc(I, frame, j)
            assumed = self.conjuncts(j)
            k0 = len(E.pc)
            E.assume(self.invariant(I, frame, j))
            k1 = len(E.pc)
            I.assign(node.target, self.element(I, it, j), frame)
            try:
                I.exec_block(node.body, frame)
            except _Break:
                return
            except _Continue:
                pass
            # Each conjunct is discharged against the path facts plus only the invariant conjuncts of ITS OWN table
            # (fewer assumptions: still sound, and it keeps the quantified queries small).
            import time as _t
            from pyvc.engine import Obligation, DISCHARGED, FAILED, UNKNOWN
            facts = E.pc[:k0] + E.pc[k1:]
            for nm, f in self.conjuncts(j + 1).items():
                group = nm.split('.')[0]
                s = z3.Solver()
                s.set('timeout', E.timeout_ms)
                s.add(*facts)
                s.add(*[g for gn, g in assumed.items() if gn.split('.')[0] == group])
                s.add(z3.Not(f))
                t0 = _t.time()
                r = s.check()
                if r != z3.unsat:
                    # fall back to the full path condition before giving a verdict
                    ok = E.check('%s.preserved.%s' % (self.label, nm), SBool(f), kind='loop')
                    continue
                E.queries += 1
                E.solver_time += _t.time() - t0
                E.obligations.append(Obligation(E.unit, '%s.preserved.%s' % (self.label, nm), E.path_id, DISCHARGED,
                                                'z3-%s' % z3.get_version_string(), _t.time() - t0, kind='loop',
                                                note='discharged from the path facts and the invariant of table %s only' % group))
            raise PathEnd('loop body verified')
        self.havoc(I, frame, n)
        E.assume(self.invariant(I, frame, n))
        I.exec_block(node.orelse, frame)


def units(tier):
    return [InitGlobals()]
