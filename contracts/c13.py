"""C13 — listeners fire in documented order, once each; ignore stops later stages.

Under contract: Connection.register_packet_listener, PacketListener.__init__/call_packet,
Connection._react, Connection._write_packet.  Listener lists have SYMBOLIC length; the loops over them are
verified by for-loop invariants over the element index with ghost call counters, so the result holds for
any number of listeners.  Callbacks are abstract: each may return, raise IgnorePacket or raise another
exception; they are assumed not to mutate the listener lists during dispatch.
"""
import ast
import types

import z3

from minecraft.networking import connection as conn_mod
from minecraft.networking.connection import Connection
from minecraft.networking.packets import Packet, PacketListener
from minecraft.networking.packets import packet_listener as pl_mod
from minecraft.exceptions import IgnorePacket

from pyvc.driver import Unit
from pyvc.models import AbstractSeq
from pyvc.values import SInt, SBool, And, Or, Not, Implies, mk_bool, Unsupported
from pyvc.interp import PyRaise
from pyvc.loops import ForSpec
from pyvc.harness import native_call
from .common import harness_connection, native_connection, raw, loop_keys

ASSUMPTIONS = [
    'listener callbacks do not mutate the listener lists while a packet is being dispatched',
    'list.append appends at the end (Python list semantics)',
    'isinstance over the (abstract) registered types is an arbitrary relation match(j)',
]
C_ = 'minecraft.networking.connection.Connection.'


class Boom(Exception):
    pass


class AbsList(AbstractSeq):
    """A list of abstract listeners of symbolic length."""

    def __init__(self, kind, n):
        self.kind, self.n = kind, n


class Ghost(object):
    def __init__(self):
        self.early = 0
        self.main = 0       # reactor.react / packet.write
        self.normal = 0
        self.order_ok = True


class AbsListener(object):
    def __init__(self, unit, kind, j):
        self.unit, self.kind, self.j = unit, kind, j

    def call_packet(self, packet):
        u = self.unit
        E = u.I.E
        G = u.G
        if self.kind == 'early':
            E.check('dispatch.order', And(G.early == self.j, G.main == 0, G.normal == 0), kind='post',
                    note='early listener j runs after exactly the early listeners before it, before the built-in stage')
            G.early = G.early + 1
        else:
            E.check('dispatch.order', And(G.early == u.n_early, G.main == 1, G.normal == self.j),
                    note='ordinary listener j runs after all early listeners, the built-in stage and the ordinary ones before it')
            G.normal = G.normal + 1
        b = E.fork(3, 'behaviour')
        u.last = (self.kind, self.j, b)
        if b == 1:
            raise IgnorePacket()
        if b == 2:
            raise Boom()
        return True


class Dispatch(Unit):
    """react.order / write.order for listener lists of ANY length."""
    prop = 'C13'
    int_mode = 'int'

    def __init__(self, which):
        self.which = which          # '_react' | '_write_packet'
        self.name = 'C13.%s' % which.strip('_')
        self.functions = (C_ + which,)

    def setup(self, I):
        self.I = I
        f = raw(Connection, self.which)
        from .common import reachable_loops
        keys = reachable_loops(f, Connection, kind=ast.For, depth=1)
        if not keys:
            raise Unsupported('contract does not fit the code any more: %s has no listener loop' % self.which)
        unit = self
        cur = {}

        # ONE contract for "offer the packet to every listener of a list, in order"; which stage it is follows from the
        # list being iterated (early / ordinary), not from where the loop is written (inline or in a shared helper)
        def length(I_, it):
            if not isinstance(it, AbsList):
                raise Unsupported('listener-loop contract applied to a loop over %s' % type(it).__name__)
            cur['kind'] = it.kind
            return it.n

        def element(I_, it, j):
            return AbsListener(unit, it.kind, j)

        def inv(I_, frame, j):
            G = unit.G
            if cur['kind'] == 'early':
                return And(G.early == j, G.main == 0, G.normal == 0)
            return And(G.early == unit.n_early, G.main == 1, G.normal == j)

        def havoc(I_, frame, j):
            # the loop only advances the ghost counter of its own stage
            if cur['kind'] == 'early':
                unit.G.early = j
            else:
                unit.G.normal = j
        for key in keys:
            I.loop_specs[key] = ForSpec('listeners', length, element, inv, havoc)

    def run(self, I):
        E = I.E
        self.G = Ghost()
        self.last = None
        self.n_early = E.new_int('n_early', 0, None)
        self.n_normal = E.new_int('n_normal', 0, None)
        conn = harness_connection()
        lists = dict(early=AbsList('early', self.n_early), normal=AbsList('normal', self.n_normal))
        unit = self
        main_behaviour = E.fork(3, 'main-stage')
        sends = []

        def main_stage(*a):
            G = unit.G
            E.check('dispatch.order', And(G.early == unit.n_early, G.main == 0, G.normal == 0),
                    note='the built-in stage runs once, after all early listeners and before the ordinary ones')
            G.main = G.main + 1
            sends.append(a)
            if main_behaviour == 1:
                raise IgnorePacket()
            if main_behaviour == 2:
                raise Boom()

        if self.which == '_react':
            conn.__dict__.update(early_packet_listeners=lists['early'], packet_listeners=lists['normal'],
                                 reactor=types.SimpleNamespace(react=main_stage))
            packet = 'PACKET'
        else:
            thr = E.new_int('thr')
            enabled = bool(E.fork(2, 'compression'))
            conn.__dict__.update(early_outgoing_packet_listeners=lists['early'], outgoing_packet_listeners=lists['normal'],
                                 socket='SOCK', options=types.SimpleNamespace(compression_enabled=enabled,
                                                                              compression_threshold=thr))
            packet = types.SimpleNamespace(write=main_stage)
        before = dict(conn.__dict__)
        try:
            I.call(raw(Connection, self.which), conn, packet)
            outcome = 'returned'
        except PyRaise as e:
            outcome = e.exc
        G = self.G
        E.check('dispatch.frame', conn.__dict__ == before, note='no listener list or flag of the connection is modified')
        if outcome == 'returned':
            # either everything ran, or some stage raised IgnorePacket and everything after it was skipped
            full = And(G.early == self.n_early, G.main == 1, G.normal == self.n_normal)
            if self.last is not None and self.last[2] == 1:
                kind, j, _ = self.last
                if kind == 'early':
                    E.check('ignore.stops-later-stages', And(G.early == j + 1, G.main == 0, G.normal == 0),
                            note='IgnorePacket from early listener j: no later early listener, no built-in stage, no ordinary listener')
                else:
                    E.check('ignore.stops-later-stages', And(G.early == self.n_early, G.main == 1, G.normal == j + 1))
            elif main_behaviour == 1 and _is_one(G.main):
                E.check('ignore.stops-later-stages', And(G.early == self.n_early, G.normal == 0))
            else:
                E.check('dispatch.all-once', full, note='every listener of both groups exactly once, in order')
            if self.which == '_write_packet' and _is_one(G.main):
                want = ('SOCK', thr) if enabled else ('SOCK',)
                E.check('write.args', sends == [want], note='written once, with the threshold iff compression is enabled')
            if self.which == '_write_packet' and self.last is not None and self.last[0] == 'early' and self.last[2] == 1:
                E.check('write.suppressed', sends == [], note='an early outgoing listener raising IgnorePacket suppresses the write')
        else:
            E.check('dispatch.other-exceptions-propagate', isinstance(outcome, Boom),
                    note='only IgnorePacket is swallowed; %r' % (outcome,))
        return None

    def replay(self, model, label):
        # the counter-model is an abstract listener configuration: search concrete ones that show the failure
        import random
        rp = None
        for seed in range(400):
            rp = replay_dispatch(self.which, random.Random(seed))
            if rp['confirmed']:
                return rp
        return rp

    def bounded(self, rng, tier):
        fails, cnt = [], 0
        for _ in range(300 if tier == 'quick' else 3000):
            cnt += 1
            rp = replay_dispatch(self.which, rng)
            if rp['confirmed']:
                fails.append(dict(call=rp['call'], observed=rp['observed'], witness='dispatch'))
                break
        return dict(name=self.name + '.random-configurations', evaluations=cnt, failures=fails,
                    bound='seeded histories of 1..4 dispatches with listeners registered before and between them (0..7 + 0..2 per round, type filters from a 4-class hierarchy, random ignore)')


def _is_one(x):
    return (isinstance(x, int) and x == 1) or (isinstance(x, SInt) and z3.is_int_value(z3.simplify(x.t)) and
                                               z3.simplify(x.t).as_long() == 1)


class PA(Packet):
    packet_name = 'a'


class PB(PA):
    packet_name = 'b'


class PC(Packet):
    packet_name = 'c'


def replay_dispatch(which, rng=None):
    """The executable contract on the real Connection with concrete listeners, over a HISTORY: listeners are registered,
    a packet is dispatched, more listeners are registered (for the same class, a superclass, a subclass), the next packet is
    dispatched, ... - every dispatch must follow the lists as they are at that moment (state carried between dispatches,
    such as a per-class cache of applicable listeners, must not show: seeded change C13-r8)."""
    import random
    rng = rng or random.Random(7)
    conn = native_connection()
    conn.early_packet_listeners, conn.packet_listeners = [], []
    conn.early_outgoing_packet_listeners, conn.outgoing_packet_listeners = [], []
    trace = []
    classes = [Packet, PA, PB, PC]
    expected_groups = {(e, o): [] for e in (False, True) for o in (False, True)}
    main = []
    if which == '_react':
        conn.reactor = types.SimpleNamespace(react=lambda p: main.append('react') or trace.append('MAIN'))
        outgoing = False
    else:
        conn.options = types.SimpleNamespace(compression_enabled=False, compression_threshold=-1)
        conn.socket = 'SOCK'
        outgoing = True
    idx = 0
    rounds = rng.choice([1, 1, 2, 3, 4])
    sent = []
    for rnd in range(rounds):
        for _ in range(rng.randrange(0, 8) if rnd == 0 else rng.randrange(0, 3)):
            early, out_flag = rng.random() < 0.5, rng.random() < 0.5
            types_ = tuple(rng.sample(classes, rng.randrange(1, 3)))
            beh = rng.choice(['ret', 'ret', 'ret', 'ignore'])

            def cb(packet, idx=idx, beh=beh):
                trace.append(idx)
                if beh == 'ignore':
                    raise IgnorePacket()
            kw = {}
            if early:
                kw['early'] = True
            if out_flag:
                kw['outgoing'] = True
            # now and then the very same registration is made twice (same callback, same types, same stage): two listeners
            for _rep in range(2 if rng.random() < 0.2 else 1):
                Connection.register_packet_listener(conn, cb, *types_, **kw)
                expected_groups[(early, out_flag)].append((idx, types_, beh))
            idx += 1
        # later rounds prefer a class that has been dispatched before (what a cache would key on)
        cls = rng.choice(sent) if sent and rng.random() < 0.6 else rng.choice([PA, PB, PC, Packet])
        sent.append(cls)
        pkt = cls()
        if which != '_react':
            pkt.write = lambda *a: main.append(a) or trace.append('MAIN')
        del trace[:]
        k, v = native_call(getattr(conn, which), pkt)
        want = []
        stopped = False
        for early in (True, False):
            if not early and not stopped:
                want.append('MAIN')
            for i_, types_, beh in expected_groups[(early, outgoing)]:
                if stopped:
                    break
                if isinstance(pkt, types_):
                    want.append(i_)
                    if beh == 'ignore':
                        stopped = True
            if stopped:
                break
        bad = None
        if k != 'ok':
            bad = '%s %r' % (k, v)
        elif trace != want:
            bad = 'call trace %r, documented order gives %r' % (trace, want)
        if bad:
            return dict(confirmed=True, call='%s, dispatch %d of a history (classes dispatched so far: %s) with %d listeners registered, on a %s'
                        % (which, rnd + 1, [c.__name__ for c in sent], idx, type(pkt).__name__), observed=bad)
    return dict(confirmed=False, call='%s over a history of %d dispatches' % (which, rounds), observed='conforms')


class Interfering(list):
    """A listener list on which ANOTHER thread registers at the worst moment: right after the code has taken a copy of the
    list (`target + [...]`, `target[:]`, `list(target)`, `target.copy()`), i.e. between the read and the write-back of a
    non-atomic update.  A single `append` / `insert` / `+=` takes no copy and meets no interference.  (Interference
    injected at the read points of shared state - a directed schedule, not an exploration; seeded change C13-r11.)"""
    intruder = None
    fired = False

    def _interfere(self):
        if not self.fired and self.intruder is not None:
            self.fired = True
            list.append(self, self.intruder)

    def __add__(self, other):
        r = list.__add__(self, other)
        self._interfere()
        return r

    def __getitem__(self, k):
        r = list.__getitem__(self, k)
        if isinstance(k, slice):
            self._interfere()
        return r

    def copy(self):
        r = list.copy(self)
        self._interfere()
        return r

    def __iter__(self):
        snap = tuple(list.__iter__(self))
        self._interfere()
        return iter(snap)


class Register(Unit):
    prop = 'C13'
    name = 'C13.register'
    int_mode = 'int'
    functions = (C_ + 'register_packet_listener', 'minecraft.networking.packets.packet_listener.PacketListener.__init__')

    def run(self, I):
        E = I.E
        conn = harness_connection()
        names = ('packet_listeners', 'early_packet_listeners', 'outgoing_packet_listeners', 'early_outgoing_packet_listeners')
        cb = lambda p: None
        # the lists already hold listeners - among them, possibly, one registered earlier with the SAME callback and the same
        # types (an application's set-up routine that runs again before a reconnect): registering is appending, every
        # registration is a listener of its own (seeded change C13-r9: "the same" listener silently dropped)
        dup = bool(E.fork(2, 'registered-before'))
        pre = {n: [PacketListener(lambda p: None, PC) for i in range(k)] + ([PacketListener(cb, PA, PC)] if dup else [])
               for k, n in enumerate(names)}
        racing = bool(E.fork(2, 'another-thread-registers'))
        intruder = PacketListener(lambda p: None, PB)
        for n in names:
            if racing:
                conn.__dict__[n] = Interfering(pre[n])
                conn.__dict__[n].intruder = intruder
            else:
                conn.__dict__[n] = list(pre[n])
        e = E.fork(3, 'early')
        o = E.fork(3, 'outgoing')
        kw = {}
        if e:
            kw['early'] = (e == 2)
        if o:
            kw['outgoing'] = (o == 2)
        I.call(raw(Connection, 'register_packet_listener'), conn, cb, PA, PC, **kw)
        target = {(False, False): 'packet_listeners', (True, False): 'early_packet_listeners',
                  (False, True): 'outgoing_packet_listeners', (True, True): 'early_outgoing_packet_listeners'}[(e == 2, o == 2)]
        if racing:
            lst = conn.__dict__[target]
            mine = [x for x in list.__iter__(lst) if isinstance(x, PacketListener) and x.callback is cb and x not in pre[target]]
            E.check('register.no-lost-update', len(mine) == 1 and (not getattr(lst, 'fired', False) or
                                                                    any(x is intruder for x in list.__iter__(lst))),
                    note='a registration made by another thread between the copy and the write-back of a non-atomic list update '
                         'must not be lost (registration = ONE atomic list operation)')
            return None
        for n in names:
            lst = conn.__dict__[n]
            if n == target:
                same = lambda a, b: len(a) == len(b) and all(x is y for x, y in zip(a, b))
                ok = same(lst[:-1], pre[n]) and len(lst) == len(pre[n]) + 1 and isinstance(lst[-1], PacketListener) and \
                    lst[-1].callback is cb and lst[-1].packets_to_listen == [PA, PC]
                E.check('register.appended', ok, note='appended at the end of the list selected by (early, outgoing)')
            else:
                E.check('register.others-unchanged', len(lst) == len(pre[n]) and all(x is y for x, y in zip(lst, pre[n])))
        return None

    def replay(self, model, label):
        return replay_register()

    def bounded(self, rng, tier):
        rp = replay_register()
        return dict(name='C13.register.concrete', evaluations=rp['n'], bound='all (early, outgoing) flag combinations x method / decorator '
                    'on a real Connection', failures=[dict(call=rp['call'], observed=rp['observed'], witness='register')] if rp['confirmed'] else [])


_match = z3.Function('match', z3.IntSort(), z3.BoolSort())


class AbsType(object):
    def __init__(self, j):
        self.j = j

    def __sym_instancecheck__(self, x):
        return SBool(_match(self.j.t if isinstance(self.j, SInt) else z3.IntVal(self.j)))


class Filter(Unit):
    """call_packet: the callback runs at most once, and exactly once iff some registered type matches
    (registered type list of symbolic length, abstract isinstance relation)."""
    prop = 'C13'
    name = 'C13.filter'
    int_mode = 'int'
    functions = ('minecraft.networking.packets.packet_listener.PacketListener.call_packet',)

    def setup(self, I):
        f = raw(PacketListener, 'call_packet')
        # the loop over the registered types, wherever it is written: in call_packet or in a private helper it calls
        from .common import reachable_loops
        keys = reachable_loops(f, PacketListener, kind=ast.For, depth=1)
        unit = self

        def inv(I_, frame, j):
            jt = j.t if isinstance(j, SInt) else z3.IntVal(j)
            i = z3.Int('q')
            return And(unit.calls == 0, SBool(z3.ForAll([i], z3.Implies(z3.And(i >= 0, i < jt), z3.Not(_match(i))))))

        for k in keys:
            I.loop_specs[k] = ForSpec('types', lambda I_, it: it.n, lambda I_, it, j: AbsType(j), inv, lambda I_, fr, j: None)

        # the same filter written without a loop: isinstance(packet, tuple(types)) - by the language definition true iff
        # some element matches (assumed semantics of isinstance with a tuple)
        class AbsTypeTuple(object):
            def __init__(self, n):
                self.n = n

            def __sym_instancecheck__(self, x):
                i = z3.Int('q')
                nt = self.n.t if isinstance(self.n, SInt) else z3.IntVal(self.n)
                return SBool(z3.Exists([i], z3.And(i >= 0, i < nt, _match(i))))

        def tuple_model(I_, *a):
            if len(a) == 1 and isinstance(a[0], AbsList):
                return AbsTypeTuple(a[0].n)
            return tuple(*a)
        I.override(tuple, tuple_model, kind='assumed')

    def run(self, I):
        E = I.E
        self.calls = 0
        n = E.new_int('n', 0, None)
        unit = self
        beh = E.fork(2, 'callback')

        def cb(p):
            unit.calls += 1
            if beh:
                raise IgnorePacket()
        lst = object.__new__(PacketListener)
        lst.__dict__.update(callback=cb, packets_to_listen=AbsList('types', n))
        try:
            r = I.call(raw(PacketListener, 'call_packet'), lst, 'PACKET')
            outcome = r
        except PyRaise as e:
            outcome = e.exc
        i = z3.Int('q')
        none_match = SBool(z3.ForAll([i], z3.Implies(z3.And(i >= 0, i < n.t), z3.Not(_match(i)))))
        some_match = SBool(z3.Exists([i], z3.And(i >= 0, i < n.t, _match(i))))
        E.check('filter.at-most-once', self.calls <= 1)
        if self.calls == 1:
            E.check('filter.called-only-on-match', some_match)
            E.check('filter.result', outcome is True if not beh else isinstance(outcome, IgnorePacket))
        else:
            E.check('filter.not-called-means-no-match', none_match)
            E.check('filter.result', outcome is False)
        return None

    def replay(self, model, label):
        b = self.bounded(None, 'quick')
        if b['failures']:
            f = b['failures'][0]
            return dict(confirmed=True, call=f['call'], observed=f['observed'])
        return dict(confirmed=False, call='PacketListener.call_packet over the class hierarchy', observed='conforms')

    def bounded(self, rng, tier):
        fails, cnt = [], 0
        classes = [Packet, PA, PB, PC]
        import itertools
        for r in range(0, 4):
            for types_ in itertools.permutations(classes, r):
                for pc in classes:
                    cnt += 1
                    calls = []
                    l = PacketListener(lambda p: calls.append(p), *types_)
                    p = pc()
                    res = l.call_packet(p)
                    want = any(isinstance(p, t) for t in types_)
                    if len(calls) != (1 if want else 0) or res is not want:
                        fails.append(dict(call='PacketListener(%r).call_packet(%s)' % (types_, pc.__name__),
                                          observed='%d calls, returned %r' % (len(calls), res), witness='filter'))
        return dict(name='C13.filter.hierarchy', evaluations=cnt, failures=fails[:1], exhaustive_for_bound=True,
                    bound='every ordered selection of up to 3 of 4 classes x every packet class')


def replay_register():
    names = {(False, False): 'packet_listeners', (True, False): 'early_packet_listeners',
             (False, True): 'outgoing_packet_listeners', (True, True): 'early_outgoing_packet_listeners'}
    n = 0
    # flags are used by truthiness: 1 / 0 / '' select the same list as True / False (None here = keyword not passed)
    for early in (None, False, True, 1, 0, ''):
        for outgoing in (None, False, True, 1, 0):
            for via in ('method', 'decorator'):
                n += 1
                c = Connection('localhost', 25565)
                before = {v: list(getattr(c, v)) for v in names.values()}
                kw = {}
                if early is not None:
                    kw['early'] = early
                if outgoing is not None:
                    kw['outgoing'] = outgoing
                f = lambda p: None
                if via == 'method':
                    c.register_packet_listener(f, PA, PC, **kw)
                elif c.listener(PA, PC, **kw)(f) is not f:
                    return dict(confirmed=True, n=n, call='@listener', observed='the decorator does not return the function')
                target = names[(bool(early), bool(outgoing))]
                for v in names.values():
                    lst = getattr(c, v)
                    if v == target:
                        ok = lst[:-1] == before[v] and len(lst) == len(before[v]) + 1 and lst[-1].callback is f and \
                            list(lst[-1].packets_to_listen) == [PA, PC]
                    else:
                        ok = lst == before[v]
                    if not ok:
                        return dict(confirmed=True, n=n, call='listener registered via %s with %r' % (via, kw),
                                    observed='list %s is wrong afterwards (expected the new listener at the end of %s only)' % (v, target))
                # another thread registers between a copy of the list and its write-back: nothing may be lost
                c2 = Connection('localhost', 25565)
                il = Interfering(getattr(c2, target))
                il.intruder = PacketListener(lambda p: None, PB)
                setattr(c2, target, il)
                g = lambda p: None
                c2.register_packet_listener(g, PA, **kw)
                cur = list(list.__iter__(getattr(c2, target)))
                if il.fired and not any(x is il.intruder for x in cur) or not any(getattr(x, 'callback', None) is g for x in cur):
                    return dict(confirmed=True, n=n, call='register_packet_listener(%r) while another thread registers into the same '
                                'list between the copy and the write-back' % (kw,),
                                observed='the list afterwards lacks %s' % ('the other thread\'s listener (lost update)'
                                                                           if il.fired and not any(x is il.intruder for x in cur)
                                                                           else 'the new listener'))
                # the very same registration once more: a second listener
                k0 = len(getattr(c, target))
                c.register_packet_listener(f, PA, PC, **kw)
                if len(getattr(c, target)) != k0 + 1:
                    return dict(confirmed=True, n=n, call='the same callback registered twice with the same types and %r' % (kw,),
                                observed='list %s has %d entries after the second registration, expected %d'
                                         % (target, len(getattr(c, target)), k0 + 1))
    return dict(confirmed=False, n=n, call='listener registration', observed='conforms')


class Decorator(Unit):
    """@connection.listener(T1, T2, **flags) is register_packet_listener(f, T1, T2, **flags) and hands the function back."""
    prop = 'C13'
    name = 'C13.decorator'
    int_mode = 'int'
    functions = (C_ + 'listener', C_ + 'register_packet_listener')

    def run(self, I):
        E = I.E
        names = ('packet_listeners', 'early_packet_listeners', 'outgoing_packet_listeners', 'early_outgoing_packet_listeners')
        e, o = E.fork(3, 'early'), E.fork(3, 'outgoing')
        kw = {}
        if e:
            kw['early'] = (e == 2)
        if o:
            kw['outgoing'] = (o == 2)
        ntypes = E.fork(3, 'types')
        types_ = (PA, PC)[:ntypes]
        cb = lambda p: None
        a, b = harness_connection(), harness_connection()
        for c in (a, b):
            for n in names:
                c.__dict__[n] = ['x']
        dec = I.call(I.getattr_(a, 'listener'), *types_, **kw)
        E.check('decorator.lazy', all(a.__dict__[n] == ['x'] for n in names), note='nothing is registered before the decorator is applied')
        r = I.call(dec, cb)
        I.call(I.getattr_(b, 'register_packet_listener'), cb, *types_, **kw)
        E.check('decorator.returns-function', r is cb)
        # a decorator object is a value: applying it to a second function registers that one with the SAME types and flags
        # (seeded change C13-r16: the first application consumed the flags out of the shared keyword dict)
        cb2 = lambda p: None
        r2 = I.call(dec, cb2)
        I.call(I.getattr_(b, 'register_packet_listener'), cb2, *types_, **kw)
        E.check('decorator.returns-function[second application]', r2 is cb2)
        for n in names:
            la, lb = a.__dict__[n], b.__dict__[n]
            same = len(la) == len(lb) and all(x is y or (isinstance(x, PacketListener) and isinstance(y, PacketListener) and
                                                        x.callback is y.callback and x.packets_to_listen == y.packets_to_listen)
                                              for x, y in zip(la, lb))
            E.check('decorator.same-as-register[%s]' % n, same,
                    note='the decorator leaves the four listener lists exactly as the direct registration does')
        return None

    def replay(self, model, label):
        rp = replay_decorator_twice()
        return rp if rp['confirmed'] else replay_register()

    def bounded(self, rng, tier):
        rp = replay_decorator_twice()
        return dict(name='C13.decorator.applied-twice', evaluations=rp['n'], bound='one decorator object per flag combination, applied to two functions',
                    failures=[dict(call=rp['call'], observed=rp['observed'], witness='decorator-twice')] if rp['confirmed'] else [])


def replay_decorator_twice():
    n = 0
    names = ('packet_listeners', 'early_packet_listeners', 'outgoing_packet_listeners', 'early_outgoing_packet_listeners')
    for early in (False, True):
        for outgoing in (False, True):
            n += 1
            c = Connection('h', 1, username='u', allowed_versions={757})
            dec = c.listener(PA, early=early, outgoing=outgoing)
            f, g = (lambda p: None), (lambda p: None)
            dec(f)
            dec(g)
            where = dict((cb, [nm for nm in names for l in getattr(c, nm) if l.callback is cb]) for cb in (f, g))
            if where[f] != where[g] or len(where[f]) != 1:
                return dict(confirmed=True, n=n, call='d = connection.listener(P, early=%r, outgoing=%r); d(f); d(g)' % (early, outgoing),
                            observed='f is registered in %r, g in %r' % (where[f], where[g]))
    return dict(confirmed=False, n=n, call='a listener decorator applied to two functions', observed='conforms')


def all_packet_classes():
    """Every class any get_packets() of the library returns for any supported version, plus their bases up to Packet."""
    import minecraft
    from minecraft.networking.connection import ConnectionContext
    from minecraft.networking.packets import clientbound, serverbound, Packet
    out = {Packet}
    for p in minecraft.SUPPORTED_PROTOCOL_VERSIONS:
        ctx = ConnectionContext(protocol_version=p)
        for side in (clientbound, serverbound):
            for st in ('handshake', 'status', 'login', 'play'):
                out |= set(getattr(side, st).get_packets(ctx))
    for c in list(out):
        out |= {b for b in c.__mro__ if issubclass(b, Packet)}
    return sorted(out, key=lambda c: (c.__module__, c.__qualname__))


def falsy_instance(cls):
    """An instance of cls for which bool() is False (attributes the truth test asks for are supplied empty), or None."""
    try:
        obj = cls()
    except Exception:       # noqa
        return None
    for _ in range(6):
        try:
            return obj if not bool(obj) else None
        except AttributeError as e:
            name = getattr(e, 'name', None)
            if not name:
                return None
            try:
                setattr(obj, name, [])
            except Exception:    # noqa
                return None
        except Exception:        # noqa
            return None
    return None


class PacketTruthiness(Unit):
    """The networking thread and the reactors tell "a packet was read" from "nothing to read" by the truth value of what
    read_packet returned (`if not packet: break`): the dispatch contracts hold for every packet only if every packet object
    is true.  Class invariant over all packet classes of all supported versions: truth is object identity (no __bool__, no
    __len__ anywhere in the MRO below object)."""
    prop = 'C13'
    name = 'C13.packets-are-true'
    int_mode = 'int'
    functions = ('minecraft.networking.packets.* [class invariant: no __bool__ / __len__]',)

    def run(self, I):
        E = I.E
        cs = all_packet_classes()
        E.check('truth.classes-found', len(cs) > 50)
        own = [(c, [n for n in ('__bool__', '__len__') if any(n in k.__dict__ for k in c.__mro__ if k is not object)]) for c in cs]
        defining = [(c, ns) for c, ns in own if ns]
        for c, ns in defining:
            w = falsy_instance(c)
            if w is None:
                raise Unsupported('%s defines %s: whether every instance is true is not decided by this contract' % (c.__name__, '/'.join(ns)))
            E.check('truth.every-packet-is-true[%s]' % c.__name__, False,
                    note='%s defines %s and has false instances: a false packet ends the read batch and is never dispatched'
                         % (c.__name__, '/'.join(ns)))
        E.check('truth.identity-based', not defining, note='%d packet classes, none overrides __bool__ / __len__' % len(cs))
        return None

    def replay(self, model, label):
        return replay_truthiness()

    def bounded(self, rng, tier):
        rp = replay_truthiness()
        return dict(name='C13.packets-are-true.instances', evaluations=rp['n'], bound='a default instance of every packet class of every '
                    'supported version', failures=[dict(call=rp['call'], observed=rp['observed'], witness='false-packet')]
                    if rp['confirmed'] else [])


def replay_truthiness():
    n = 0
    for c in all_packet_classes():
        n += 1
        w = falsy_instance(c)
        if w is not None:
            extra = {k: v for k, v in vars(w).items() if k != 'context'} if hasattr(w, '__dict__') else {}
            return dict(confirmed=True, n=n, call='bool(%s()) with %s' % (c.__name__, extra or 'no fields set'),
                        observed='False: NetworkingThread._run treats this packet as "nothing read", stops the batch and never '
                                 'passes it to the listeners or the reaction')
    return dict(confirmed=False, n=n, call='truth value of packet instances', observed='all true')


def units(tier):
    # "for every outgoing packet ... once each": a queued packet is handed to _write_packet (where its listeners run) by
    # _pop_packet only - once, also when the write fails
    from . import c11
    pop = c11.PopPacket()
    pop.prop, pop.name = 'C13', 'C13.outgoing.offered-once'
    return [Register(), Filter(), Dispatch('_react'), Dispatch('_write_packet'), Decorator(), PacketTruthiness(), pop]
