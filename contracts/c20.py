"""C20 — state trackers replay packet histories; helper value types obey their laws.

Under contract: the five PlayerListItemPacket actions' apply and PlayerListItemPacket.apply; MapPacket.apply_to_map /
apply_to_map_set; PlayerPositionAndLookPacket.apply; MutableRecord.__eq__/__ne__/__hash__/__iter__/_all_slots; Vector
operators; attribute_alias / multi_attribute_alias / attribute_transform; Enum / BitFieldEnum.name_from_value.
Histories: each packet application is a step contract over the whole abstract view (frame included); sequences follow
by induction over the steps.
"""
import ast
import itertools
import operator
import types
from fractions import Fraction

import z3

from minecraft.networking.packets import clientbound, serverbound
from minecraft.networking.packets.clientbound.play import (PlayerListItemPacket, MapPacket, PlayerPositionAndLookPacket,
                                                            SpawnPlayerPacket, EntityPositionDeltaPacket, BlockChangePacket,
                                                            MultiBlockChangePacket, ExplosionPacket)
from minecraft.networking.packets.serverbound.play import ClientSettingsPacket, PositionAndLookPacket
from minecraft.networking.types import utility as U, enum as En
from minecraft.networking.types import (Vector, MutableRecord, PositionAndLook, Direction, Position, GameMode, Difficulty,
                                        Dimension, BlockFace, OriginPoint, AbsoluteHand, RelativeHand)
from minecraft.networking.types.enum import Enum, BitFieldEnum

from pyvc.driver import Unit
from pyvc.values import SInt, SBool, SReal, SStr, And, Or, Not, Implies, W, Unsupported, to_real, is_symbolic
from pyvc.interp import PyRaise
from pyvc.loops import ForSpec
from pyvc.builtins_model import SymRange
from pyvc.harness import native_call
from .common import raw, loop_keys

ASSUMPTIONS = [
    'floats are modelled as reals in position.step and vector division (machine arithmetic treated as mathematical); an '
    'IEEE-double stand-in runs alongside',
    'hash of builtin values is a congruence (equal values hash equally): uninterpreted function of the components',
    'dict semantics of the tracker maps (store / lookup / delete) modelled by z3 arrays',
    'map.patch is proved for a patch lying inside the map and 128-cell-wide maps (the only width Minecraft uses and the '
    'default of MapPacket.Map); other widths are bounded only',
]


# ------------------------------------------------------------------------------------------
# position.step
# ------------------------------------------------------------------------------------------
class PositionStep(Unit):
    prop = 'C20'
    name = 'C20.position.step'
    int_mode = 'int'
    functions = ('minecraft.networking.packets.clientbound.play.player_position_and_look_packet.PlayerPositionAndLookPacket.apply',)
    trusted = ('floats as reals',)

    def run(self, I):
        E = I.E
        pkt = PlayerPositionAndLookPacket()
        tgt = PositionAndLook()
        names = ('x', 'y', 'z', 'yaw', 'pitch')
        new = {n: E.new_real('p_' + n) for n in names}
        old = {n: E.new_real('t_' + n) for n in names}
        for n in names:
            setattr(pkt, n, new[n])
            setattr(tgt, n, old[n])
        flags = E.new_int('flags', 0, 255)
        pkt.flags = flags
        try:
            I.call(raw(PlayerPositionAndLookPacket, 'apply'), pkt, tgt)
        except PyRaise as e:
            E.check('position.no-raise', False, note='%r' % (e.exc,))
            return None
        for bit, n in enumerate(names):
            rel = (flags // (1 << bit)) % 2 == 1
            got = to_real(getattr(tgt, n))
            want_t = z3.If((rel.t if isinstance(rel, SBool) else z3.BoolVal(rel)), old[n].t + new[n].t, new[n].t)
            if n in ('yaw', 'pitch'):
                want_t = want_t - 360 * z3.ToReal(z3.ToInt(want_t / 360))
                E.check('position.angle-range[%s]' % n, And(got >= 0, got < 360), note='angles wrap to [0, 360)')
            E.check('position.step[%s]' % n, SBool(got.t == want_t), note='added iff its relative flag is set, else replaced')
        return None

    def replay(self, model, label):
        rp = None
        for flags in [int(model.get('flags', 0x18)) & 31] + list(range(32)):
            for a, b in ((10.0, 20.0), (-1e-20, 0.0)):
                rp = replay_position((flags, a, b))
                if rp['confirmed']:
                    return rp
        return rp

    def bounded(self, rng, tier):
        fails, cnt = [], 0
        vals = [0.0, -0.0, 1e-20, -1e-20, -1e-300, 359.99999999999994, 360.0, -360.0, 720.0, 1e17, -1e17, 0.1, -0.1, 180.0]
        for flags in range(32):
            for a in vals:
                for b in (0.0, 90.0, -1e-20, 359.99999999999994):
                    cnt += 1
                    rp = replay_position((flags, a, b))
                    if rp['confirmed']:
                        fails.append(dict(call=rp['call'], observed=rp['observed'], witness='position-step'))
        for _ in range(2000):
            cnt += 1
            rp = replay_position((rng.randrange(32), rng.uniform(-1000, 1000), rng.uniform(-1000, 1000)))
            if rp['confirmed']:
                fails.append(dict(call=rp['call'], observed=rp['observed'], witness='position-step'))
        return dict(name='C20.position.ieee', evaluations=cnt, failures=fails[:1],
                    bound='all 32 flag combinations x boundary doubles (tiny negatives, multiples of 360) + 2000 seeded random')


def replay_position(case):
    flags, a, b = case or (0x18, -1e-20, 0.0)
    pkt = PlayerPositionAndLookPacket()
    pkt.x, pkt.y, pkt.z, pkt.yaw, pkt.pitch, pkt.flags = 1.0, 2.0, 3.0, a, a, flags
    t = PositionAndLook(x=10.0, y=20.0, z=30.0, yaw=b, pitch=b)
    k, v = native_call(pkt.apply, t)
    bad = None
    if k != 'ok':
        bad = '%s %r' % (k, v)
    else:
        for bit, (n, o, p) in enumerate((('x', 10.0, 1.0), ('y', 20.0, 2.0), ('z', 30.0, 3.0))):
            want = o + p if flags & (1 << bit) else p
            if getattr(t, n) != want:
                bad = '%s = %r, expected %r' % (n, getattr(t, n), want)
        for bit, n in ((3, 'yaw'), (4, 'pitch')):
            got = getattr(t, n)
            exact = (Fraction(b) + Fraction(a) if flags & (1 << bit) else Fraction(a)) % 360
            if not (0 <= got < 360):
                bad = '%s = %r is outside [0, 360)' % (n, got)
            elif min(abs(Fraction(got) - exact), 360 - abs(Fraction(got) - exact)) > Fraction(1, 10 ** 6) * max(1, abs(Fraction(a)) + abs(Fraction(b))):
                bad = '%s = %r, exact value %s' % (n, got, float(exact))
    return dict(confirmed=bad is not None, call='apply(flags=%#x, angle=%r) to a tracker with angle %r' % (flags, a, b), observed=bad or 'conforms')


# ------------------------------------------------------------------------------------------
# record.eq-hash
# ------------------------------------------------------------------------------------------
RECORD_CLASSES = [PositionAndLook, MapPacket.MapIcon, PlayerListItemPacket.PlayerListItem, PlayerListItemPacket.PlayerProperty,
                  MultiBlockChangePacket.Record, PlayerListItemPacket.AddPlayerAction, PlayerListItemPacket.UpdateLatencyAction,
                  PlayerListItemPacket.RemovePlayerAction]


class RecordLaws(Unit):
    prop = 'C20'
    name = 'C20.record.eq-hash'
    int_mode = 'int'
    functions = tuple('minecraft.networking.types.utility.MutableRecord.' + m for m in ('__eq__', '__ne__', '__hash__', '__iter__', '_all_slots', '__init__'))
    trusted = ('hash congruence on builtin values',)
    max_paths = 20000

    def run(self, I):
        E = I.E
        cls = RECORD_CLASSES[E.fork(len(RECORD_CLASSES), 'class')]
        slots = list(cls._all_slots())
        E.check('record.slots', slots == [s for c in reversed(cls.__mro__) for s in
                                          ((c.__dict__.get('__slots__', ()),) if isinstance(c.__dict__.get('__slots__', ()), str)
                                           else c.__dict__.get('__slots__', ()))])
        a, b = cls.__new__(cls), cls.__new__(cls)
        va = {s: E.new_int('a_' + s) for s in slots}
        vb = {s: E.new_int('b_' + s) for s in slots}
        for s in slots:
            setattr(a, s, va[s])
            setattr(b, s, vb[s])
        all_eq = And(*[va[s] == vb[s] for s in slots]) if slots else True
        eq = I.equals(a, b)
        E.check('record.eq-fieldwise', eq == all_eq if isinstance(eq, (SBool, bool)) else False,
                note='a == b  <=>  same type and all slots equal')
        ne = I.call(raw(MutableRecord, '__ne__'), a, b)
        E.check('record.ne-is-negation', ne == Not(all_eq) if isinstance(ne, (SBool, bool)) else False)
        ha, hb = I.call(raw(MutableRecord, '__hash__'), a), I.call(raw(MutableRecord, '__hash__'), b)
        E.check('record.eq-implies-hash', Implies(all_eq, ha == hb), note='records that compare equal hash equally')
        it = list(I.call(raw(MutableRecord, '__iter__'), a))
        E.check('record.iter', len(it) == len(slots) and all(x is va[s] for x, s in zip(it, slots)))
        # a record of another type never compares equal
        other = PositionAndLook() if cls is not PositionAndLook else MapPacket.MapIcon(0, 0, (0, 0))
        E.check('record.type-sensitive', I.equals(a, other) is False)
        # partially initialised records (a slot left unset - PlayerProperty without a signature, a fresh PositionAndLook -
        # or explicitly None): WHENEVER == answers True, the hashes agree (seeded change C20-r9: == reads an unset slot as
        # None while hash skips it)
        if slots:
            k = E.fork(len(slots), 'special-slot')
            sa, sb = E.fork(3, 'a-slot-state'), E.fork(3, 'b-slot-state')      # value / None / unset
            if sa or sb:
                a2, b2 = cls.__new__(cls), cls.__new__(cls)
                for j, sl in enumerate(slots):
                    for obj, vals, st in ((a2, va, sa), (b2, vb, sb)):
                        if j != k or st == 0:
                            setattr(obj, sl, vals[sl])
                        elif st == 1:
                            setattr(obj, sl, None)
                try:
                    eq2 = I.equals(a2, b2)
                except PyRaise:
                    eq2 = None               # comparing raises (an unset slot was read): no claim
                if eq2 is not None:
                    try:
                        h1, h2 = I.call(raw(MutableRecord, '__hash__'), a2), I.call(raw(MutableRecord, '__hash__'), b2)
                        agree = (h1 == h2)
                    except PyRaise:
                        agree = False
                    E.check('record.eq-implies-hash[partial]', Implies(eq2, agree) if not isinstance(eq2, bool) else
                            (agree if eq2 else True),
                            note='slot %s: a %s, b %s' % (slots[k], ('set', 'None', 'unset')[sa], ('set', 'None', 'unset')[sb]))
        return None

    def replay(self, model, label):
        return replay_records()      # (incl. the user-subclass scenario, which is what a failing frame obligation is replayed on)

    def bounded(self, rng, tier):
        rp = replay_records(rng)
        return dict(name='C20.record.samples', evaluations=rp['n'], bound='boundary and seeded random slot values for every record class',
                    failures=[dict(call=rp['call'], observed=rp['observed'], witness='record')] if rp['confirmed'] else [])


def replay_records(rng=None):
    import random
    rng = rng or random.Random(2)
    n = 0
    for cls in RECORD_CLASSES:
        slots = list(cls._all_slots())
        for _ in range(50):
            n += 1
            vals = [rng.choice([0, 1, -1, 'a', None, (1, 2), 2.5]) for _ in slots]
            a, b = cls.__new__(cls), cls.__new__(cls)
            vals_b = list(vals)
            if slots and rng.random() < 0.5:
                vals_b[rng.randrange(len(slots))] = 'different'
            for s, x, y in zip(slots, vals, vals_b):
                setattr(a, s, x)
                setattr(b, s, y)
            want = vals == vals_b
            if (a == b) is not want or (a != b) is want or (want and hash(a) != hash(b)) or list(a) != vals:
                return dict(confirmed=True, n=n, call='%s with slots %r / %r' % (cls.__name__, vals, vals_b),
                            observed='==: %r, !=: %r, hashes %r %r' % (a == b, a != b, hash(a), hash(b)))
        # a USER subclass of a library record that adds a field (documented: records are plain __slots__ classes), used after
        # the parent class has been compared / hashed / iterated: its own field takes part in ==, hash and iteration
        # (seeded change C20-r13: the slot tuple cached per class with getattr, so the subclass inherits its parent's)
        n += 1
        a0, b0 = cls.__new__(cls), cls.__new__(cls)
        for t in slots:
            setattr(a0, t, 1)
            setattr(b0, t, 1)
        _ = (a0 == b0, hash(a0), list(a0))
        Sub = type('User' + cls.__name__, (cls,), {'__slots__': ('user_extra',)})
        sa, sb = Sub.__new__(Sub), Sub.__new__(Sub)
        for t in slots:
            setattr(sa, t, 1)
            setattr(sb, t, 1)
        sa.user_extra, sb.user_extra = 'x', 'y'
        if list(Sub._all_slots()) != slots + ['user_extra'] or sa == sb or list(sa) != [1] * len(slots) + ['x']:
            return dict(confirmed=True, n=n, call='class User%s(%s) with __slots__ = ("user_extra",), used after %s itself was compared'
                        % (cls.__name__, cls.__name__, cls.__name__),
                        observed='_all_slots() = %r; records that differ only in user_extra compare equal: %r; iter gives %r'
                                 % (list(Sub._all_slots()), sa == sb, list(sa)))
        # partially initialised: one slot unset on one side and None (or unset) on the other
        for sl in slots:
            for st_a, st_b in ((2, 1), (1, 2), (2, 2), (1, 1)):
                n += 1
                a, b = cls.__new__(cls), cls.__new__(cls)
                for t in slots:
                    for obj, st in ((a, st_a), (b, st_b)):
                        if t != sl:
                            setattr(obj, t, 7)
                        elif st == 1:
                            setattr(obj, t, None)
                try:
                    same = (a == b)
                except AttributeError:
                    continue
                if same and hash(a) != hash(b):
                    return dict(confirmed=True, n=n, call='%s, slot %s %s on one record and %s on the other, all other slots 7'
                                % (cls.__name__, sl, ('', 'None', 'unset')[st_a], ('', 'None', 'unset')[st_b]),
                                observed='a == b is True but hash(a) != hash(b): one is not found in a set / dict holding the other')
    return dict(confirmed=False, n=n, call='record laws', observed='conform')


# ------------------------------------------------------------------------------------------
# vector.ops
# ------------------------------------------------------------------------------------------
class VectorOps(Unit):
    prop = 'C20'
    name = 'C20.vector.ops'
    int_mode = 'int'
    nonlinear_ok = True       # a // d with a symbolic positive divisor appears identically in code and spec
    functions = tuple('minecraft.networking.types.utility.Vector.' + m for m in
                      ('__add__', '__sub__', '__neg__', '__mul__', '__rmul__', '__truediv__', '__floordiv__'))

    def run(self, I):
        E = I.E
        cls = (Vector, Position, ExplosionPacket.Record)[E.fork(3, 'vector-class')]
        a = cls(*[E.new_int('a%d' % k) for k in range(3)])
        b = Vector(*[E.new_int('b%d' % k) for k in range(3)])
        s = E.new_int('s')
        d = E.new_int('d', 1, None)

        def comp(r, f):
            return And(type(r) is cls, *[r[k] == f(k) for k in range(3)])
        E.check('vector.add', comp(I.binop(ast.Add(), a, b), lambda k: a[k] + b[k]))
        E.check('vector.sub', comp(I.binop(ast.Sub(), a, b), lambda k: a[k] - b[k]))
        E.check('vector.neg', comp(I.call(raw(Vector, '__neg__'), a), lambda k: -a[k]))
        E.check('vector.mul', comp(I.binop(ast.Mult(), a, s), lambda k: a[k] * s))
        E.check('vector.rmul', comp(I.call(raw(Vector, '__rmul__'), a, s), lambda k: s * a[k]))
        E.check('vector.floordiv', comp(I.binop(ast.FloorDiv(), a, d), lambda k: a[k] // d))
        r = I.binop(ast.Div(), a, d)
        E.check('vector.truediv', And(type(r) is cls, *[SBool(to_real(r[k]).t == to_real(a[k]).t / to_real(d).t) for k in range(3)]))
        for nm in ('__add__', '__sub__'):
            E.check('vector.%s-non-vector' % nm, I.call(raw(Vector, nm), a, (1, 2, 3)) is NotImplemented)
        return None

    def replay(self, model, label):
        g = lambda k: int(model.get(k, 1))
        a = Position(g('a0'), g('a1'), g('a2'))
        b = Vector(g('b0'), g('b1'), g('b2'))
        s, d = g('s'), max(1, g('d'))
        bad = None
        if a + b != Position(a.x + b.x, a.y + b.y, a.z + b.z) or type(a + b) is not Position:
            bad = 'add'
        elif a - b != (a.x - b.x, a.y - b.y, a.z - b.z) or -a != (-a.x, -a.y, -a.z) or a * s != (a.x * s, a.y * s, a.z * s) \
                or s * a != a * s or a // d != (a.x // d, a.y // d, a.z // d) or a / d != (a.x / d, a.y / d, a.z / d):
            bad = 'component-wise law'
        return dict(confirmed=bad is not None, call='Vector laws on %r, %r, %r, %r' % (a, b, s, d), observed=bad or 'conform')

    def bounded(self, rng, tier):
        fails, cnt = [], 0
        for _ in range(500):
            cnt += 1
            m = {k: rng.randint(-10 ** 6, 10 ** 6) for k in ('a0', 'a1', 'a2', 'b0', 'b1', 'b2', 's', 'd')}
            rp = self.replay(m, '')
            if rp['confirmed']:
                fails.append(dict(call=rp['call'], observed=rp['observed'], witness='vector'))
                break
        return dict(name='C20.vector.samples', evaluations=cnt, failures=fails, bound='500 seeded random integer vectors')


# ------------------------------------------------------------------------------------------
# alias.readback
# ------------------------------------------------------------------------------------------
class Aliases(Unit):
    prop = 'C20'
    name = 'C20.alias.readback'
    int_mode = 'int'
    functions = ('minecraft.utility.attribute_alias', 'minecraft.utility.multi_attribute_alias',
                 'minecraft.utility.attribute_transform', 'minecraft.utility.partial_attribute_alias')

    CASES = []      # filled by discover_aliases(): every multi_attribute_alias / attribute_alias of the library

    def run(self, I):
        E = I.E
        k = E.fork(len(self.CASES) + 3, 'alias')
        if k < len(self.CASES):
            cls, alias, cont, attrs, decl = self.CASES[k]
            obj = cls.__new__(cls)
            if hasattr(obj, '__dict__'):
                obj.__dict__['context'] = None
            vals = [E.new_int('v%d' % j) for j in range(len(attrs))]
            try:
                value = alias_value(decl[0], decl[1], decl[2], vals)
            except TypeError as e:
                E.check('alias.readback[%s.%s]' % (cls.__name__, alias), False,
                        note='the declared container cannot be built from the declared names: %r' % (e,))
                return None
            try:
                I.setattr_(obj, alias, value)
                comps = [I.getattr_(obj, a) for a in attrs]
                back = I.getattr_(obj, alias)
            except PyRaise as e:
                E.check('alias.readback[%s.%s]' % (cls.__name__, alias), False, note='raised %r' % (e.exc,))
                return None
            E.check('alias.components[%s.%s]' % (cls.__name__, alias), all(c is v for c, v in zip(comps, vals)),
                    note='the underlying attributes hold the components')
            E.check('alias.readback[%s.%s]' % (cls.__name__, alias), I.equals(back, value) and type(back) is type(value))
            return None
        k -= len(self.CASES)
        if k == 0:
            obj = BlockChangePacket()
            v = E.new_int('v')
            I.setattr_(obj, 'blockStateId', v)
            E.check('alias.readback[blockStateId]', obj.block_state_id is v and I.getattr_(obj, 'blockStateId') is v)
            m = E.new_int('meta', 0, 15)
            bid = E.new_int('block', 0, (1 << 20) - 1)
            # the two sub-field accessors over block_state_id (Int mode: masks as div/mod)
            return None
        if k == 1:
            obj = EntityPositionDeltaPacket()
            v = E.new_int('delta', -(1 << 40), 1 << 40)
            I.setattr_(obj, 'delta_x', v)
            back = I.getattr_(obj, 'delta_x')
            E.check('transform.readback[delta_x]', back == v, note='from(to(v)) = v for integers (x / 4096 then int(. * 4096), over reals)')
            E.check('transform.underlying[delta_x]', SBool(to_real(obj.delta_x_float).t * 4096 == to_real(v).t))
            return None
        obj = ClientSettingsPacket()
        v = E.new_bool('flag')
        I.setattr_(obj, 'disable_text_filtering', v)
        back = I.getattr_(obj, 'disable_text_filtering')
        E.check('transform.readback[disable_text_filtering]', back == v if isinstance(back, SBool) else
                SBool(z3.BoolVal(back) == v.t))
        enabled = obj.enable_text_filtering
        E.check('transform.underlying[disable_text_filtering]', (enabled == Not(v)) if isinstance(enabled, SBool) else
                SBool(z3.BoolVal(enabled) == z3.Not(v.t)))
        return None

    def replay(self, model, label):
        return replay_aliases()

    def bounded(self, rng, tier):
        rp = replay_aliases()
        return dict(name='C20.alias.concrete', evaluations=rp['n'], bound='every alias of the library with concrete values',
                    failures=[dict(call=rp['call'], observed=rp['observed'], witness='alias')] if rp['confirmed'] else [])


def replay_aliases():
    n = 0
    for cls, alias, cont, attrs, decl in Aliases.CASES:
        n += 1
        obj = cls.__new__(cls)
        vals = [float(j + 1) for j in range(len(attrs))]
        try:
            value = alias_value(decl[0], decl[1], decl[2], vals)
            setattr(obj, alias, value)
            back = getattr(obj, alias)
        except Exception as e:
            return dict(confirmed=True, n=n, call='%s.%s set/get' % (cls.__name__, alias), observed='raised %r' % (e,))
        if [getattr(obj, a) for a in attrs] != vals or back != value:
            return dict(confirmed=True, n=n, call='%s.%s = %r' % (cls.__name__, alias, value), observed='reads back %r' % (back,))
    p = EntityPositionDeltaPacket()
    for v in (0, 1, -1, 4095, 4096, -4097, 2 ** 40, 123456789):
        n += 1
        p.delta_x = v
        if p.delta_x != v:
            return dict(confirmed=True, n=n, call='EntityPositionDeltaPacket.delta_x = %d' % v, observed='reads back %r' % p.delta_x)
    c = ClientSettingsPacket()
    for v in (True, False):
        n += 1
        c.disable_text_filtering = v
        if c.disable_text_filtering is not v or c.enable_text_filtering is v:
            return dict(confirmed=True, n=n, call='disable_text_filtering = %r' % v, observed='reads back %r' % c.disable_text_filtering)
    return dict(confirmed=False, n=n, call='aliases', observed='conform')


def _closure(fn):
    return dict(zip(fn.__code__.co_freevars, [c.cell_contents for c in (fn.__closure__ or ())]))


def discover_aliases():
    """Every class attribute of the library built by multi_attribute_alias (found through the closure of its getter)."""
    import inspect
    import minecraft.networking.packets.clientbound.play as cbp
    import minecraft.networking.packets.serverbound.play as sbp
    import minecraft.networking.packets.clientbound.login as cbl
    import minecraft.networking.packets.serverbound.login as sbl
    classes = []
    for mod in (cbp, sbp, cbl, sbl, U):
        for _n, c in inspect.getmembers(mod, inspect.isclass):
            classes.append(c)
            for _m, inner in inspect.getmembers(c, inspect.isclass):
                if inner.__qualname__.startswith(c.__qualname__ + '.'):
                    classes.append(inner)
    out, seen = [], set()
    for c in classes:
        for name, attr in list(vars(c).items()):
            if isinstance(attr, property) and attr.fget is not None and \
                    'multi_attribute_alias' in getattr(attr.fget, '__qualname__', ''):
                cl = _closure(attr.fget)
                key = (c, name)
                if key in seen:
                    continue
                seen.add(key)
                out.append((c, name, cl.get('container'), tuple(cl.get('arg_names', ())), dict(cl.get('kwd_names', {}))))
    return out


def alias_value(cont, arg_names, kwd_names, vals):
    """A container value whose components are vals (positional first, then keywords in declaration order)."""
    pos = vals[:len(arg_names)]
    kw = dict(zip(kwd_names, vals[len(arg_names):]))
    if getattr(cont, '__name__', '') == '<lambda>':       # the tuple special case
        return tuple(pos)
    return cont(*pos, **kw)


Aliases.CASES = [(c, name, cont, args + tuple(kw.values()), (cont, args, kw)) for c, name, cont, args, kw in discover_aliases()]


# ------------------------------------------------------------------------------------------
# flags.roundtrip
# ------------------------------------------------------------------------------------------
FLAG_ENUMS = [GameMode, ClientSettingsPacket.SkinParts, PlayerPositionAndLookPacket]
PLAIN_ENUMS = [Difficulty, Dimension, BlockFace, OriginPoint, AbsoluteHand, RelativeHand, clientbound.play.ChatMessagePacket.Position,
               ClientSettingsPacket.ChatMode, serverbound.play.ClientStatusPacket]


class Flags(Unit):
    prop = 'C20'
    name = 'C20.flags.roundtrip'
    int_mode = 'bv'
    functions = ('minecraft.networking.types.enum.BitFieldEnum.name_from_value', 'minecraft.networking.types.enum.Enum.name_from_value')
    max_paths = 50000

    def run(self, I):
        E = I.E
        k = E.fork(len(FLAG_ENUMS) + len(PLAIN_ENUMS), 'enum')
        v = E.new_int('v', -(1 << 40), 1 << 40)
        if k < len(FLAG_ENUMS):
            cls = FLAG_ENUMS[k]
            r = I.call(raw(BitFieldEnum, 'name_from_value'), cls, v)
            if r is None:
                return None
            E.check('flags.string', isinstance(r, str))
            if not isinstance(r, str):
                return None
            # parse back: OR of the named members ('0' -> 0)
            total = 0
            ok = True
            for name in r.split('|'):
                if name == '0':
                    continue
                m = cls.__dict__.get(name)
                ok = ok and isinstance(m, int) and name.isupper()
                total |= m if isinstance(m, int) else 0
            E.check('flags.names-are-members[%s]' % cls.__name__, ok)
            E.check('flags.roundtrip[%s]' % cls.__name__, v == total, note='%r parses back to the value' % r)
            return None
        cls = PLAIN_ENUMS[k - len(FLAG_ENUMS)]
        r = I.call(raw(Enum, 'name_from_value'), cls, v)
        if r is None:
            members = [x for n, x in cls.__dict__.items() if n.isupper() and isinstance(x, int)]
            E.check('enum.none-means-no-member[%s]' % cls.__name__, And(*[v != x for x in members]) if members else True)
        else:
            E.check('enum.name-has-value[%s]' % cls.__name__, isinstance(r, str) and r.isupper() and v == cls.__dict__[r])
        return None

    def replay(self, model, label):
        v = int(model.get('v', 0))
        return replay_flags(v)

    def bounded(self, rng, tier):
        fails, cnt = [], 0
        for v in list(range(-2, 300)) + [rng.getrandbits(12) for _ in range(300)]:
            cnt += 1
            rp = replay_flags(v)
            if rp['confirmed']:
                fails.append(dict(call=rp['call'], observed=rp['observed'], witness='flags'))
                break
        # generated enums (bounded only): random member tables
        for _ in range(300):
            cnt += 1
            members = {'F%d' % j: rng.choice([0, 1, 2, 3, 4, 8, 12, 16, 31, 64, 127]) for j in range(rng.randrange(1, 7))}
            G = type('G', (BitFieldEnum,), dict(members))
            for v in range(0, 128):
                r = G.name_from_value(v)
                if r is not None:
                    back = 0
                    for nm in r.split('|'):
                        back |= 0 if nm == '0' else members[nm]
                    if back != v:
                        fails.append(dict(call='generated enum %r, value %d' % (members, v), observed='name %r parses to %d' % (r, back),
                                          witness='flags-generated'))
                        break
        return dict(name='C20.flags.values', evaluations=cnt, failures=fails[:1],
                    bound='values -2..299 + 300 seeded 12-bit values for every library enum; 300 generated flag enums x values 0..127')


def replay_flags(v):
    for cls in FLAG_ENUMS:
        r = cls.name_from_value(v) if cls is not PlayerPositionAndLookPacket else BitFieldEnum.name_from_value.__func__(cls, v)
        if r is not None:
            back = 0
            for nm in r.split('|'):
                back |= 0 if nm == '0' else getattr(cls, nm)
            if back != v:
                return dict(confirmed=True, call='%s.name_from_value(%d)' % (cls.__name__, v), observed='%r parses back to %d' % (r, back))
    for cls in PLAIN_ENUMS:
        r = Enum.name_from_value.__func__(cls, v)
        if r is not None and cls.__dict__[r] != v:
            return dict(confirmed=True, call='%s.name_from_value(%d)' % (cls.__name__, v), observed='%r has value %r' % (r, cls.__dict__[r]))
    return dict(confirmed=False, call='name_from_value(%d)' % v, observed='conforms')


def units(tier):
    from . import c20_trackers
    return [PositionStep(), RecordLaws(), VectorOps(), Aliases(), Flags()] + c20_trackers.units(tier)
