"""C14 — networking-thread exceptions are contained and routed like try/except.

Under contract: Connection._handle_exception, register_exception_handler, NetworkingThread.run,
PacketReactor.handle_exception.  The handler list has SYMBOLIC length; the loop over it is verified by a
for-loop invariant, each iteration being checked against one step of the try/except-chain fold of the
statement (spec: cur := exc; for h in handlers: if match(h, cur): call h(cur); returns => caught, stop;
raises e => cur := e; then the final handler, if a function, is called with cur and may replace it).
Handler behaviour is abstract: matches or not, returns or raises a fresh exception.
"""
import ast
import sys
import types

import z3

from minecraft.networking import connection as conn_mod
from minecraft.networking.connection import Connection, NetworkingThread, PacketReactor
from minecraft.exceptions import IgnorePacket

from pyvc.driver import Unit
from pyvc.models import AbstractSeq
from pyvc.values import SInt, SBool, And, Or, Not, Implies, Unsupported
from pyvc.interp import PyRaise
from pyvc.loops import ForSpec
from pyvc.models import GhostLock
from pyvc.harness import native_call
from .common import harness_connection, native_connection, lock_name, raw, loop_keys

ASSUMPTIONS = [
    'exception handlers do not mutate the handler list while it is being traversed',
    'sys.exc_info() inside an except block returns (type(e), e, traceback) of the exception being handled',
    'threading.RLock gives mutual exclusion and re-entrancy; Thread.join returns only after the target finished',
    'handler matching (isinstance against the registered types) is an arbitrary relation match(j, current exception)',
]
C_ = 'minecraft.networking.connection.Connection.'
_match = z3.Function('hmatch', z3.IntSort(), z3.IntSort(), z3.BoolSort())


class AbsExc(Exception):
    """An abstract exception value; `tag` identifies it (symbolic or concrete)."""

    def __init__(self, tag):
        Exception.__init__(self, 'abstract')
        self.tag = tag


class FrozenAbsExc(AbsExc):
    """An exception object that rejects attribute assignment (a frozen-dataclass exception, a read-only `exc_info` property,
    a custom __setattr__): the backward-compatible `exc.exc_info = ...` is best effort and must not end the handling."""

    def __init__(self, tag):
        Exception.__init__(self, 'abstract')
        Exception.__setattr__(self, 'tag', tag)

    def __setattr__(self, name, value):
        raise AttributeError("cannot assign to field %r" % (name,))


def tag_term(e):
    t = e.tag
    return t.t if isinstance(t, SInt) else z3.IntVal(t)


class AbsBase(BaseException):
    """An abstract non-Exception BaseException (e.g. a thread kill)."""


class AbsTypes(object):
    def __init__(self, unit, j):
        self.unit, self.j = unit, j

    def __bool__(self):
        # "not exc_types": an empty tuple matches everything; folded into match(j, .)
        return True

    def __sym_instancecheck__(self, exc):
        jt = self.j.t if isinstance(self.j, SInt) else z3.IntVal(self.j)
        return SBool(_match(jt, tag_term(exc)))


class AbsHandlers(AbstractSeq):
    def __init__(self, n):
        self.n = n


def install_exc_info(I):
    def exc_info(I_):
        e = getattr(I_, 'current_exc', None)
        if e is None:
            return (None, None, None)
        return (type(e), e, None)
    I.override(sys.exc_info, exc_info, kind='assumed')


class Chain(Unit):
    prop = 'C14'
    name = 'C14.chain'
    int_mode = 'int'
    functions = (C_ + '_handle_exception',)

    def setup(self, I):
        self.I = I
        install_exc_info(I)
        from .common import reachable_loops
        keys = reachable_loops(raw(Connection, '_handle_exception'), Connection, kind=ast.For, depth=1)
        if len(keys) != 1:
            raise Unsupported('contract does not fit the code any more: _handle_exception no longer has exactly one loop')
        unit = self

        def element(I_, it, j):
            def handler(exc, exc_info):
                E = I_.E
                unit.calls.append((j, exc))
                E.check('chain.step-called-on-match', And(SBool(_match(j.t if isinstance(j, SInt) else z3.IntVal(j), tag_term(exc))),
                                                           exc is unit.frame_exc()),
                        note='handler j is called only if it matches, with the CURRENT exception')
                E.check('chain.step-exc-info', exc_info[1] is exc, note='exc_info belongs to the exception passed')
                if E.fork(2, 'handler-raises'):
                    new = AbsExc(E.new_int('raised'))
                    unit.raised_by_handler = new
                    raise new
            return (handler, AbsTypes(unit, j))

        def roles(frame):
            # the exception in flight and its exc_info triple, whatever the locals are called
            excs = [k for k, v in frame.locals.items() if isinstance(v, AbsExc)]
            infos = [k for k, v in frame.locals.items() if isinstance(v, tuple) and len(v) == 3 and isinstance(v[1], AbsExc)]
            if len(excs) != 1 or len(infos) != 1 or frame.locals[infos[0]][1] is not frame.locals[excs[0]]:
                raise Unsupported('handler loop: expected one exception local and its exc_info triple, found %r / %r' % (excs, infos))
            return excs[0], infos[0]

        def inv(I_, frame, j):
            # before iteration j: there is an exception in flight (the fold's current one), nothing was caught yet
            roles(frame)
            return True

        def havoc(I_, frame, j):
            E = I_.E
            exc_name, info_name = roles(frame)
            if not (isinstance(j, int) and j == 0):
                cur = AbsExc(E.new_int('cur@head'))
                frame.locals[exc_name] = cur
                frame.locals[info_name] = (AbsExc, cur, None)
            unit.frame = frame
            unit.head_exc = frame.locals[exc_name]
            unit.calls = []
            unit.raised_by_handler = None
        I.loop_specs[keys[0]] = ForSpec('handlers', lambda I_, it: it.n, element, inv, havoc)

    def frame_exc(self):
        return self.head_exc

    def run(self, I):
        E = I.E
        unit = self
        self.calls = []
        self.raised_by_handler = None
        self.frame = None
        n = E.new_int('n_handlers', 0, None)
        conn = harness_connection()
        # any exception object may arrive, also one that cannot take new attributes (seeded change C14-r16)
        frozen = bool(E.fork(2, 'exception-rejects-attributes'))
        e0 = (FrozenAbsExc if frozen else AbsExc)(0)
        # final handler: None / False / function that returns / function that raises
        fk = E.fork(4, 'final-handler')
        final_calls = []
        final_exc = (FrozenAbsExc if frozen else AbsExc)(E.new_int('final-raised'))

        # a final handler may start a new connection on the same object ("unless a handler has already started a new
        # one"): the REAL _connect runs (socket layer modelled) - whatever it resets, the record of the exception that ended
        # the old thread must be on the connection afterwards (seeded change C14-r10: _connect clears the record, which the
        # handler chain now writes BEFORE the final handler)
        reconnects = bool(E.fork(2, 'final-handler-reconnects')) if fk == 2 else False

        def final(exc, exc_info):
            final_calls.append((exc, exc_info))
            if reconnects:
                from .c16 import install_socket_layer
                install_socket_layer(I, [], 'ok')
                I.call(raw(Connection, '_connect'), conn)
            if fk == 3:
                raise final_exc
        final_handler = [None, False, final, final][fk]
        if fk >= 2 and E.fork(2, 'final-handler-is-a-falsy-callable'):
            # any callable is a final handler - also an instance that happens to be falsy (an empty list-like error log with
            # __call__): "a final handler is configured" means `is not None and is not False`, not truthiness
            # (seeded change C14-r14: `if final_handler:`)
            class FalsyCallable(list):
                def __call__(self_, exc, exc_info):
                    return final(exc, exc_info)
            final_handler = FalsyCallable()
        # reactor hook: returns True (suppress) / False / raises
        rk = E.fork(3, 'reactor-hook')
        hook_exc = AbsExc(E.new_int('hook-raised'))

        def hook(exc, exc_info):
            if rk == 0:
                return True
            if rk == 2:
                raise hook_exc
            return False
        # thread slots
        tk = E.fork(4, 'threads')
        cur_thread = types.SimpleNamespace(interrupt=bool(tk & 1))
        new_thread = types.SimpleNamespace(interrupt=bool(tk & 1)) if tk & 2 else None
        disconnects = []
        conn.__dict__.update(handle_exception=final_handler, reactor=types.SimpleNamespace(handle_exception=hook),
                             _exception_handlers=AbsHandlers(n), networking_thread=cur_thread,
                             new_networking_thread=new_thread, exception=None, exc_info=None)
        I.override(raw(Connection, 'disconnect'), lambda I_, self_, immediate=False: disconnects.append(immediate),
                   kind='contract')
        try:
            I.call(raw(Connection, '_handle_exception'), conn, e0, (AbsExc, e0, None))
            outcome = 'returned'
        except PyRaise as e:
            outcome = e.exc
        if rk == 0:
            E.check('hook.suppresses', outcome == 'returned' and not final_calls and not disconnects and conn.exception is None,
                    note='the reactor hook returning True ends handling (documented non-error path)')
            return None
        frame = getattr(self, 'frame', None)
        if frame is None:
            from pyvc.values import Unsupported
            raise Unsupported('the handler loop was not reached through its loop contract (code restructured?)')
        # "caught" as the fold defines it, from the ghost trace (not from a local of the code): in the arbitrary iteration a
        # handler that was called and returned has caught the exception; at the loop exit nothing has caught it so far
        # (that is the loop invariant).  Whether the code agrees is observable through the re-raise below.
        caught = bool(self.calls) and self.raised_by_handler is None
        if self.calls:
            E.check('chain.step-once', len(self.calls) == 1, note='a handler is called at most once')
        # ---- final handler, record, close, re-raise ------------------------------------------------------
        if fk >= 2:
            E.check('final.always-called', len(final_calls) == 1 and final_calls[0][1][1] is final_calls[0][0],
                    note='the final handler runs on every path, whether or not a handler caught')
            last = final_exc if fk == 3 else final_calls[0][0] if final_calls else None
        else:
            E.check('final.not-callable', not final_calls)
            last = None
        recorded = conn.exception
        E.check('record.last-exception', isinstance(recorded, AbsExc) and conn.exc_info[1] is recorded and
                (recorded is final_exc if fk == 3 else True), note='connection.exception / exc_info = the last exception')
        if fk == 2 and final_calls:
            E.check('final.gets-current', final_calls[0][0] is recorded)
        interrupted = (new_thread or cur_thread).interrupt
        E.check('close-unless-reconnected', disconnects == ([True] if interrupted else []),
                note='disconnect(immediate=True) exactly when the successor-or-current thread is interrupted')
        should_raise = fk == 0 and caught is not True
        if should_raise:
            E.check('reraise', outcome is recorded, note='re-raised: no final handler configured and nothing caught')
        else:
            E.check('reraise', outcome == 'returned', note='not re-raised: caught, or a final handler / False is configured')
        return None

    def replay(self, model, label):
        import random
        rp = replay_final_reconnects()
        if rp['confirmed']:
            return rp
        for seed in range(500):
            rp = replay_chain(random.Random(seed))
            if rp['confirmed']:
                return rp
        return rp

    def bounded(self, rng, tier):
        fails, cnt = [], 2
        rp = replay_final_reconnects()
        if rp['confirmed']:
            fails.append(dict(call=rp['call'], observed=rp['observed'], witness='reconnecting-handler'))
        for _ in range(500 if tier == 'quick' else 5000):
            cnt += 1
            rp = replay_chain(rng)
            if rp['confirmed']:
                fails.append(dict(call=rp['call'], observed=rp['observed'], witness='chain'))
                break
        return dict(name='C14.chain.random-chains', evaluations=cnt, failures=fails,
                    bound='seeded handler chains (0..4 handlers, type filters, early flags, raise/return) x 4 final-handler kinds')


class ChainUnrolled(Unit):
    """Second line for handler chains: complete unrolling for 0..3 handlers (bounded in the NUMBER of handlers, labelled
    so), with the matching relation and every handler's behaviour still abstract, compared with the fold of the statement.
    Independent of the loop shape, so it still decides when the loop contract no longer applies to restructured code."""
    prop = 'C14'
    name = 'C14.chain.unrolled'
    int_mode = 'int'
    functions = (C_ + '_handle_exception [<= 3 handlers, abstract behaviour]',)
    max_paths = 20000

    def setup(self, I):
        install_exc_info(I)

    def run(self, I):
        E = I.E
        k = E.fork(4, 'handlers')
        trace, beh, raised = [], {}, {}

        def mk(j):
            def handler(exc, exc_info):
                trace.append((j, exc))
                if j not in beh:
                    beh[j] = 'raise' if E.fork(2, 'h%d-raises' % j) else 'ret'
                    raised[j] = AbsExc(E.new_int('raised%d' % j))
                if beh[j] == 'raise':
                    raise raised[j]
            return handler
        e0 = AbsExc(E.new_int('original'))
        conn = native_connection()
        conn.__dict__.update(handle_exception=False, reactor=types.SimpleNamespace(handle_exception=lambda e, i: False),
                             _exception_handlers=[(mk(j), AbsTypes(self, j)) for j in range(k)],
                             networking_thread=types.SimpleNamespace(interrupt=False), new_networking_thread=None,
                             exception=None, exc_info=None)
        try:
            I.call(raw(Connection, '_handle_exception'), conn, e0, (AbsExc, e0, None))
        except PyRaise as e:
            E.check('unrolled.no-raise-with-final-False', False, note='%r' % (e.exc,))
            return None
        # the fold of the statement, over the same abstract relation and behaviours
        cur, want = e0, []
        for j in range(k):
            if I.truth(SBool(_match(z3.IntVal(j), tag_term(cur)))):
                want.append((j, cur))
                if j not in beh:
                    break                      # the code never called a handler the fold calls: trace comparison fails below
                if beh[j] == 'ret':
                    break
                cur = raised[j]
        E.check('unrolled.trace-equals-fold', len(trace) == len(want) and all(a[0] == b[0] and a[1] is b[1] for a, b in zip(trace, want)),
                note='handler calls %r, try/except semantics %r' % ([t[0] for t in trace], [w[0] for w in want]))
        E.check('unrolled.records-last', conn.exception is cur)
        return None

    def replay(self, model, label):
        import random
        rp = None
        for seed in range(800):
            rp = replay_chain(random.Random(seed))
            if rp['confirmed']:
                return rp
        return rp


class E1(Exception):
    pass


class E2(E1):
    pass


class E3(Exception):
    pass


class FrozenE1(E1):
    """A user exception that rejects attribute assignment (as a frozen dataclass deriving from Exception does)."""

    def __setattr__(self, name, value):
        raise AttributeError('cannot assign to field %r' % (name,))


def replay_chain(rng):
    """Reference fold (written from the statement) against the real _handle_exception."""
    conn = native_connection()
    conn._exception_handlers = []
    trace = []
    specs = []
    for idx in range(rng.randrange(0, 5)):
        types_ = tuple(rng.sample([E1, E2, E3, Exception], rng.randrange(0, 3)))
        beh = rng.choice(['ret', 'raise'])
        new = rng.choice([E1, E2, E3])('from handler %d' % idx)
        early = rng.random() < 0.3

        def h(exc, exc_info, idx=idx, beh=beh, new=new):
            trace.append((idx, exc))
            if beh == 'raise':
                raise new
        kw = {'early': True} if early else {}
        Connection.register_exception_handler(conn, h, *types_, **kw)
        if early:
            specs.insert(0, (idx, types_, beh, new))
        else:
            specs.append((idx, types_, beh, new))
    fk = rng.randrange(4)
    final_calls = []
    fexc = E3('from final')

    def final(exc, exc_info):
        final_calls.append(exc)
        if fk == 3:
            raise fexc
    conn.handle_exception = [None, False, final, final][fk]
    if fk >= 2 and rng.random() < 0.3:
        class FalsyCallable(list):           # a callable final handler that is falsy
            def __call__(self_, exc, exc_info):
                return final(exc, exc_info)
        conn.handle_exception = FalsyCallable()
    conn.reactor = types.SimpleNamespace(handle_exception=lambda e, i: False)
    interrupted = rng.random() < 0.5
    conn.networking_thread = types.SimpleNamespace(interrupt=interrupted)
    conn.new_networking_thread = None
    disc = []
    conn.disconnect = lambda immediate=False: disc.append(immediate)
    conn.exception = conn.exc_info = None
    e0 = rng.choice([E1, E2, E3, FrozenE1])('original')
    k, v = native_call(conn._handle_exception, e0, (type(e0), e0, None))
    # reference fold
    cur, caught, want = e0, False, []
    for idx, types_, beh, new in specs:
        if not types_ or isinstance(cur, types_):
            want.append((idx, cur))
            if beh == 'ret':
                caught = True
                break
            cur = new
    want_final = []
    if fk >= 2:
        want_final = [cur]
        if fk == 3:
            cur = fexc
    bad = None
    if trace != want:
        bad = 'handler calls %r, try/except semantics give %r' % (trace, want)
    elif final_calls != want_final:
        bad = 'final handler calls %r, expected %r' % (final_calls, want_final)
    elif conn.exception is not cur:
        bad = 'recorded %r, last exception is %r' % (conn.exception, cur)
    elif disc != ([True] if interrupted else []):
        bad = 'disconnect calls %r with interrupted=%r' % (disc, interrupted)
    elif (fk == 0 and not caught) != (k == 'raise'):
        bad = 'raised=%r but final handler kind %d, caught=%r' % (k == 'raise', fk, caught)
    elif k == 'raise' and v is not cur:
        bad = 're-raised %r instead of %r' % (v, cur)
    return dict(confirmed=bad is not None, call='_handle_exception with %d handlers, final kind %d' % (len(specs), fk),
                observed=bad or 'conforms')


def replay_final_reconnects():
    """A final handler (or a registered one) that starts a new connection on the same object - the real _connect against a
    local listening socket - while an exception is being handled: the exception is on record afterwards."""
    import socket
    srv = socket.socket()
    srv.bind(('127.0.0.1', 0))
    srv.listen(4)
    port = srv.getsockname()[1]
    try:
        for who in ('final', 'registered'):
            conn = Connection('127.0.0.1', port, username='u')
            conn.reactor = types.SimpleNamespace(handle_exception=lambda e, i: False)
            conn.networking_thread = types.SimpleNamespace(interrupt=True)
            conn.new_networking_thread = None

            def reconnecting(exc, exc_info, conn=conn):
                conn._connect()
            if who == 'final':
                conn.handle_exception = reconnecting
            else:
                conn.handle_exception = False
                conn.register_exception_handler(reconnecting, Exception)
            conn.disconnect = lambda immediate=False: None
            e0 = E1('original')
            k, v = native_call(conn._handle_exception, e0, (E1, e0, None), timeout=5.0)
            sock = conn.__dict__.get('socket')
            try:
                if sock is not None:
                    sock.close()
            except OSError:
                pass
            if k != 'ok' or conn.exception is not e0 or conn.exc_info is None or conn.exc_info[1] is not e0:
                return dict(confirmed=True, call='_handle_exception(E1) with a %s handler that reconnects (real _connect to a '
                            'local listener)' % who, observed='%s %r; connection.exception = %r, exc_info = %r'
                            % (k, v, conn.exception, conn.exc_info))
    finally:
        srv.close()
    return dict(confirmed=False, call='reconnecting handlers', observed='the exception stays on record')


class RegisterHandler(Unit):
    prop = 'C14'
    name = 'C14.register'
    int_mode = 'int'
    functions = (C_ + 'register_exception_handler',)

    def run(self, I):
        E = I.E
        conn = harness_connection()
        pre = [('h0', ()), ('h1', (E1,))]
        conn.__dict__['_exception_handlers'] = list(pre)
        k = E.fork(3, 'early')
        kw = {} if k == 0 else {'early': k == 2}
        f = lambda e, i: None
        I.call(raw(Connection, 'register_exception_handler'), conn, f, E1, E3, **kw)
        got = conn.__dict__['_exception_handlers']
        want = [(f, (E1, E3))] + pre if k == 2 else pre + [(f, (E1, E3))]
        E.check('register.order', got == want, note='early=True inserts at the head, otherwise appends')
        # another thread registers a handler between a copy of the list and its write-back: nothing may be lost (registration
        # = ONE atomic list operation; interference injected at the read points of the shared list, as in C13.register)
        from .c13 import Interfering
        conn2 = harness_connection()
        il = Interfering(pre)
        il.intruder = ('other-thread', (E2,))
        conn2.__dict__['_exception_handlers'] = il
        g = lambda e, i: None
        I.call(raw(Connection, 'register_exception_handler'), conn2, g, E1, **kw)
        cur = list(list.__iter__(conn2.__dict__['_exception_handlers']))
        E.check('register.no-lost-update', any(h[0] is g for h in cur if isinstance(h, tuple)) and
                (not il.fired or il.intruder in cur),
                note='a handler registered by another thread between the copy and the write-back of a non-atomic update is lost')
        try:
            I.call(raw(Connection, 'register_exception_handler'), conn, f, bogus=1)
            E.check('register.rejects-unknown-keywords', False)
        except PyRaise as e:
            E.check('register.rejects-unknown-keywords', isinstance(e.exc, AssertionError))
        return None

    def replay(self, model, label):
        return replay_register()

    def bounded(self, rng, tier):
        rp = replay_register()
        return dict(name='C14.register.concrete', evaluations=rp['n'], bound='registration sequences of 1..4 handlers, early / not, via the '
                    'method and via the decorator, on a real Connection',
                    failures=[dict(call=rp['call'], observed=rp['observed'], witness='register')] if rp['confirmed'] else [])


def replay_register():
    import itertools
    n = 0
    for ln in range(1, 5):
        for flags in itertools.product((False, True), repeat=ln):
            for via in ('method', 'decorator'):
                n += 1
                c = Connection('localhost', 25565)
                want = []
                for k, early in enumerate(flags):
                    f = (lambda k: (lambda e, i: None))(k)
                    types_ = (ValueError,) if k % 2 else ()
                    if via == 'method':
                        c.register_exception_handler(f, *types_, early=early)
                    else:
                        r = c.exception_handler(*types_, early=early)(f)
                        if r is not f:
                            return dict(confirmed=True, n=n, call='@exception_handler', observed='the decorator does not return the function')
                    want = [(f, types_)] + want if early else want + [(f, types_)]
                if c._exception_handlers != want:
                    return dict(confirmed=True, n=n, call='%d handlers registered via %s with early=%r' % (ln, via, flags),
                                observed='handler order is %r, expected positions %r' % (
                                    [want.index(h) if h in want else '?' for h in c._exception_handlers], list(range(len(want)))))
    from .c13 import Interfering
    for early in (False, True):
        n += 1
        c = Connection('localhost', 25565)
        c.register_exception_handler(lambda e, i: None)
        il = Interfering(c._exception_handlers)
        il.intruder = (lambda e, i: None, (KeyError,))
        c._exception_handlers = il
        g = lambda e, i: None
        c.register_exception_handler(g, ValueError, early=early)
        cur = list(list.__iter__(c._exception_handlers))
        if not any(h[0] is g for h in cur) or (il.fired and il.intruder not in cur):
            return dict(confirmed=True, n=n, call='register_exception_handler(early=%r) while another thread registers between the '
                        'copy of the handler list and its write-back' % early,
                        observed='the list afterwards lacks %s' % ('the other thread\'s handler (lost update)'
                                                                   if il.fired and il.intruder not in cur else 'the new handler'))
    return dict(confirmed=False, n=n, call='registration sequences', observed='conform')


class HandlerDecorator(Unit):
    """@connection.exception_handler(E1, E2, early=...) is register_exception_handler(f, E1, E2, early=...), returns f."""
    prop = 'C14'
    name = 'C14.decorator'
    int_mode = 'int'
    functions = (C_ + 'exception_handler', C_ + 'register_exception_handler')

    def run(self, I):
        E = I.E
        k = E.fork(3, 'early')
        kw = {} if k == 0 else {'early': k == 2}
        types_ = (E1, E3)[:E.fork(3, 'types')]
        f = lambda e, i: None
        a, b = harness_connection(), harness_connection()
        for c in (a, b):
            c.__dict__['_exception_handlers'] = [('h0', ()), ('h1', (E1,))]
        dec = I.call(I.getattr_(a, 'exception_handler'), *types_, **kw)
        E.check('decorator.lazy', len(a.__dict__['_exception_handlers']) == 2)
        r = I.call(dec, f)
        I.call(I.getattr_(b, 'register_exception_handler'), f, *types_, **kw)
        E.check('decorator.returns-function', r is f)
        E.check('decorator.same-as-register', a.__dict__['_exception_handlers'] == b.__dict__['_exception_handlers'],
                note='same position (head for early, tail otherwise) and same type filter as the direct registration')
        return None

    def replay(self, model, label):
        return replay_register()


class ConnProbe(object):
    """Stand-in for the Connection as seen by NetworkingThread.run: records every slot assignment with the
    lock depth at that moment."""

    def __init__(self):
        object.__setattr__(self, 'log', [])
        object.__setattr__(self, 'the_lock', GhostLock())
        object.__setattr__(self, lock_name(), self.the_lock)          # under whatever name the code uses for it
        object.__setattr__(self, 'slots', {'networking_thread': 'T', 'new_networking_thread': 'T'})

    def __setattr__(self, k, v):
        self.log.append((k, v, self.the_lock.depth))
        self.slots[k] = v


class ThreadWrapper(Unit):
    prop = 'C14'
    name = 'C14.thread-wrapper'
    int_mode = 'int'
    functions = ('minecraft.networking.connection.NetworkingThread.run',
                 'minecraft.networking.connection.PacketReactor.handle_exception')

    def run(self, I):
        E = I.E
        conn = ConnProbe()
        t = object.__new__(NetworkingThread)
        events = []
        run_k = E.fork(3, '_run')              # returns / raises Exception / raises BaseException
        exit_k = E.fork(2, '_handle_exit')     # returns / raises
        he_k = E.fork(2, '_handle_exception')  # returns / re-raises
        boom, boom2, base = AbsExc(1), AbsExc(2), AbsBase()
        prev_k = E.fork(3, 'previous')         # no predecessor / alive predecessor / finished predecessor
        # disconnect() may have interrupted this thread already, before it ever ran (a successor queued behind a live
        # predecessor and disconnected again before the take-over): it must still take the slot over and clear the successor
        # slot, or the connection stays "busy" for ever (seeded change C16-r8)
        intr0 = bool(E.fork(2, 'interrupted-before-start'))
        prev = None
        if prev_k:
            prev = types.SimpleNamespace(is_alive=lambda: events.append('is_alive') or prev_k == 1,
                                         join=lambda: events.append('join'))

        def _run():
            events.append('_run')
            if run_k == 1:
                raise boom
            if run_k == 2:
                raise base

        def _handle_exit():
            events.append('_handle_exit')
            if exit_k:
                raise boom2

        def _handle_exception(e, info):
            events.append(('_handle_exception', e, info[1], t.__dict__.get('interrupt')))
            if he_k:
                raise e
        conn.__dict__['_handle_exit'] = _handle_exit
        conn.__dict__['_handle_exception'] = _handle_exception
        t.__dict__.update(connection=conn, previous_thread=prev, interrupt=intr0, _run=_run)
        install_exc_info(I)
        try:
            I.call(raw(NetworkingThread, 'run'), t)
            outcome = 'returned'
        except PyRaise as e:
            outcome = e.exc
        he = [x for x in events if isinstance(x, tuple)]
        if prev_k:
            i_run = events.index('_run') if '_run' in events else len(events)
            E.check('handover.join-before-run', (events[:2] == ['is_alive', 'join'] if prev_k == 1 else events[:1] == ['is_alive'])
                    and 'join' not in events[i_run:], note='no _run step before the predecessor has finished')
            sets = [x for x in conn.log if x[0] in ('networking_thread', 'new_networking_thread')]
            E.check('handover.installs-itself', sets[:2] == [('networking_thread', t, 1), ('new_networking_thread', None, 1)],
                    note='under the lock: networking_thread := self, new_networking_thread := None')
        expect_exc = boom if run_k == 1 else (boom2 if run_k == 0 and exit_k else None)
        if expect_exc is not None:
            E.check('wrapper.routes-exception', he == [('_handle_exception', expect_exc, expect_exc, True)],
                    note='interrupt is set first, then _handle_exception gets the exception and its exc_info, exactly once')
            E.check('wrapper.reraise-propagates', (outcome is expect_exc) if he_k else outcome == 'returned')
        elif run_k == 2:
            E.check('wrapper.base-exception-not-handled', he == [] and outcome is base)
        else:
            E.check('wrapper.clean-exit', he == [] and outcome == 'returned' and events.count('_handle_exit') == 1)
        E.check('wrapper.exit-after-run', ('_handle_exit' in events) == (run_k == 0),
                note='_handle_exit only after _run returned normally')
        last = conn.log[-1] if conn.log else None
        E.check('wrapper.finally-idle', last == ('networking_thread', None, 1),
                note='on EVERY path the slot is cleared under the lock, so the connection can connect again')
        E.check('wrapper.lock-released', conn.the_lock.depth == 0)
        # the base reactor's hook never suppresses
        r = I.call(raw(PacketReactor, 'handle_exception'), object.__new__(PacketReactor), boom, (AbsExc, boom, None))
        E.check('hook.default-false', r is False)
        return None

    def replay(self, model, label):
        return replay_wrapper()

    def bounded(self, rng, tier):
        rp = replay_wrapper()
        return dict(name='C14.thread-wrapper.concrete', evaluations=rp['n'], bound='3 x 2 x 3 x 2 x 2 concrete behaviours of the predecessor / interrupted-before-start / _run / _handle_exit / _handle_exception',
                    failures=[dict(call=rp['call'], observed=rp['observed'], witness='thread-wrapper')] if rp['confirmed'] else [])


def replay_wrapper():
    """NetworkingThread.run on a real thread object (run() called directly) with concrete stub behaviours."""
    import threading
    n = 0
    import itertools
    for prev_k, intr0 in itertools.product(range(3), (False, True)):   # no / live / finished predecessor; interrupted before it ever ran
      for run_k in range(3):
        for exit_k in range(2):
            for he_k in range(2):
                n += 1
                conn = types.SimpleNamespace(networking_thread='T', new_networking_thread=None, **{lock_name(): threading.RLock()})
                joined = []
                prev = None
                if prev_k:
                    prev = types.SimpleNamespace(is_alive=lambda: prev_k == 1 and not joined, join=lambda: joined.append(1))
                t = NetworkingThread(conn)
                t.previous_thread = prev
                t.interrupt = intr0
                if prev_k:
                    conn.new_networking_thread = t
                seen = []
                boom, boom2 = E1('run'), E2('exit')

                def _run():
                    seen.append('run:%s' % ('after-join' if joined or prev_k != 1 else 'before-join'))
                    if run_k == 1:
                        raise boom
                    if run_k == 2:
                        raise AbsBase()

                def _handle_exit():
                    seen.append('exit')
                    if exit_k:
                        raise boom2

                def _handle_exception(e, info):
                    seen.append(('he', e, info[1], t.interrupt))
                    if he_k:
                        raise e
                t._run = _run
                conn._handle_exit = _handle_exit
                conn._handle_exception = _handle_exception
                try:
                    t.run()
                    out = 'returned'
                except BaseException as e:
                    out = e
                exp = boom if run_k == 1 else (boom2 if run_k == 0 and exit_k else None)
                he = [x for x in seen if isinstance(x, tuple)]
                bad = None
                if conn.networking_thread is not None:
                    bad = 'networking_thread slot not cleared'
                elif conn.new_networking_thread is not None:
                    bad = 'the successor slot still holds the finished thread: every later connect()/status() is refused as "still active"'
                elif 'run:before-join' in seen:
                    bad = '_run started while the predecessor was still alive'
                elif exp is not None and he != [('he', exp, exp, True)]:
                    bad = '_handle_exception calls %r (interrupt must be set before the call)' % (he,)
                elif exp is None and he:
                    bad = 'unexpected _handle_exception call'
                elif exp is not None and he_k and out is not exp:
                    bad = 're-raise did not propagate'
                if bad:
                    return dict(confirmed=True, n=n, call='NetworkingThread.run with %s%s, _run kind %d, exit kind %d'
                                % (('no predecessor', 'a live predecessor', 'a finished predecessor')[prev_k],
                                   ', interrupted before it started' if intr0 else '', run_k, exit_k), observed=bad)
    return dict(confirmed=False, n=n, call='NetworkingThread.run over 72 stub behaviours', observed='conforms')


class ExceptionClasses(Unit):
    """The contracts of run / _handle_exception / the listener stages speak about "every Exception"; the exceptions the
    library itself raises in the networking thread (login disconnect, version mismatch, ignore-packet raised in the wrong
    place, ...) are covered only if their classes ARE Exceptions.  Structural obligation over minecraft.exceptions, plus the
    real thread wrapper run with each of them."""
    prop = 'C14'
    name = 'C14.exception-classes'
    int_mode = 'int'
    functions = ('minecraft.exceptions [class hierarchy]',)

    @staticmethod
    def classes():
        import inspect
        import minecraft.exceptions as X
        return sorted((c for c in vars(X).values() if inspect.isclass(c) and issubclass(c, BaseException) and c.__module__ == X.__name__),
                      key=lambda c: c.__name__)

    def run(self, I):
        E = I.E
        cs = self.classes()
        E.check('exceptions.nonempty', len(cs) > 0)
        for c in cs:
            E.check('exceptions.are-Exceptions[%s]' % c.__name__, issubclass(c, Exception),
                    note='%s is caught by "except Exception": it is routed to the handlers like any other error' % c.__name__)
        return None

    def replay(self, model, label):
        return replay_exception_classes()

    def bounded(self, rng, tier):
        rp = replay_exception_classes()
        return dict(name='C14.exception-classes.routed', evaluations=rp['n'], bound='NetworkingThread.run with _run raising one instance of '
                    'each class of minecraft.exceptions', failures=[dict(call=rp['call'], observed=rp['observed'], witness='exception-class')]
                    if rp['confirmed'] else [])


def replay_exception_classes():
    import threading
    n = 0
    for c in ExceptionClasses.classes():
        n += 1
        try:
            exc = c('x')
        except Exception:       # noqa
            try:
                exc = c()
            except Exception:   # noqa
                continue
        conn = types.SimpleNamespace(networking_thread='T', new_networking_thread=None, **{lock_name(): threading.RLock()})
        t = NetworkingThread(conn)
        seen = []

        def _run(exc=exc):
            raise exc
        t._run = _run
        conn._handle_exit = lambda: None
        conn._handle_exception = lambda e, info: seen.append(e)
        try:
            t.run()
            out = 'returned'
        except BaseException as e:     # noqa
            out = e
        if seen != [exc] or out != 'returned':
            return dict(confirmed=True, n=n, call='NetworkingThread.run with _run raising %s' % c.__name__,
                        observed='_handle_exception saw %r, run() %s' % (seen, 'returned' if out == 'returned' else 'let %r escape' % (out,)))
    return dict(confirmed=False, n=n, call='library exception classes through run()', observed='all routed to _handle_exception')


def c15_units():
    return [ThreadWrapper()]


def _own_units(tier):
    from . import c11
    rl = c11.RunLoop()
    # exceptions of the reader / the reactions must reach run() unchanged, where they are routed
    rl.prop, rl.name = 'C14', 'C14.run-loop.propagates'
    return [RegisterHandler(), HandlerDecorator(), Chain(), ChainUnrolled(), ThreadWrapper(), rl, ExceptionClasses()]


def units(tier):
    from .deps import dependency_units
    return _own_units(tier) + dependency_units('C14')
