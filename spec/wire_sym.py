"""Symbolic (z3) versions of the wire specification functions of spec/wire.py (BV(W) integers)."""
import z3
from pyvc.values import W, SInt


def bvv(n):
    return z3.BitVecVal(n, W)


def be_terms(word_term, nbytes):
    """Big-endian bytes of the low 8*nbytes bits of a BV(W) term."""
    return [z3.Extract(8 * (nbytes - i) - 1, 8 * (nbytes - i - 1), word_term) for i in range(nbytes)]


def mask(t, bits):
    """t mod 2^bits for a BV(W) term (two's complement => Python's % for a power of two)."""
    return t & bvv((1 << bits) - 1)


def pack_xzy(x, y, z):
    return (mask(x, 26) << 38) | (mask(z, 26) << 12) | mask(y, 12)


def pack_xyz(x, y, z):
    return (mask(x, 26) << 38) | (mask(y, 12) << 26) | mask(z, 26)


def pack_section(x, y, z):
    return (mask(x, 22) << 42) | (mask(z, 22) << 20) | mask(y, 20)


def varint_terms(n_term, k):
    """The k bytes of the canonical VarInt encoding of n (valid when varint_len_cond(n, k))."""
    return [(z3.Extract(7, 0, n_term >> (7 * i)) & 0x7F) | (0x80 if i < k - 1 else 0) for i in range(k)]


def varint_len_cond(n_term, k):
    hi = z3.ULT(n_term, bvv(1 << (7 * k)))
    lo = z3.UGE(n_term, bvv(1 << (7 * (k - 1)))) if k > 1 else z3.BoolVal(True)
    return z3.And(hi, lo, n_term >= 0)


def eq_bytes(terms_a, terms_b):
    if len(terms_a) != len(terms_b):
        return z3.BoolVal(False)
    return z3.And(*[a == b for a, b in zip(terms_a, terms_b)]) if terms_a else z3.BoolVal(True)
