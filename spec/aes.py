"""Independent pure-Python AES-128 (encryption direction only) and CFB8 mode, written from FIPS-197 / SP 800-38A.
Used only by bounded stand-ins to validate the assumed contract of the `cryptography` primitives."""


def _xtime(a):
    a <<= 1
    return (a ^ 0x11B) & 0xFF if a & 0x100 else a


def _make_sbox():
    # multiplicative inverse in GF(2^8) followed by the affine transformation
    exp, log = [0] * 512, [0] * 256
    x = 1
    for i in range(255):
        exp[i] = x
        log[x] = i
        x ^= _xtime(x)          # multiply by 3 (generator)
    for i in range(255, 512):
        exp[i] = exp[i - 255]
    sbox = [0] * 256
    for a in range(256):
        inv = 0 if a == 0 else exp[255 - log[a]]
        s = inv
        for _ in range(4):
            inv = ((inv << 1) | (inv >> 7)) & 0xFF
            s ^= inv
        sbox[a] = s ^ 0x63
    return sbox


SBOX = _make_sbox()
RCON = [0x01, 0x02, 0x04, 0x08, 0x10, 0x20, 0x40, 0x80, 0x1B, 0x36]


def expand_key(key):
    assert len(key) == 16
    w = [list(key[i:i + 4]) for i in range(0, 16, 4)]
    for i in range(4, 44):
        t = list(w[i - 1])
        if i % 4 == 0:
            t = t[1:] + t[:1]
            t = [SBOX[b] for b in t]
            t[0] ^= RCON[i // 4 - 1]
        w.append([a ^ b for a, b in zip(w[i - 4], t)])
    return [sum(w[4 * r:4 * r + 4], []) for r in range(11)]


def encrypt_block(rk, block):
    s = [b ^ k for b, k in zip(block, rk[0])]
    for rnd in range(1, 11):
        s = [SBOX[b] for b in s]
        # shift rows (state is column-major: index = 4*col + row)
        s = [s[4 * ((c + r) % 4) + r] for c in range(4) for r in range(4)]
        if rnd != 10:
            out = []
            for c in range(4):
                a = s[4 * c:4 * c + 4]
                t = a[0] ^ a[1] ^ a[2] ^ a[3]
                out += [a[i] ^ t ^ _xtime(a[i] ^ a[(i + 1) % 4]) for i in range(4)]
            s = out
        s = [b ^ k for b, k in zip(s, rk[rnd])]
    return bytes(s)


class CFB8(object):
    """AES-128-CFB8 stream (one direction)."""

    def __init__(self, key, iv):
        self.rk = expand_key(key)
        self.reg = bytes(iv)

    def encrypt(self, data):
        out = bytearray()
        for p in data:
            c = p ^ encrypt_block(self.rk, self.reg)[0]
            out.append(c)
            self.reg = self.reg[1:] + bytes([c])
        return bytes(out)

    def decrypt(self, data):
        out = bytearray()
        for c in data:
            p = c ^ encrypt_block(self.rk, self.reg)[0]
            out.append(p)
            self.reg = self.reg[1:] + bytes([c])
        return bytes(out)
