"""Reference table of the core packets for every Minecraft release protocol that pyCraft's README
lists as supported (1.8 .. 1.18.1), written from the protocol documentation (wiki.vg "Protocol" and
its per-version history pages) as remembered -- there is no network in this sandbox.  It shares no
code with pyCraft.  It is a TRUSTED INPUT of check C07.

Each entry: packet key -> (packet id, [(wire kind, field name), ...]).  Field names are the attribute
names under which pyCraft exposes the field (needed to feed values to the real classes).

Wire kinds: varint, long, int, byte, ubyte, ushort, bool, float, double, string, uuid, bytes (VarInt
length-prefixed byte array), nbt, strings (VarInt-prefixed array of strings).
"""

RELEASES = [47, 107, 108, 109, 110, 210, 315, 316, 335, 338, 340, 393, 401, 404, 477, 480, 485, 490, 498,
            573, 575, 578, 735, 736, 751, 753, 754, 755, 756, 757]


def _era(p, table):
    """table: list of (first protocol, value) in ascending order."""
    v = None
    for first, val in table:
        if p >= first:
            v = val
    return v


# ---- packet ids (play state) per release --------------------------------------------------------
KEEPALIVE_CB = [(47, 0x00), (107, 0x1F), (393, 0x21), (477, 0x20), (573, 0x21), (735, 0x20), (751, 0x1F), (755, 0x21)]
KEEPALIVE_SB = [(47, 0x00), (107, 0x0B), (335, 0x0C), (338, 0x0B), (393, 0x0E), (477, 0x0F), (735, 0x10), (755, 0x0F)]
# Field-layout facts used by C10/C11 (source: wiki.vg protocol version history):
#  - keep-alive id is a Long from 1.12.2-pre1 (protocol 339) on, a VarInt before;
#  - login plugin request (clientbound 0x04) / response (serverbound 0x02) exist from 1.13-pre3 (protocol 385) on.
KEEPALIVE_LONG_FROM = 339
LOGIN_PLUGIN_FROM = 385
#  - between 1.13-pre3 (385) and 1.13-pre8 (390) the new plugin packets sat at id 0x00 and every other login packet was
#    shifted up by one; from 1.13-pre9 (391) on they are 0x04 / 0x02 and the old numbering is back.
LOGIN_SHIFT_UNTIL = 391
#  - clientbound player-position-and-look: x, y, z (doubles), yaw, pitch (floats), flags (byte); a VarInt teleport id from
#    15w42a / 1.9 (protocol 107) on; a trailing "dismount vehicle" boolean from 1.17 (protocol 755) on.  In publication order:
#    the 1.17 snapshots pyCraft supports (20w45a .. 20w48a) precede the addition of that boolean.
TELEPORT_ID_FROM = 107
DISMOUNT_FROM = 755


def login_ids(p):
    """({clientbound class name: id}, {serverbound class name: id}) of the login state at protocol number p."""
    cb = {'DisconnectPacket': 0x00, 'EncryptionRequestPacket': 0x01, 'LoginSuccessPacket': 0x02, 'SetCompressionPacket': 0x03}
    sb = {'LoginStartPacket': 0x00, 'EncryptionResponsePacket': 0x01}
    if LOGIN_PLUGIN_FROM <= p < LOGIN_SHIFT_UNTIL:
        cb = {k: v + 1 for k, v in cb.items()}
        sb = {k: v + 1 for k, v in sb.items()}
        cb['PluginRequestPacket'] = 0x00
        sb['PluginResponsePacket'] = 0x00
    elif p >= LOGIN_SHIFT_UNTIL:
        cb['PluginRequestPacket'] = 0x04
        sb['PluginResponsePacket'] = 0x02
    return cb, sb
JOIN_GAME = [(47, 0x01), (107, 0x23), (393, 0x25), (573, 0x26), (735, 0x25), (751, 0x24), (755, 0x26)]
CHAT_CB = [(47, 0x02), (107, 0x0F), (393, 0x0E), (573, 0x0F), (735, 0x0E), (755, 0x0F)]
CHAT_SB = [(47, 0x01), (107, 0x02), (335, 0x03), (338, 0x02), (477, 0x03)]
POSLOOK_CB = [(47, 0x08), (107, 0x2E), (338, 0x2F), (393, 0x32), (477, 0x35), (573, 0x36), (735, 0x35), (751, 0x34),
              (755, 0x38)]
POSLOOK_SB = [(47, 0x06), (107, 0x0D), (335, 0x0F), (338, 0x0E), (393, 0x11), (477, 0x12), (735, 0x13), (755, 0x12)]
DISCONNECT_PLAY = [(47, 0x40), (107, 0x1A), (393, 0x1B), (477, 0x1A), (573, 0x1B), (735, 0x1A), (751, 0x19), (755, 0x1A)]


def join_game_fields(p):
    f = [('int', 'entity_id')]
    if p >= 751:
        f.append(('bool', 'is_hardcore'))
    f.append(('ubyte', 'game_mode'))
    if p >= 735:
        f.append(('ubyte', 'previous_game_mode'))
        f.append(('strings', 'world_names'))
        f.append(('nbt', 'dimension_codec'))
    if p >= 751:
        f.append(('nbt', 'dimension'))
    elif p >= 735:
        f.append(('string', 'dimension'))
    elif p >= 108:
        f.append(('int', 'dimension'))
    else:
        f.append(('byte', 'dimension'))
    if p >= 735:
        f.append(('string', 'world_name'))
    if p >= 573:
        f.append(('long', 'hashed_seed'))
    if p < 477:
        f.append(('ubyte', 'difficulty'))
    f.append(('varint' if p >= 751 else 'ubyte', 'max_players'))
    if p < 735:
        f.append(('string', 'level_type'))
    if p >= 477:
        f.append(('varint', 'render_distance'))
    if p >= 757:
        f.append(('varint', 'simulation_distance'))
    f.append(('bool', 'reduced_debug_info'))
    if p >= 573:
        f.append(('bool', 'respawn_screen'))
    if p >= 735:
        f.append(('bool', 'is_debug'))
        f.append(('bool', 'is_flat'))
    return f


def reference(p):
    """packet key -> (state, direction, id, fields) for release protocol p."""
    ka = [('long' if p >= 340 else 'varint', 'keep_alive_id')]
    r = {
        'handshake': ('handshake', 'serverbound', 0x00,
                      [('varint', 'protocol_version'), ('string', 'server_address'), ('ushort', 'server_port'),
                       ('varint', 'next_state')]),
        'status.request': ('status', 'serverbound', 0x00, []),
        'status.ping': ('status', 'serverbound', 0x01, [('long', 'time')]),
        'status.response': ('status', 'clientbound', 0x00, [('string', 'json_response')]),
        'status.pong': ('status', 'clientbound', 0x01, [('long', 'time')]),
        'login.start': ('login', 'serverbound', 0x00, [('string', 'name')]),
        'login.encryption_response': ('login', 'serverbound', 0x01, [('bytes', 'shared_secret'), ('bytes', 'verify_token')]),
        'login.disconnect': ('login', 'clientbound', 0x00, [('string', 'json_data')]),
        'login.encryption_request': ('login', 'clientbound', 0x01,
                                     [('string', 'server_id'), ('bytes', 'public_key'), ('bytes', 'verify_token')]),
        'login.success': ('login', 'clientbound', 0x02,
                          [('uuid' if p >= 735 else 'string', 'UUID'), ('string', 'Username')]),
        'login.set_compression': ('login', 'clientbound', 0x03, [('varint', 'threshold')]),
        'play.keep_alive.cb': ('play', 'clientbound', _era(p, KEEPALIVE_CB), ka),
        'play.keep_alive.sb': ('play', 'serverbound', _era(p, KEEPALIVE_SB), ka),
        'play.join_game': ('play', 'clientbound', _era(p, JOIN_GAME), join_game_fields(p)),
        'play.chat.cb': ('play', 'clientbound', _era(p, CHAT_CB),
                         [('string', 'json_data'), ('byte', 'position')] + ([('uuid', 'sender')] if p >= 735 else [])),
        'play.chat.sb': ('play', 'serverbound', _era(p, CHAT_SB), [('string', 'message')]),
        'play.position_look.cb': ('play', 'clientbound', _era(p, POSLOOK_CB),
                                  [('double', 'x'), ('double', 'y'), ('double', 'z'), ('float', 'yaw'), ('float', 'pitch'),
                                   ('byte', 'flags')] + ([('varint', 'teleport_id')] if p >= 107 else []) +
                                  ([('bool', 'dismount_vehicle')] if p >= 755 else [])),
        'play.position_look.sb': ('play', 'serverbound', _era(p, POSLOOK_SB),
                                  [('double', 'x'), ('double', 'feet_y'), ('double', 'z'), ('float', 'yaw'),
                                   ('float', 'pitch'), ('bool', 'on_ground')]),
        'play.disconnect': ('play', 'clientbound', _era(p, DISCONNECT_PLAY), [('string', 'json_data')]),
    }
    if p >= 107:
        r['play.teleport_confirm'] = ('play', 'serverbound', 0x00, [('varint', 'teleport_id')])
    return r


# which pyCraft packet_name corresponds to each key (the only coupling to pyCraft: its documented packet names)
PACKET_NAMES = {
    'handshake': 'handshake', 'status.request': 'request', 'status.ping': 'ping', 'status.response': 'response',
    'status.pong': 'ping', 'login.start': 'login start', 'login.encryption_response': 'encryption response',
    'login.disconnect': 'disconnect', 'login.encryption_request': 'encryption request', 'login.success': 'login success',
    'login.set_compression': 'set compression', 'play.keep_alive.cb': 'keep alive', 'play.keep_alive.sb': 'keep alive',
    'play.join_game': 'join game', 'play.chat.cb': 'chat message', 'play.chat.sb': 'chat',
    'play.position_look.cb': 'player position and look', 'play.position_look.sb': 'position and look',
    'play.disconnect': 'disconnect', 'play.teleport_confirm': 'teleport confirm',
}
