"""Wire-format specification functions, written from the Minecraft protocol
description (wiki.vg "Protocol", "Data types"), sharing no code with pyCraft.

Concrete versions operate on Python ints/bytes (used by replay, conformance and
bounded stand-ins); symbolic versions build z3 terms (used as postconditions).
"""
import struct as _struct


# ---- VarInt / VarLong: little-endian base-128, 7 payload bits per byte, top bit = "more" ----
def varint_len(n):
    assert n >= 0
    k = 1
    while n >= 1 << (7 * k):
        k += 1
    return k


def varint_enc(n):
    """Canonical encoding of a non-negative integer."""
    assert n >= 0
    k = varint_len(n)
    return bytes(((n >> (7 * i)) & 0x7F) | (0x80 if i < k - 1 else 0) for i in range(k))


def varint_dec_spec(data, max_bytes):
    """Reference decoder: returns ('value', n, consumed) | ('eof', consumed) | ('toolong', consumed).
    Reads at most max_bytes + 1 bytes."""
    n = 0
    for i in range(max_bytes + 1):
        if i >= len(data):
            return ('eof', i)
        b = data[i]
        n |= (b & 0x7F) << (7 * i)
        if not b & 0x80:
            return ('value', n, i + 1)
    return ('toolong', max_bytes + 1)


# ---- big-endian two's complement -------------------------------------------------------------
def be(v, nbytes, signed):
    lo, hi = (-(1 << (8 * nbytes - 1)), (1 << (8 * nbytes - 1)) - 1) if signed else (0, (1 << (8 * nbytes)) - 1)
    assert lo <= v <= hi, (v, nbytes, signed)
    return (v & ((1 << (8 * nbytes)) - 1)).to_bytes(nbytes, 'big')


def be_dec(data, signed):
    v = int.from_bytes(data, 'big')
    if signed and data and data[0] & 0x80:
        v -= 1 << (8 * len(data))
    return v


# ---- block position packing --------------------------------------------------------------------
def pack_xzy(x, y, z):
    """1.14+ layout: x 26 bits | z 26 bits | y 12 bits."""
    return ((x % (1 << 26)) << 38) | ((z % (1 << 26)) << 12) | (y % (1 << 12))


def pack_xyz(x, y, z):
    """pre-1.14 layout: x 26 bits | y 12 bits | z 26 bits."""
    return ((x % (1 << 26)) << 38) | ((y % (1 << 12)) << 26) | (z % (1 << 26))


def pack_section(x, y, z):
    """chunk section position: x 22 bits | z 22 bits | y 20 bits."""
    return ((x % (1 << 22)) << 42) | ((z % (1 << 22)) << 20) | (y % (1 << 20))
