"""Java's new BigInteger(byte[]).toString(16) for a digest, written from its documented semantics:
two's-complement big-endian interpretation, minus sign for negatives, lower-case digits, no leading zeros."""


def java_hex(digest):
    n = 0
    for b in digest:
        n = n * 256 + b
    if digest and digest[0] & 0x80:
        n -= 1 << (8 * len(digest))
    digits = '0123456789abcdef'
    m = -n if n < 0 else n
    out = ''
    while m:
        out = digits[m % 16] + out
        m //= 16
    out = out or '0'
    return ('-' + out) if n < 0 else out
