#!/usr/bin/env python3
"""Translation validation of PyVC's interpreter on CONCRETE executions: the real pyCraft functions are run natively and
through the AST interpreter on the same concrete inputs; results, exceptions and effects must agree.  Any disagreement
is an engine defect (exit 3).  Run by ./check <ID> --tier thorough and by hand:  .venv/bin/python tools/selftest_interp.py
"""
import io
import os
import random
import sys

HERE = os.path.dirname(os.path.dirname(os.path.abspath(__file__)))
sys.path.insert(0, HERE)
sys.path.insert(0, os.environ.get('VERIF_REPO', '/repo'))

import minecraft
from minecraft.networking.connection import ConnectionContext
from minecraft.networking.packets import PacketBuffer, Packet
from minecraft.networking.types import basic as B, enum as En, utility as U

from pyvc.engine import Engine
from pyvc.interp import Interp, PyRaise
from contracts import c05, c20


def interp_call(f, *args, **kw):
    E = Engine('selftest')
    I = Interp(E)
    out = {}

    def run(_E):
        try:
            out['r'] = ('ok', I.call(f, *args, **kw))
        except PyRaise as e:
            out['r'] = ('raise', type(e.exc).__name__)
    E.explore(run)
    return out['r'], I


def native_call(f, *args, **kw):
    try:
        return ('ok', f(*args, **kw))
    except Exception as e:
        return ('raise', type(e).__name__)


def same(a, b):
    if a[0] != b[0]:
        return False
    if a[0] == 'raise':
        return a[1] == b[1]
    x, y = a[1], b[1]
    if isinstance(x, float) and isinstance(y, float):
        return x == y or (x != x and y != y)
    try:
        return x == y or repr(x) == repr(y)
    except Exception:
        return repr(x) == repr(y)


def main():
    rng = random.Random(int(os.environ.get('VERIF_SEED', '0') or 0))
    n = bad = 0
    problems = []

    def check(what, a, b):
        nonlocal n, bad
        n += 1
        if not same(a, b):
            bad += 1
            problems.append('%s: interpreter %r vs CPython %r' % (what, a, b))

    # 1. wire types: send then read, every scalar type, boundary + random values
    for T in (B.Boolean, B.UnsignedByte, B.Byte, B.Short, B.UnsignedShort, B.Integer, B.Long, B.UnsignedLong, B.VarInt,
              B.VarLong, B.Float, B.Double, B.String, B.UUID, B.VarIntPrefixedByteArray, B.ShortPrefixedByteArray, B.Angle):
        for variant in (0, 1):
            v = c05.conc_value(T, rng, variant)
            b1, b2 = PacketBuffer(), PacketBuffer()
            r1, _ = interp_call(T.send, v, b1)
            r2 = native_call(T.send, v, b2)
            check('%s.send(%r) outcome' % (T.__name__, v), r1, r2)
            check('%s.send(%r) bytes' % (T.__name__, v), ('ok', b1.get_writable()), ('ok', b2.get_writable()))
            b1.reset_cursor()
            b2.reset_cursor()
            r1, _ = interp_call(T.read, b1)
            check('%s.read' % T.__name__, r1, native_call(T.read, b2))
    for bad_in in (-1, 256, 1 << 70, 'x', None, 1.5):
        check('UnsignedByte.send(%r)' % (bad_in,), interp_call(B.UnsignedByte.send, bad_in, PacketBuffer())[0],
              native_call(B.UnsignedByte.send, bad_in, PacketBuffer()))
    for data in (b'', b'\x80', b'\xff\xff\xff\xff\xff\xff', b'\x7f', b'\x80\x01'):
        check('VarInt.read(%r)' % data, interp_call(B.VarInt.read, io.BytesIO(data))[0], native_call(B.VarInt.read, io.BytesIO(data)))

    # 2. every packet class on a sample of supported versions: ids, definitions, write/read, repr
    versions = minecraft.SUPPORTED_PROTOCOL_VERSIONS
    sample = sorted(set(versions[::9] + [versions[0], versions[-1]]))
    for state, direction, gp, cls in c05.all_classes():
        for p in sample:
            ctx = ConnectionContext(protocol_version=p)
            check('%s in get_packets @%d' % (cls.__name__, p), interp_call(gp, ctx)[0], native_call(gp, ctx))
            if cls not in gp(ctx):
                continue
            check('%s.get_id @%d' % (cls.__name__, p), interp_call(cls.get_id, ctx)[0], native_call(cls.get_id, ctx))
            pkts = []
            for mk in (0, 1):
                pkt = cls(ctx)
                vals = c05.conc_handwritten(cls, ctx, rng, 1) if cls in c05.HANDWRITTEN else \
                    {nm: c05.conc_value(T, None, 1) for f in pkt.definition for nm, T in f.items()}
                for k, v in vals.items():
                    setattr(pkt, k, v)
                pkts.append(pkt)
            b1, b2 = PacketBuffer(), PacketBuffer()
            r1, _ = interp_call(pkts[0].write_fields, b1)
            r2 = native_call(pkts[1].write_fields, b2)
            check('%s.write_fields @%d outcome' % (cls.__name__, p), (r1[0], None if r1[0] == 'ok' else r1[1]),
                  (r2[0], None if r2[0] == 'ok' else r2[1]))
            check('%s.write_fields @%d bytes' % (cls.__name__, p), ('ok', b1.get_writable()), ('ok', b2.get_writable()))
            if r2[0] != 'ok':
                continue
            b1.reset_cursor()
            b2.reset_cursor()
            q1, q2 = cls(ctx), cls(ctx)
            r1, _ = interp_call(q1.read, b1)
            r2 = native_call(q2.read, b2)
            check('%s.read @%d outcome' % (cls.__name__, p), (r1[0], None if r1[0] == 'ok' else r1[1]),
                  (r2[0], None if r2[0] == 'ok' else r2[1]))
            if r2[0] == 'ok':
                d1 = {k: v for k, v in q1.__dict__.items() if k != 'context'}
                d2 = {k: v for k, v in q2.__dict__.items() if k != 'context'}
                check('%s.read @%d fields' % (cls.__name__, p), ('ok', repr(sorted(d1.items(), key=str))),
                      ('ok', repr(sorted(d2.items(), key=str))))
                check('%s.__repr__ @%d' % (cls.__name__, p), interp_call(q2.__repr__)[0], native_call(q2.__repr__))

    # 3. enums and records
    for cls in c20.FLAG_ENUMS + c20.PLAIN_ENUMS:
        for v in list(range(-1, 40)) + [127, 128, 255]:
            f = En.BitFieldEnum.name_from_value.__func__ if cls in c20.FLAG_ENUMS else En.Enum.name_from_value.__func__
            check('%s.name_from_value(%d)' % (cls.__name__, v), interp_call(f, cls, v)[0], native_call(f, cls, v))
    a, b = U.PositionAndLook(x=1, y=2, z=3, yaw=4, pitch=5), U.PositionAndLook(x=1, y=2, z=3, yaw=4, pitch=6)
    for f, args in ((U.MutableRecord.__eq__, (a, b)), (U.MutableRecord.__eq__, (a, a)), (U.MutableRecord.__hash__, (a,)),
                    (U.MutableRecord.__repr__, (a,)), (U.Vector.__add__, (U.Vector(1, 2, 3), U.Vector(4, 5, 6))),
                    (U.Vector.__repr__, (U.Vector(1, 2, 3),))):
        check(f.__qualname__, interp_call(f, *args)[0], native_call(f, *args))

    # 4. version predicates on all pairs of a sample
    ks = minecraft.KNOWN_PROTOCOL_VERSIONS[::17]
    for x in ks:
        ctx = ConnectionContext(protocol_version=x)
        for y in ks:
            for nm in ('protocol_earlier', 'protocol_earlier_eq', 'protocol_later', 'protocol_later_eq'):
                f = getattr(ConnectionContext, nm)
                check('%s(%d,%d)' % (nm, x, y), interp_call(f, ctx, y)[0], native_call(f, ctx, y))

    print('interpreter conformance: %d comparisons, %d disagreements' % (n, bad))
    for p in problems[:20]:
        print('  DISAGREE', p)
    return 3 if bad else 0


if __name__ == '__main__':
    sys.exit(main())
