#!/usr/bin/env bash
# tools/harmless_round.sh  (ROUND=<n> PROMPT=<tools/harmless_promptK.txt>) - one scratch worktree per property under
# /tmp/harm<n>-<ID> with PROPERTY.txt (title, statement, anchors) and PROMPT.txt.  Do not pipe into head (SIGPIPE).
HERE="$(cd "$(dirname "${BASH_SOURCE[0]}")/.." && pwd)"
R="${ROUND:-6}"; PR="${PROMPT:-$HERE/tools/harmless_prompt6.txt}"
for n in $(seq -w 1 20); do
  PID="C$n"; D="/tmp/harm$R-$PID"
  git -C /repo worktree add --detach "$D" HEAD >/dev/null 2>&1 || { echo "worktree $D exists?"; continue; }
  mkdir -p "$D/_seed"
  python3 - "$HERE/properties.jsonl" "$PID" > "$D/PROPERTY.txt" <<'PY'
import json, sys
for l in open(sys.argv[1]):
    p = json.loads(l)
    if p['id'] == sys.argv[2]:
        print(p['title']); print(); print(p['statement']); print(); print('Anchors (where this property lives in the code):')
        a = p.get('anchors') or {}
        for f in a.get('files', []):
            print('  file:', f)
        for m in a.get('mechanism', []):
            print('  mechanism: %s - %s' % (m.get('name'), m.get('where')))
        for m in a.get('state', []):
            print('  state: %s - %s (%s)' % (m.get('name'), m.get('meaning'), m.get('where')))
PY
  sed "s#__DIR__#$D#g" "$PR" > "$D/PROMPT.txt"
  echo "$PID"
done
