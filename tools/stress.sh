#!/usr/bin/env bash
# tools/stress.sh [rounds]: runs every quick check repeatedly and reports any run that is not "exit 0, no VIOLATION".
cd "$(dirname "${BASH_SOURCE[0]}")/.."
R="${1:-3}"
bad=0
for r in $(seq 1 "$R"); do
  for p in C01 C02 C03 C04 C05 C06 C07 C08 C09 C10 C11 C12 C13 C14 C15 C16 C17 C18 C19 C20; do
    out="$(VERIF_SEED=$r timeout 900 ./check $p 2>&1)"; rc=$?
    if [ $rc -ne 0 ] || echo "$out" | grep -q "^VIOLATION"; then
      bad=$((bad+1)); echo "ROUND $r $p rc=$rc"; echo "$out" | grep -E "^VIOLATION|^UNDECIDED|^CHECKER|tier=" | head -8
    fi
  done
  echo "round $r done"
done
echo "stress: $bad anomalous runs"
