#!/usr/bin/env bash
# tools/all.sh [quick|thorough]  - runs every property's check once, one summary line each; exit 1 if any check is not 0
HERE="$(cd "$(dirname "${BASH_SOURCE[0]}")/.." && pwd)"
cd "$HERE"
TIER="${1:-quick}"; BAD=0
for n in $(seq -w 1 20); do
  S=$(date +%s)
  OUT="$(./check "C$n" --tier "$TIER" 2>&1)"; RC=$?
  echo "$OUT" | grep -E "^VIOLATION|^UNDECIDED|^CHECKER-ERROR|tier=" | sed 's/replay=[^ ]*//'
  echo "C$n $TIER exit=$RC wall=$(( $(date +%s) - S ))s"
  [ "$RC" = 0 ] || BAD=1
done
# every contract a property only uses must be discharged by a unit of the same property (or be a listed external)
python3 tools/closure_audit.py || BAD=1
exit $BAD
