#!/usr/bin/env bash
# tools/harmless_import.sh <worktree-dir> <PROPERTY-ID> [tag]
# Takes the behaviour-preserving edits a sub-agent left in <worktree>/_seed/edit{1,2,3}.diff, confirms each independently
# (applies to /repo HEAD, pinned suite unchanged), stores it under /verif/harmless/<PID>-<k>/ and runs the property's check
# against it on a scratch copy: the check must exit 0.
set -u
W="$1"; PID="$2"; TAG="${3:-}"
HERE="$(cd "$(dirname "${BASH_SOURCE[0]}")/.." && pwd)"
for k in 1 2 3; do
  P="$W/_seed/edit$k.diff"
  [ -s "$P" ] || { echo "$PID-$k: no edit$k.diff"; continue; }
  T="$(mktemp -d /tmp/verif-harm.XXXXXX)"
  rsync -a --exclude .git --exclude _seed /repo/ "$T/repo/"
  if ! (cd "$T/repo" && patch -s -p1 < "$P"); then echo "$PID-$k: patch does not apply"; rm -rf "$T"; continue; fi
  TESTS="$(cd "$T/repo" && timeout 600 /venv/bin/python -m pytest -p no:cacheprovider --timeout=900 -q 2>&1 | tail -1)"
  case "$TESTS" in *"14 failed, 87 passed"*) ;; *) echo "$PID-$k: REJECT, test results changed: $TESTS"; rm -rf "$T"; continue;; esac
  mkdir -p "$HERE/harmless/$PID-$TAG$k"
  cp "$P" "$HERE/harmless/$PID-$TAG$k/patch.diff"
  [ -f "$W/_seed/notes.md" ] && cp "$W/_seed/notes.md" "$HERE/harmless/$PID-$TAG$k/notes.md"
  cd "$HERE"
  OUT="$(VERIF_REPO="$T/repo" VERIF_EVIDENCE_DIR="$T/evidence" VERIF_REPLAY_DIR="$T/replays" ./check "$PID" 2>&1)"; RC=$?
  echo "$PID-$TAG$k check exit=$RC  ($(grep -c '^[-+][^-+]' "$P") changed lines)"
  echo "$OUT" | grep -E "^VIOLATION|^UNDECIDED|^CHECKER-ERROR" | sed 's/replay=[^ ]*//' | cut -c1-260 | head -6
  printf '{"property": "%s", "check_exit": %s, "tests_with_change": "%s"}\n' "$PID" "$RC" "$TESTS" > "$HERE/harmless/$PID-$TAG$k/meta.json"
  rm -rf "$T"
done
