#!/usr/bin/env python3
"""Closure audit of the contract structure (reads evidence/*.json written by the last run of the checks).

For every property P and every library function that P's units use only THROUGH ITS CONTRACT (the call is replaced by the
contract, the body is not executed): where is that contract discharged from the real body?
  own      - by a unit of P itself
  other    - only by units of other properties (P's verdict then rests on those checks as well)
  nowhere  - by no unit: an assumption about library code that nothing checks
Prints a table; exit 1 if any contract is discharged nowhere."""
import glob
import json
import os
import sys

HERE = os.path.dirname(os.path.dirname(os.path.abspath(__file__)))
ev = {}
for p in sorted(glob.glob(os.path.join(HERE, 'evidence', 'C*.json'))):
    e = json.load(open(p))
    ev[e['property_id']] = e['coverage']['functions_under_contract']

# wrappers around an external library whose behaviour is an assumption of every property that meets them (listed there)
EXTERNAL = {'minecraft.networking.types.basic.NBT.read': 'pynbt (external): NBT values are opaque',
            'minecraft.networking.types.basic.NBT.send': 'pynbt (external): NBT values are opaque'}


def base(f):
    return f.split(' [')[0]

proved = {}        # function -> {property: unit}
for pid, fs in ev.items():
    for f, how in fs.items():
        if how.startswith('proved in') or how.startswith('body executed'):
            proved.setdefault(base(f), {}).setdefault(pid, how)
rows, nowhere = [], 0
for pid, fs in ev.items():
    for f, how in sorted(fs.items()):
        if how != 'used through its contract' or not f.startswith('minecraft.'):
            continue
        where = proved.get(base(f), {})
        if pid in where:
            kind, detail = 'own', where[pid]
        elif where:
            kind, detail = 'other', ', '.join('%s (%s)' % (k, v.replace('proved in ', '')) for k, v in sorted(where.items())[:4])
        elif f in EXTERNAL:
            kind, detail = 'external', EXTERNAL[f]
        else:
            kind, detail = 'nowhere', ''
            nowhere += 1
        rows.append((pid, f, kind, detail))
for pid, f, kind, detail in rows:
    if kind in ('other', 'nowhere') or '-v' in sys.argv:
        print('%s  %-8s %s   %s' % (pid, kind, f, detail))
print('%d contract uses; %d own, %d discharged by another property only, %d nowhere' % (
    len(rows), sum(r[2] == 'own' for r in rows), sum(r[2] == 'other' for r in rows), nowhere))
sys.exit(1 if nowhere else 0)
