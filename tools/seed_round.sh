#!/usr/bin/env bash
# tools/seed_round.sh  (ROUND=<n> KINDS=<20 letters A/B/C>)  - creates one scratch worktree per property under /tmp/seed8-<ID> with PROPERTY.txt and PROMPT.txt
# (round 8: cooperating sites / faults at a point / multi-step histories).  Nothing from /verif but the property text goes in.
HERE="$(cd "$(dirname "${BASH_SOURCE[0]}")/.." && pwd)"
KIND_A='TWO COOPERATING SITES'
TEXT_A='Your change must consist of TWO edits at two different sites (different functions; different files if you can) that each look fine alone and that each, applied alone, leave the property intact - only the two together break it (for example: a helper starts returning a slightly different but still reasonable thing AND a caller starts relying on the old meaning; a default changes in one place AND a guard that made the default harmless is simplified in another; a field moves in a writer AND a reader-side boundary moves the other way). Show this in notes.md: the demo passes with edit 1 alone, passes with edit 2 alone, and fails with both. Put both edits into the one patch.diff.'
KIND_B='FAULT AT A PARTICULAR POINT'
TEXT_B='The property must stay intact in fault-free runs and break only when a fault happens at one particular point: e.g. a socket send/recv raising or returning short or empty at a particular call, select() raising, the peer closing at a particular byte offset, zlib or the cipher raising, a thread starting late, a listener or handler raising at a particular stage, the HTTP service answering with an odd status/body, the second of two operations failing after the first succeeded. The demo injects exactly that fault (a scripted fake socket/peer, a monkeypatched external such as socket/select/zlib/requests/time/os.urandom is fine; do NOT monkeypatch the library itself) and shows the property violated afterwards.'
KIND_C='MULTI-STEP HISTORY'
TEXT_C='The property must stay intact for every single operation tried from a fresh state and break only after a HISTORY of at least three public operations in a particular order (for example connect - disconnect - connect again; authenticate - failed refresh - join; extend the version records - re-initialise - compare; several maps / players updated alternately; a listener registered, used, then another registered; compression enabled then a reconnect; status query then connect on the same object). State carried from an earlier step (a cached value, a list that is not cleared, a flag that is not reset, an attribute shared between instances, a default mutable argument) must be what makes a later step go wrong.'
KIND_D='PARTICULAR INTERLEAVING'
TEXT_D='The property must stay intact in every single-threaded use and break only under ONE PARTICULAR INTERLEAVING of two threads (the networking thread and a user thread, or two user threads): a lock taken a little later or released a little earlier, a check made outside the lock and acted on inside it, a flag read twice, a list iterated while another thread registers into it, a queue inspected and then popped in two steps, an attribute swapped in two assignments that another thread can see in between. The demo must FORCE that interleaving deterministically (threading.Event / Barrier placed through a subclassed or wrapped socket, listener, handler or packet object, or a monkeypatched EXTERNAL such as socket / select / time / threading - do NOT monkeypatch the library itself and do not rely on sleeping and hoping) and show the property violated; on the original code the same forced schedule must be harmless.'
KIND_E='UNUSUAL BUT VALID USE OF THE PUBLIC API'
TEXT_E='The property must stay intact for the ways the test suite and start.py use the library and break only for an UNUSUAL BUT VALID use of the public API that the documentation or the code comments explicitly allow: an optional argument given (or given by keyword instead of by position, or as the other accepted type - a name instead of a number, a tuple instead of a record, a list instead of a set, bytes-like instead of bytes), a documented alternative call style (decorator instead of method, class access instead of instance access, subclass overriding a documented hook such as get_id / get_definition / a class attribute), an instance reused or copied, an empty collection, a packet or type defined by the user on top of the library base classes. The demo uses only such documented forms.'
KIND_F='PYTHON SEMANTICS SUBTLETY'
TEXT_F='The change must be one that reads as equivalent to a reviewer who does not think hard about Python semantics, and breaks the property only through such a subtlety: a mutable default argument or a class-level mutable shared between instances; a closure that binds late; `is` where `==` is meant (or the reverse) for small ints / interned strings / None-vs-falsy; truthiness of 0, 0.0, empty bytes, empty string, empty tuple; bool being an int; integer vs float division or rounding (round-half-even, floor vs trunc of negatives, `//` and `%` on negative numbers); dict / set iteration order; `or` / `and` returning an operand; a generator or iterator consumed twice; `__slots__`, MRO or classmethod/staticmethod/property binding; exception chaining or a bare `except` catching too much; `bytes` vs `bytearray` vs `memoryview` behaviour; string formatting of negative or large numbers; chained comparison or operator precedence. The property must survive ordinary values and break only for the value or usage that meets the subtlety.'
i=0
for n in $(seq -w 1 20); do
  PID="C$n"; D="/tmp/seed${ROUND:-8}-$PID"
  git -C /repo worktree add --detach "$D" HEAD >/dev/null 2>&1 || { echo "worktree $D exists?"; continue; }
  mkdir -p "$D/_seed"
  python3 - "$HERE/properties.jsonl" "$PID" > "$D/PROPERTY.txt" <<'PY'
import json, sys
for l in open(sys.argv[1]):
    p = json.loads(l)
    if p['id'] == sys.argv[2]:
        print(p['title']); print(); print(p['statement'])
PY
  case "${KINDS:-}" in "") k=$(( i % 3 ));; *) k=$(echo "$KINDS" | cut -c$((i+1)) | tr 'ABCDEF' '012345');; esac
  case $k in 0) K="$KIND_A"; T="$TEXT_A";; 1) K="$KIND_B"; T="$TEXT_B";; 2) K="$KIND_C"; T="$TEXT_C";; 3) K="$KIND_D"; T="$TEXT_D";; 4) K="$KIND_E"; T="$TEXT_E";; 5) K="$KIND_F"; T="$TEXT_F";; esac
  { sed "s#__DIR__#$D#g" "$HERE/tools/seed_prompt.txt"; echo
    sed -e "s#__KIND__#$K#" "$HERE/tools/seed_prompt8_extra.txt" | python3 -c "import sys; print(sys.stdin.read().replace('__KINDTEXT__', sys.argv[1]))" "$T"; } > "$D/PROMPT.txt"
  echo "$PID kind=$K"
  i=$((i+1))
done
