#!/usr/bin/env bash
# tools/seed_import.sh <worktree-dir> <PROPERTY-ID> <seed-name>
# Confirms a sub-agent's seeded change independently (tests unchanged, demo passes without / fails with the change),
# stores it under /verif/seeded/<seed-name>/ and runs the property's check against it on a scratch copy.
set -u
W="$1"; PID="$2"; NAME="$3"
HERE="$(cd "$(dirname "${BASH_SOURCE[0]}")/.." && pwd)"
[ -f "$W/_seed/patch.diff" ] && [ -f "$W/_seed/demo.py" ] || { echo "missing deliverables in $W/_seed"; exit 9; }
T="$(mktemp -d /tmp/verif-seed.XXXXXX)"
trap 'rm -rf "$T"' EXIT
rsync -a --exclude .git --exclude _seed /repo/ "$T/repo/"
mkdir -p "$T/repo/_seed"; cp "$W/_seed/demo.py" "$T/repo/_seed/demo.py"
# the demo checks minecraft.__file__ against the agent's worktree path: point it at the scratch copy
sed -i "s#$W#$T/repo#g" "$T/repo/_seed/demo.py"
cd "$T/repo"
PYTHONPATH="$T/repo" timeout 120 /venv/bin/python _seed/demo.py >/dev/null 2>&1; D0=$?
patch -s -p1 < "$W/_seed/patch.diff" || { echo "patch does not apply to /repo HEAD"; exit 8; }
PYTHONPATH="$T/repo" timeout 120 /venv/bin/python _seed/demo.py > "$T/demo.out" 2>&1; D1=$?
TESTS="$(timeout 600 /venv/bin/python -m pytest -p no:cacheprovider --timeout=900 -q 2>&1 | tail -1)"
echo "demo original exit=$D0  changed exit=$D1  tests: $TESTS"
case "$TESTS" in *"14 failed, 87 passed"*) ;; *) echo "REJECT: test results changed"; exit 7;; esac
[ "$D0" = 0 ] && [ "$D1" != 0 ] || { echo "REJECT: demo does not discriminate"; tail -3 "$T/demo.out"; exit 6; }
mkdir -p "$HERE/seeded/$NAME"
cp "$W/_seed/patch.diff" "$HERE/seeded/$NAME/patch.diff"
sed "s#$W#__WORKTREE__#g" "$W/_seed/demo.py" > "$HERE/seeded/$NAME/demo.py"
[ -f "$W/_seed/notes.md" ] && sed "s#$W#__WORKTREE__#g" "$W/_seed/notes.md" > "$HERE/seeded/$NAME/notes.md"
cd "$HERE"
OUT="$(VERIF_REPO="$T/repo" VERIF_EVIDENCE_DIR="$T/evidence" VERIF_REPLAY_DIR="$T/replays" ./check "$PID" 2>&1)"; RC=$?
echo "$OUT" | grep -E "^VIOLATION|^UNDECIDED|^CHECKER-ERROR|tier=" | sed 's/replay=[^ ]*//' | head -12
echo "check exit=$RC"
python3 - "$HERE/seeded/$NAME/meta.json" "$PID" "$RC" "$TESTS" "$D0" "$D1" <<'PY'
import json, sys
path, pid, rc, tests, d0, d1 = sys.argv[1:7]
try:
    m = json.load(open(path))
except Exception:
    m = {}
m.update(property=pid, tests_with_change=tests, demo_exit_original=int(d0), demo_exit_changed=int(d1),
         check_cmd='./check %s --tier quick (against a scratch copy with patch.diff applied)' % pid, check_exit=int(rc),
         detected=(int(rc) == 1))
m.setdefault('needs_to_manifest', 'see notes.md')
json.dump(m, open(path, 'w'), indent=1)
PY
