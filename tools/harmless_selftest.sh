#!/usr/bin/env bash
# Runs every stored behaviour-preserving edit against its property's check on a scratch copy: every check must exit 0.
# tools/harmless_selftest.sh [-j N]   (N edits at a time, default 3)
HERE="$(cd "$(dirname "${BASH_SOURCE[0]}")/.." && pwd)"
cd "$HERE"
J=3; [ "${1:-}" = "-j" ] && J="$2"
one() {
  d="$1"; n="$(basename "$d")"; pid="${n%%-*}"
  T="$(mktemp -d /tmp/verif-harm.XXXXXX)"
  rsync -a --exclude .git /repo/ "$T/repo/"
  (cd "$T/repo" && patch -s -p1 < "$HERE/$d/patch.diff") || { echo "$n: patch no longer applies"; rm -rf "$T"; return; }
  VERIF_REPO="$T/repo" VERIF_EVIDENCE_DIR="$T/evidence" VERIF_REPLAY_DIR="$T/replays" ./check "$pid" > "$T/out" 2>&1; rc=$?
  {
    echo "$n property=$pid check-exit=$rc"
    [ "$rc" = 0 ] || grep -E '^VIOLATION|^UNDECIDED|^CHECKER-ERROR' "$T/out" | sed 's/replay=[^ ]*//' | cut -c1-220 | head -4 | sed "s/^/    $n: /"
  } > "$T/line"; cat "$T/line"
  rm -rf "$T"
}
export -f one; export HERE
OUT="$(ls -d harmless/*/ | xargs -P "$J" -I{} bash -c 'one {}')"
echo "$OUT"
echo "$OUT" | grep "check-exit=" | grep -qv "check-exit=0$" && exit 1
exit 0
