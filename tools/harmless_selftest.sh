#!/usr/bin/env bash
# Runs every stored behaviour-preserving edit against its property's check on a scratch copy: every check must exit 0.
HERE="$(cd "$(dirname "${BASH_SOURCE[0]}")/.." && pwd)"
cd "$HERE"
FAIL=0
for d in harmless/*/; do
  n="$(basename "$d")"; pid="${n%%-*}"
  T="$(mktemp -d /tmp/verif-harm.XXXXXX)"
  rsync -a --exclude .git /repo/ "$T/repo/"
  (cd "$T/repo" && patch -s -p1 < "$HERE/$d/patch.diff") || { echo "$n: patch no longer applies"; rm -rf "$T"; continue; }
  VERIF_REPO="$T/repo" VERIF_EVIDENCE_DIR="$T/evidence" VERIF_REPLAY_DIR="$T/replays" ./check "$pid" > "$T/out" 2>&1; rc=$?
  echo "$n property=$pid check-exit=$rc"
  [ "$rc" = 0 ] || { FAIL=1; grep -E '^VIOLATION|^UNDECIDED|^CHECKER-ERROR' "$T/out" | sed 's/replay=[^ ]*//' | cut -c1-220 | head -4; }
  rm -rf "$T"
done
exit $FAIL
