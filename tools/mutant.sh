#!/usr/bin/env bash
# tools/mutant.sh <patch.diff | -e 'sed-expr' file> -- <PID> [check args]
# Applies a change to a scratch copy of /repo (outside /repo and /verif), runs the check against it, removes the copy.
set -u
HERE="$(cd "$(dirname "${BASH_SOURCE[0]}")/.." && pwd)"
T="$(mktemp -d /tmp/verif-mutant.XXXXXX)"
trap 'rm -rf "$T"' EXIT
rsync -a --exclude .git /repo/ "$T/repo/"
if [ "$1" = "-e" ]; then
  sed -i -e "$2" "$T/repo/$3"; shift 3
else
  (cd "$T/repo" && patch -s -p1 < "$1") || { echo "patch failed"; exit 9; }; shift 1
fi
[ "$1" = "--" ] && shift
(cd "$T/repo" && diff -ru /repo/minecraft minecraft | head -40)
VERIF_REPO="$T/repo" VERIF_EVIDENCE_DIR="$T/evidence" VERIF_REPLAY_DIR="$T/replays" "$HERE/check" "$@"
echo "exit=$?"
