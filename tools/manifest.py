#!/usr/bin/env python3
"""Regenerates /verif/MANIFEST.json from the table below and validates it."""
import json
import os
import sys

ROOT = os.path.dirname(os.path.dirname(os.path.abspath(__file__)))

TECH = 'contract-based deductive verification: AST->SMT verification conditions over the real source (PyVC), z3 + cvc5'

CLAIMED = {
    'C03': dict(
        text='Every obligation is a solver-discharged verification condition generated from the AST of the real '
             'VarInt.read/send/size in /repo on every run: decoding is proved for EVERY byte stream (symbolic bytes and '
             'symbolic length; complete unrolling max_bytes+2 with an unwinding assertion), encoding canonical for every '
             'n < 2^32 / 2^64 in BV(128) with no-overflow side obligations, termination of send for every integer by loop '
             'invariant + variant in unbounded Int theory, size(n) = |enc(n)| for n < 2^84. Counter-models are replayed on '
             'the real functions.',
        note='Trusted: struct.pack("B") contract, S1 stream-read contract (read(1) returns one byte or b"" at end), the '
             'Python-subset semantics of PyVC (cross-checked per path against CPython). Bounded enumeration stand-ins run '
             'alongside and are never counted as proved.',
        design='§6 C03'),
}

CLAIMED['C04'] = dict(
    text='Position.send_with_context/read_with_context, ChunkSectionPos.send/read and Record.send/read_with_context are '
         'executed symbolically from their real source for EVERY in-range coordinate triple (BV(128), no-overflow side '
         'obligations) and EVERY known protocol version at once (one symbolic chronological index, S4 contract of '
         'protocol_later_eq): emitted bytes equal the protocol packing written independently in spec/ (x|z|y from 477, '
         'x|y|z up to 404, one of the two with a single monotone switch in between), decode is the inverse, every 64-bit '
         'word re-encodes to itself, records match both sides of 741. Counter-models are replayed on the real functions.',
    note='Trusted: struct.pack/unpack ">Q"/">B" contract; S4 contract of ConnectionContext.protocol_later_eq (proved in '
         'C08); UnsignedLong/UnsignedByte one-line wrappers and VarInt/VarLong bodies are inlined (executed, unrolled with '
         'unwinding assertions); PyVC Python-subset semantics (per-path CPython conformance runs).',
    design='§6 C04')
CLAIMED['C02'] = dict(
    text='For every type of types/basic.py the real read/send bodies are turned into verification conditions: integers and '
         'Boolean for all values of their domain in BV(128) against big-endian two\'s-complement spec bytes (plus inverse, '
         'exact consumption, and a raise on every truncated input of symbolic length), Float/Double as glue around the '
         'assumed IEEE pack/unpack functions (byte order, width), FixedPoint/Angle over reals against trunc(v*2^n) / '
         'round(256*(v mod 360)/360) mod 256 using the S3 contracts of their carriers (not their bodies), byte arrays/String/'
         'UUID with symbolic-length payload blobs (prefix = spec length encoding, payload unchanged, inverse, truncation '
         'inside the payload raises), PrefixedArray at byte level for every fixed length 0..3 incl. nesting and context dispatch and, '
         'for arrays of ANY length (symbolic n, abstract length/element types, for-loop and comprehension invariants): length '
         'first, then exactly n elements in order, once each, same socket/context; Type dispatch on class and instance.',
    note='Trusted: struct pack/unpack contract incl. IEEE-754 for f/d (opaque functions), utf-8 and uuid.UUID inverse-pair '
         'contracts, floats as reals in FixedPoint/Angle (bounded IEEE stand-in alongside: 1/64-degree angle grid, all 256 '
         'angle bytes, independent IEEE encoder), byte-level array proofs for lengths 0..3 (any length: structural proof with '
         'abstract element types), pynbt (NBT) not covered.',
    design='§6 C02')

CLAIMED['C06'] = dict(
    text='Every get_id and all eight get_packets are executed symbolically once over a symbolic chronological version index '
         '(369 known versions in one run); their strongest postconditions (region tables) are then used to discharge, per '
         'table, id.total for each member class and id.injective for each unordered pair over ALL supported versions as one '
         'solver query each, with witness enumeration by blocking clauses. PacketReactor.__init__\'s dict comprehension is '
         'executed from its real body per region (reactor.map). The 9 collisions on supported versions that exist in the '
         'unchanged tree are listed in known_findings.json by (pair, protocol); the residual obligation (no other witness) is '
         'what must be unsat. Collisions on unsupported known versions are reported in the evidence only.',
    note='Trusted: S4 version-order contract (proved in C08), Python set/dict semantics on class objects. A brute-force pass '
         'over all known versions on the real functions runs alongside as a cross-check (exhaustive, labelled bounded).',
    design='§6 C06')
CLAIMED['C08'] = dict(
    text='(i) The real initglobals is verified for an ARBITRARY record list: the module tables are symbolic containers (z3 '
         'arrays with ghost first-occurrence / position / last-writer arrays) and both loops carry quantified for-loop '
         'invariants (43 conjuncts per loop, each its own obligation) stating that after k records every list is the '
         'order-preserving duplicate-free projection, the index map is the position map, and every ordered dict is the '
         'last-writer-wins map with keys in first-insertion order; the invariant holds at entry because each table is cleared '
         'first, so the result depends on the CURRENT records only (idempotence, run-time extension). (ii) The real bodies of '
         'protocol_earlier/_eq and of the five ConnectionContext predicates are executed over an ABSTRACT injective index map: '
         'strict total order, mutual consistency and the S4 contract for every table initglobals can build. (iii) Closed '
         'obligations on the literal record list (numeric / publication order, every derived table equals the projection '
         'written independently) and on in-place update of the shared table objects after re-initialisation.',
    note='Trusted: list / dict / OrderedDict semantics as modelled (append, in, item assignment, clear, items order), dict '
         'lookup, the release-id regex as an uninterpreted predicate on ids. Injectivity of idx used by the order proof is '
         'conjunct A/B of the initglobals invariant. Bounded alongside: generated record lists with colliding ids/protocols, '
         'extend + re-initialise, comparison functions re-checked after every rebuild; all pairs of the 369 shipped versions.',
    design='§6 C08, §10.2')

CLAIMED['C07'] = dict(
    text='For each of the 30 README-listed release protocols and each of the 20 core packets: membership in the right '
         'state/direction table, get_id equal to the reference id, and - with symbolic field values - the typed-atom sequence '
         'emitted by the REAL write_fields equal to the reference field list, and the REAL read on the reference sequence '
         'returning the values and consuming it exactly. Field types enter through their S2/S3 contracts (proved at byte '
         'level in C02/C03), so a consistent change to both directions (shifted layout boundary, swapped fields, wrong id) '
         'fails a named obligation. A byte-level pass with an independent concrete encoder and boundary values runs alongside.',
    note='Trusted: spec/protocol_ref.py (ids and field lists transcribed from the protocol documentation from memory - no '
         'network), the S2/S3 codec contracts, NBT as opaque blobs (position only), one-byte signedness not distinguished.',
    design='§6 C07')

CLAIMED['C17'] = dict(
    text='generate_verification_hash / minecraft_sha1_hash_digest / _number_from_bytes are executed symbolically from their '
         'real source: the SHA-1 update trace equals utf8(server_id) || secret || public_key structurally (any order or extra '
         'update fails hash.order), and for EVERY 20-byte digest (20 symbolic bytes) the returned string is the hex of the '
         'signed big-endian integer (signed=/byteorder=/format-spec glue). Must-fail twins: swapped order, unsigned value.',
    note='Trusted (assumed contracts, sampled in the bounded part against spec/javahex.py and the three published '
         'vectors): hashlib.sha1 as an uninterpreted function of the concatenated updates, int.from_bytes two\'s-complement '
         'semantics, format(n, "x") = BigInteger.toString(16). The use of the hash in the login reaction is C10.',
    design='§6 C17')

CLAIMED['C19'] = dict(
    text='Every operation of AuthenticationToken and _raise_from_response is executed symbolically from its real source against '
         'a ghost Yggdrasil service at the _make_request boundary: symbolic status code (200 / 204 / any other 1xx-5xx), 14 '
         'reply-body shapes with symbolic string contents, token fields present/empty/absent where the operation depends on '
         'them, and all 3^3*2^2 presence combinations for the authenticated predicate. Obligations: exactly one request with '
         'the documented endpoint and payload, success stores exactly the returned tokens/profile, every error reply raises '
         'YggdrasilError with status and error fields (or the Malformed message) for EVERY body shape, no credential field '
         'changes on a raising path (frame), validate true iff 204, join refuses without a request when not authenticated. '
         'The one-line body of _make_request is checked against a model of requests.post.',
    note='Trusted: requests.post reply object contract, json.dumps uninterpreted, JSON bodies explored by shape (contents '
         'symbolic), string formatting modelled with z3 strings. A stub-of-requests.post grid on the real code runs alongside '
         '(bounded). Real HTTP encoding by requests is not covered.',
    design='§6 C19')

CLAIMED['C01'] = dict(
    text='Packet.write/_write_buffer: the bytes handed to the socket equal frame(payload, threshold) for a symbolic payload '
         'length and EVERY threshold (absent, None, any integer incl. negative/zero/huge) in exactly two sends. '
         'PacketReactor.read_packet: (i) the reassembly loop is verified by inductive invariant + variant under the short-read '
         'contract (any 1 <= k <= n per read, so every partition of the byte stream incl. one byte at a time, and every '
         'end-of-stream position), exit state = exactly the frame body with the cursor at its end; (ii) from that state the '
         'parser returns the packet of the payload id (registered class given exactly the field bytes, unknown id -> generic '
         'Packet with the id), with the stream cursor exactly at the end of the frame, for one and for two consecutive '
         'symbolic frames, compression on/off; (iii) inflated size must match. Cipher wrappers refine the read/send contracts '
         'for every split (stream homomorphism), Connection._write_packet passes the threshold iff compression is enabled. '
         'Writers on several threads: every path to the wire holds the write lock (closed-world call-site scan + ghost lock depth '
         'in write_packet), so the two sends of a frame stay adjacent; one directed two-thread schedule is replayed on the real code.',
    note='Trusted: zlib inverse pair, cipher contexts as stream homomorphisms (what AES-CFB8 computes is C18\'s bounded part), '
         'S1 read contracts, select.select arbitrary, S2 VarInt contracts (C03). Sequences longer than two frames follow by '
         'induction on the cursor postcondition - that induction is an argument, not machine-checked. Bounded stand-ins on the '
         'real code (thresholds x sizes, chunked reads, truncations, real AES wrappers) run alongside.',
    design='§6 C01')
CLAIMED['C15'] = dict(
    text='The crash point is a symbolic integer (bytes sent before the server stops). Discharged on the real source: '
         'VarInt.read performs at most max_bytes+1 reads and raises EOFError at end of stream for every stream; the frame '
         'reassembly loop has a variant that strictly decreases on every back edge for every end-of-stream position and exits '
         'only with the whole frame (otherwise EOFError); the cipher wrapper preserves k = 0 iff end of stream; a packet is '
         'returned only from a complete, size-consistent frame.',
    note='Propagation of the exception to thread termination and the status-phase fallback are the C14/C09 obligations '
         '(included here once those modules provide them); liveness beyond per-call termination and real blocking-socket '
         'behaviour are assumed (S1). Bounded: every prefix of three reference streams through the real read_packet with a read budget.',
    design='§6 C15')

CLAIMED['C13'] = dict(
    text='Connection._react and _write_packet are verified from their real source for listener lists of ANY length: the '
         'two loops over the listener lists carry for-loop invariants over the element index with ghost call counters '
         '(early count, built-in stage, ordinary count); each abstract listener call checks that it happens in the documented '
         'position, and may return, raise IgnorePacket or raise another exception. Discharged: order early -> built-in -> '
         'ordinary, each exactly once, IgnorePacket from stage j stops everything after j and is swallowed, other exceptions '
         'propagate, no list/flag is modified, an early outgoing IgnorePacket suppresses the write, the write gets the threshold '
         'iff compression is enabled. PacketListener.call_packet: registered-type list of symbolic length with an abstract '
         'isinstance relation (quantified invariant): called at most once, exactly once iff some type matches. '
         'register_packet_listener: all 9 flag combinations, appended to exactly the selected list.',
    note='Trusted: callbacks do not mutate the listener lists during dispatch; Python list.append semantics. Bounded: seeded '
         'concrete listener configurations on the real Connection, exhaustive type-filter hierarchy.',
    design='§6 C13')

CLAIMED['C14'] = dict(
    text='Connection._handle_exception is verified from its real source for a handler list of ANY length (for-loop invariant; '
         'handlers abstract: match relation, return or raise a fresh exception), each iteration against one step of the '
         'try/except-chain fold of the statement: a handler is called only on a match, with the current exception and its '
         'exc_info, at most once; returning catches and stops; raising replaces the exception. Then: the final handler (None / '
         'False / returning / raising function) runs on every non-suppressed path with the current exception, the last exception '
         'is recorded, disconnect(immediate=True) happens exactly when the successor-or-current thread is interrupted, and the '
         'exception is re-raised iff no final handler is configured and nothing caught. NetworkingThread.run: over all abstract '
         'behaviours of _run/_handle_exit/_handle_exception and predecessor states - interrupt set before routing, routed exactly '
         'once, slot cleared under the lock on EVERY path (also BaseException), predecessor joined before any _run step. '
         'register_exception_handler: head insertion for early, append otherwise.',
    note='Trusted: handlers do not mutate the handler list during traversal; sys.exc_info() semantics; RLock/join semantics. '
         'The composition "each step refines the fold step => the loop computes the fold" is the standard invariant argument. '
         'Bounded: seeded concrete handler chains against an independent fold on the real code.',
    design='§6 C14')

CLAIMED['C16'] = dict(
    text='Sequential typestate proof on the real source: Connection.__init__ is executed and the object is then placed in every '
         'abstract state (5 thread states x 5 transport states); connect, status, disconnect and disconnect(immediate) are each '
         'verified from every state: refusal with InvalidState and an untouched object when a thread is active or a successor '
         'exists, exactly one thread started from Idle, exactly one successor (previous = ending thread) from Ending, a refused '
         'TCP connect propagates and starts nothing, disconnect never raises, sets connected False, interrupts the successor-or-'
         'current thread, writes nothing when immediate, closes once, and is idempotent; the lock is released on every path. '
         'The real _connect is verified against models of the socket layer with a failure injected at each stage, and disconnect '
         'is shown total after every exit. Histories of any length follow by induction over the preserved invariant; hand-over '
         'and the finally-clause of run are C14.thread-wrapper.',
    note='NOT decided: interleavings of several user threads, and liveness (that an interrupted thread is scheduled and '
         'terminates). Trusted: RLock/Thread.start/join semantics, socket-layer failure model. Bounded: all call histories of '
         'length <= 4 against a refusing port on the real Connection, and one live loopback scenario with real threads.',
    design='§6 C16')

CLAIMED['C09'] = dict(
    text='Executed symbolically from the real source: (i) Connection.__init__ accepts an initial version number iff it is '
         'supported, for EVERY integer, resolves names, and picks the chronologically latest allowed version as default; '
         '(ii) PlayingStatusReactor.handle_status/handle_exception and _version_mismatch for an ARBITRARY server protocol '
         'number, an abstract allowed set and every status shape: empty object rejected, missing version/protocol -> '
         'allowed := {default} and reconnect, allowed number -> allowed := {server number} and reconnect, otherwise '
         'VersionMismatch whose message contains the decimal number and ends with the correct verdict (unsupported iff not in '
         'the supported list), EOFError -> immediate disconnect + same fallback, other exceptions not swallowed; (iii) '
         'connect() for every singleton of a supported version and three larger sets, symbolic host/port/user: queue = '
         '[Handshake(chosen, host, port, 2), LoginStart(profile or user)] with the login reactor, or [Handshake(.., 1), '
         'Request] with the playing-status reactor, order check -> transport -> thread start; (iv) status() in all 9 handler '
         'modes: handler called once with the parsed object, ping queued iff requested, non-negative latency for a monotone '
         'timer, disconnect on every terminating path.',
    note='Trusted: C16 contracts of _connect/_start_network_thread/_check_connection (abstracted here), json.loads and '
         'timeit.default_timer models, z3 string theory for message obligations. The exit callback after a status query is the '
         '_handle_exit obligation of C11. Bounded: all known numbers/names through the real constructor, real handle_status grid, '
         'real connect() queue shapes.',
    design='§6 C09')

CLAIMED['C10'] = dict(
    text='Per-step contracts of LoginReactor.react, executed from the real source over a ghost event trace: encryption request '
         '(symbolic server id / key / token; with and without auth token): exactly one fresh 16-byte secret, join(hash(server id, '
         'the SAME secret, the packet key)) iff online and a token is set, EncryptionResponse{shared_secret = RSA(secret), '
         'verify_token = RSA(token)} written forced, under the lock, through the UNWRAPPED socket before the swap, then socket and '
         'file object wrapped with encryptor/decryptor of ONE cipher with key = IV = that secret, nothing queued; set compression '
         'for every integer threshold with a frame condition; plugin request -> exactly one unsuccessful response queued; login '
         'success -> PlayingReactor of the same connection; any other packet changes nothing; login disconnect for 10 JSON body '
         'shapes with symbolic strings: never a silent exit, LoginDisconnect containing the message or VersionMismatch for the two '
         '"Outdated" forms (regex as z3 regular expression). Login dispatch tables for a symbolic supported version against the '
         'reference in spec/protocol_ref.py: membership and ids of the clientbound/serverbound login packets per version range '
         '(plugin packets from 385, shifted ids 385..390), the reactor resolves the specified id, and the plugin exchange bytes-in -> '
         'bytes-out (VarInt id of any length, any channel, any payload -> VarInt(id) + false). The networking thread\'s read loop '
         'takes reactor and file object from the connection at every read (loop contract of _run with a reaction that replaces both), '
         'so the cipher swap takes effect for the very next packet.',
    note='The history quantifier (any admissible order of steps) is an induction over these per-step obligations - an '
         'argument, not machine-checked. Trusted: os.urandom, RSA/AES constructors as uninterpreted functions, C17 hash '
         'contract, json.loads shapes, z3 string/regex theory. Bounded: the reaction with a real RSA-1024 key and real AES '
         '(response decrypted independently, cipher compared with a reference CFB8), 18 concrete disconnect bodies.',
    design='§6 C10')

CLAIMED['C11'] = dict(
    text='PlayingReactor.react from its real source, for every supported version at once (symbolic version index) and symbolic '
         'field values: keep-alive -> exactly one KeepAlive with the same id appended at the tail, position-and-look -> '
         'TeleportConfirm(same id) from protocol 107 / an echoing position packet before, spawned set, disconnect -> disconnect() '
         'once, generic/unhandled packets change nothing (frame). _pop_packet on a queue of symbolic length writes the oldest '
         'element and removes exactly it. NetworkingThread._run: its three loops carry invariants and variants (write batch <= 300 '
         'in FIFO order and only under the lock; read batch: every packet returned by read_packet is handed to _react exactly once, '
         'in order, before the next read, outside the lock, <= 50; a pending write error is the only exception _run raises itself, '
         'and it is dropped after a disconnect packet), the lock is released on every path. _handle_exit: callback exactly once '
         'iff closed and set. Keep-alive on the wire: the server\'s bytes are built from the specification (Long from protocol 339, '
         'canonical VarInt before; spec/protocol_ref.py), decoded, answered and re-encoded by the real code: whole field consumed and '
         'the answer carries the same bytes, for every supported version and id. Frames of any conforming peer (compressed or not '
         'at any size) are accepted and inflated exactly when their data-length field is non-zero.',
    note='Safety only: "always answered" as liveness (the loop runs again, the queue is eventually written) is not decided. '
         'Trusted: deque FIFO semantics, S4 version order, read_packet (C01) and _react (C13) through their contracts. Bounded: '
         'seeded 120-packet server histories on the real reactor at protocols 47/107/340/757, the real _run with 700 outgoing and '
         '120 incoming packets.',
    design='§6 C11')

CLAIMED['C12'] = dict(
    text='Decided: the mechanism the property rests on, as ownership contracts with a ghost lock depth on the real source - '
         'every call site of _write_packet/_pop_packet/Packet.write(socket) and every mutator of the outgoing queue in the whole '
         'package is found by a closed-world AST scan and must either be one of the seven sites that carry a discharged lock '
         'obligation (write_packet forced: lock held at _write_packet; disconnect flush; _run write batch; ...) or lie lexically '
         'inside "with ..._write_lock"; one Packet.write = prefix + body in exactly two sends (frame.contiguous); queued writes '
         'append at the tail and the only remover takes the head; non-immediate disconnect pops until the queue is empty '
         '(loop invariant + variant, FIFO order) before shutdown/close, immediate disconnect pops and sends nothing.',
    note='NOT decided: the schedule quantifier. The family has no thread semantics; mutual exclusion of RLock and atomicity of '
         'deque operations are ASSUMED, and under them the obligations give contiguous frames and per-thread order. Residual '
         'not covered: the cipher-wrapper swap in the login reaction, unlocked deque.append racing the final flush. Bounded: a '
         'real-thread stress run (1/2/4 writers + a draining thread), which is a sample of schedules, not an exploration.',
    design='§6 C12')

CLAIMED['C18'] = dict(
    text='Proved on the real source (glue): generate_shared_secret is exactly one fresh os.urandom(16) per call; '
         'create_AES_cipher = AES(key = secret) with CFB8(iv = secret); encrypt_token_and_secret returns (RSA(token), RSA(secret)) '
         'under the key loaded from the DER bytes with PKCS#1 v1.5 (must-fail twin: swapped); the socket/file wrappers are stream '
         'transformers over their contexts for EVERY split into send/recv/read calls, each direction through its own context, one '
         'underlying call per call; the login reaction installs encryptor/decryptor of ONE cipher keyed by the transmitted secret '
         'after the clear-text response.',
    note='ASSUMED, only sampled (bounded, never counted as proved): that the cryptography primitives compute AES-128-CFB8 and '
         'that RSA decryption inverts encryption - compared on every run with an independent pure-Python AES-128-CFB8 '
         '(spec/aes.py, FIPS-197 vector checked) over random streams and partitions in both directions, and RSA round trips for '
         'token lengths 1..64 under locally generated 1024/2048-bit keys.',
    design='§6 C18')

CLAIMED['C20'] = dict(
    text='Step contracts on the real source, each over the whole abstract view: the five player-list actions on a map with '
         'symbolic keys (two-point abstraction: the touched entry and ONE arbitrary other entry, which must stay untouched - the '
         'frame over all other players), actions of a packet applied in list order for a list of any length (for-loop invariant); '
         'map patching: the pixel loop carries a quantified invariant (every cell holds pixel ((z-oz)*w + (x-ox)) if that index '
         'was already written, else its original content) for all 128 patch widths, symbolic height/offsets/pixels on a 128-wide '
         'map, plus copy of id/scale/icons/flags and default-map creation; position tracker for all flag values over reals; '
         'MutableRecord == / != / hash / iter for every record class with symbolic slots; Vector operators component-wise and '
         'type-preserving; EVERY multi_attribute_alias of the library (discovered from the getters\' closures) reads back what '
         'was set; BitFieldEnum/Enum.name_from_value for every enum of the library with a symbolic value: the printed name '
         'parses back to the value.',
    note='Histories follow by induction over the step contracts (argument, not machine-checked). Trusted: floats as reals '
         '(IEEE stand-in alongside: all 32 flag combinations x boundary doubles incl. tiny negatives), hash congruence, dict '
         'semantics, map width 128 and patch inside the map at proof level (other widths bounded), generated flag enums bounded only.',
    design='§6 C20')

CLAIMED['C05'] = dict(
    text='For each of the 52 (table, class) pairs the REAL write_fields and read - definition-driven or hand-written - are '
         'executed symbolically over ONE symbolic chronological version index ranging over all 250 supported versions (the '
         'ladders in get_definition/read/write_fields split it into regions) with symbolic field values over each wire type\'s '
         'domain: every field reads back equal, the payload is consumed exactly, the id is a non-negative int equal to the '
         'instance\'s, __repr__ raises on no path. Hand-written pairs (MapPacket, PlayerListItemPacket with its five actions and '
         'properties, SpawnObjectPacket, CombatEventPacket with its three events, FacePlayerPacket, PluginResponsePacket, '
         'SoundEffect position/pitch, explosion records) are covered with every optional-field combination. User-defined '
         'packets: Packet.write_fields/read for a definition list of ANY length with abstract field types (for-loop invariant: '
         'field j is handled j-th, once, with attribute j). Lists of ANY length inside hand-written packets (MapPacket.icons, '
         'PlayerListItemPacket.actions for each action type, AddPlayerAction.properties): loop contracts on the writer\'s and the '
         'reader\'s loop - the reader\'s arbitrary iteration is fed the bytes the writer\'s loop body (executed from its AST) emits for '
         'an arbitrary element, must consume exactly those, append exactly one element, and that element must equal the original.',
    note='Field types enter through their S2/S3 contracts (C02/C03) and the C04 inverse contracts, not their bodies; the '
         'byte-level units unroll lists for lengths 0..2, the any-length units carry the induction; list counts < 2^31; NBT opaque; floats as reals with '
         'wire-representable Angle/FixedPoint/Pitch values; SpawnObjectPacket.__repr__ only in the bounded '
         'part (its enum lookup formats the concrete protocol number); name_from_value/nbt_to_snbt through contracts. Bounded: '
         'byte-level round trips on the real code for a sixth of the supported versions (all in the thorough tier), generated '
         'definitions incl. nested arrays.',
    design='§6 C05')

PLANNED = {
    'C01': 'check not built yet (DESIGN §6 C01): frame contracts on Packet.write/_write_buffer/read_packet',
    'C02': 'check not built yet (DESIGN §6 C02)',
    'C04': 'check not built yet (DESIGN §6 C04)',
    'C05': 'check not built yet (DESIGN §6 C05)',
    'C06': 'check not built yet (DESIGN §6 C06)',
    'C07': 'check not built yet (DESIGN §6 C07)',
    'C08': 'check not built yet (DESIGN §6 C08)',
    'C09': 'check not built yet (DESIGN §6 C09)',
    'C10': 'check not built yet (DESIGN §6 C10)',
    'C11': 'check not built yet (DESIGN §6 C11)',
    'C12': 'check not built yet (DESIGN §6 C12)',
    'C13': 'check not built yet (DESIGN §6 C13)',
    'C14': 'check not built yet (DESIGN §6 C14)',
    'C15': 'check not built yet (DESIGN §6 C15)',
    'C16': 'check not built yet (DESIGN §6 C16)',
    'C17': 'check not built yet (DESIGN §6 C17)',
    'C18': 'check not built yet (DESIGN §6 C18)',
    'C19': 'check not built yet (DESIGN §6 C19)',
    'C20': 'check not built yet (DESIGN §6 C20)',
}


# Units added after the seeded rounds 6 and 7 (appended to the texts above)
EXTRA = {
    'C01': 'The byte-level VarInt contracts (length prefixes) and the generic field-list writer are discharged under this property too.',
    'C02': 'PacketBuffer - the sink and source every encoding is observed through - is proved against its abstract view (content, cursor) '
           'from any reachable state: send appends, reset empties wherever the cursor is, get_writable returns an immutable snapshot.',
    'C03': 'PacketBuffer (the sink the produced bytes are observed through) is under the same contract as in C02.',
    'C04': 'The version-order predicates that choose the layout are discharged under this property too (strict total order over all known versions).',
    'C05': 'Dependencies discharged under this property as well: the byte-level contracts of every field type incl. VarLong and arrays of any '
           'length, PacketBuffer, Position / ChunkSectionPos / Record, the version order, flag names used by field_string.',
    'C06': 'The version-order contract the id ladders are evaluated with is discharged under this property too.',
    'C07': 'The byte-level contracts of the field types the core packets use (C02/C03 units) are discharged under this property too; bounded '
           'byte-level comparison with VarInt values and string / array lengths on both sides of the 1/2/3-byte boundaries.',
    'C09': 'Also under this property: the wire id of the login start for every supported version (specification table), the connection '
           'lifecycle and connect model, the write dispatch, String / TrailingByteArray decoding.',
    'C10': 'Also: _connect starts every login from plain framing whatever an earlier login on the same object negotiated; dependencies '
           '(verification hash, frame writer, String / TrailingByteArray / VarInt decoding, generic field writer) discharged here too.',
    'C11': 'Also: a position-and-look packet laid out per the specification (teleport id from 107, dismount flag from 755) is decoded and '
           'consumed exactly, for every supported version; every packet object is true (the read loop takes a false value for "nothing read"); '
           'dependencies (write dispatch, lifecycle, connect model, handshake shape, version order) discharged here too.',
    'C12': 'Also: the outgoing queue _connect creates is an unbounded FIFO; dependencies (write dispatch, generic field writer, VarInt.send) '
           'discharged here too.',
    'C13': 'Also: class invariant over every packet class of every supported version - truth is identity (no __bool__ / __len__), because '
           'the networking thread takes a false value for "nothing read".',
    'C14': 'Also: every exception class the library defines is an Exception (the contracts quantify over Exception); the real thread wrapper is run '
           'with one instance of each; dependencies (lifecycle, connect model, handshake shape, write dispatch and lock) discharged here too.',
    'C15': 'Also: the default version the fallback uses (Connection.__init__: latest allowed version in publication order); dependencies '
           '(connect shape, lifecycle, connect model, PacketBuffer, write dispatch) discharged here too.',
    'C16': 'Also: NetworkingThread.run hand-over (installs itself and clears the successor slot whether or not the predecessor is still alive), '
           'a second close() of the cipher wrappers does not raise (cipher contexts modelled: finalize twice raises), _connect resets framing and '
           'creates an unbounded queue; dependencies (connect shape, write dispatch and lock) discharged here too.',
    'C17': 'Also: the server id that is hashed is exactly what String.read decodes (strict UTF-8, nothing stripped): the String unit of C02 is '
           'discharged under this property too.',
    'C18': 'Also: the networking thread takes the stream from the connection at every read (the decrypting wrapper is installed mid-batch); '
           'dependencies (verification hash, frame writer, generic field writer, VarInt.send) discharged here too.',
    'C19': 'Token states include empty-but-present profile id / name (authenticated; join must post).',
    'C20': 'Also: a map created for an unknown id shares no mutable state with any other map; Packet(**values) / set_values store every given '
           'value incl. None; bounded in-order replay of histories over a pool of map ids.',
}
for _pid, _t in EXTRA.items():
    CLAIMED[_pid]['text'] = CLAIMED[_pid]['text'].rstrip() + ' ' + _t
CLOSURE = (' Every library function these units use through its contract is discharged from its real body by a unit of THIS check '
           '(tools/closure_audit.py; externals such as pynbt, BytesIO, struct, zlib, cryptography, requests are assumptions).')
FRAMES = (' Every unit also carries frame obligations (kind "frame": the functions under contract must not change module- / class-level '
          'containers, class attribute names, default-argument objects or a context they were given; failing WITHOUT a replayed '
          'failing input = undecided, never a violation) and explores its environment beyond the happy path where the property '
          'speaks about it (externals raising a base-class OSError at each call, a handler that reconnects, a listener that '
          're-enters or changes shared state - directed interference at read points, not an exploration of interleavings).')
EXTRA2 = {
    'C01': 'Claimed in addition (rounds 8-13 of seeded changes): the whole lock discipline (call-site scan + forced write + flush of '
           'disconnect() + write batch of _run), the connect model (_connect starts plain from any earlier state), the framing switch '
           'with the mode changing while early outgoing listeners run, the id of a delivered packet following its context, a failing / '
           'interrupted first send under the cipher wrapper.',
    'C02': 'Also: instance-independence histories of parametrised types, and C02.optimised-interpreter (no truncation guard is an '
           '`assert`; every strict prefix decoded in a `python -O` child process - bounded).',
    'C04': 'Also claimed: byte-level units of the carrier types UnsignedLong / UnsignedByte (a short read raises), write_packet stamping '
           'the connection context on the packet, one context taken through version histories (bounded).',
    'C05': 'Also: JoinGame mode views (all setter orders x every supported version), map offsets over the full signed byte (D12), '
           'write frame / read frame / write_packet units claimed as dependencies.',
    'C06': 'Also: a committed baseline of the 82 collisions on known-but-unsupported versions (reported only, as the property '
           'prescribes); a NEW collision on such a version fails id.injective-once-supported (the supported set is extensible at run time).',
    'C08': 'Also: C08.tables.frame - closed-world scan: only initglobals (and private helpers only it calls) writes the derived tables.',
    'C09': 'Also: the constructor follows a run-time extension of the tables; every exception other than EOF stays an error in the status fallback (family of representatives).',
    'C12': 'Also: a failed write is not re-queued, a re-entrant flush (outgoing listener calling disconnect()) never gets the packet being written, flush under no / one / two networking threads and with shutdown() raising.',
    'C13': 'Also: registration is ONE atomic list operation (interference injected at the read points of the shared list), duplicate registrations, dispatch histories.',
    'C14': 'Also: a final handler that reconnects through the real _connect; handler registration under interference; thread started already interrupted.',
    'C16': 'Also: shutdown must include the read direction (blocked reader), base-class OSError from send, hand-over from an interrupted successor.',
    'C17': 'Also: the hash on EVERY join attempt when the session service answers with an error; bytes-like (bytearray) secret / key.',
    'C18': 'Also: encrypt_token_and_secret called by position and by its documented parameter names; first-send fault under the cipher wrapper.',
    'C19': 'Also: two tokens in one process (no shared default Profile).',
    'C20': 'Also: partially initialised records (eq implies hash), failed apply leaves the tracker unchanged, user subclass of a library record.',
}
for _pid, _t in EXTRA2.items():
    CLAIMED[_pid]['text'] = CLAIMED[_pid]['text'].rstrip() + ' ' + _t
for _pid in CLAIMED:
    CLAIMED[_pid]['note'] = CLAIMED[_pid]['note'].rstrip() + CLOSURE + FRAMES


def main():
    checks = []
    for pid in sorted(CLAIMED):
        c = CLAIMED[pid]
        checks.append(dict(
            property_id=pid,
            quick_cmd='./check %s --tier quick' % pid,
            thorough_cmd='./check %s --tier thorough' % pid,
            evidence_file='/verif/evidence/%s.json' % pid,
            replay_cmd_template='./check %s --replay {path}' % pid,
            engine='pyvc',
            level_claimed=dict(category='proof', text=c['text'], design_ref=c['design']),
            level_note=c['note'],
            technique=c.get('technique', TECH),
        ))
    na = [dict(property_id=p, reason=r) for p, r in sorted(PLANNED.items()) if p not in CLAIMED]
    m = dict(
        version=1,
        setup_cmd='./setup.sh',
        hooks=dict(guard='AMMARASKAR_PYCRAFT_VERIF',
                   enable='none needed: contracts are sidecars under /verif/contracts, ghost state lives in PyVC; '
                          'the variable is exported by ./check for uniformity',
                   baseline_off_cmd='cd /repo && /venv/bin/python -m pytest -ra -q -p no:cacheprovider --timeout=900 '
                                    '--continue-on-collection-errors',
                   source_commits=[], add_only=True),
        engines=[dict(name='pyvc', path='/verif/pyvc', serves_properties=sorted(CLAIMED),
                      kind_free_text='verification-condition generator: symbolic execution of the real ASTs against '
                                     'sidecar contracts, z3 (cvc5 on unknowns / as cross-check in the thorough tier)')],
        checks=checks,
        not_applicable=na,
        notes='See DESIGN.md. fix: commits in /repo are recorded in known_findings.json.',
    )
    with open(os.path.join(ROOT, 'MANIFEST.json'), 'w') as f:
        json.dump(m, f, indent=1)
    try:
        import jsonschema
        with open('/root/.vp/MANIFEST.schema.json') as f:
            jsonschema.validate(m, json.load(f))
        print('MANIFEST.json valid; claimed:', ' '.join(sorted(CLAIMED)))
    except ImportError:
        print('MANIFEST.json written (jsonschema not available for validation)')


if __name__ == '__main__':
    main()
