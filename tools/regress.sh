#!/usr/bin/env bash
# Full regression of the machinery: every check on the unchanged tree, every stored property-breaking change (exit 1
# expected), every stored behaviour-preserving edit (exit 0 expected).  Takes a couple of hours.
HERE="$(cd "$(dirname "${BASH_SOURCE[0]}")/.." && pwd)"
cd "$HERE"
echo "== unchanged tree, quick";    tools/all.sh quick    | grep -E "exit=|VIOLATION|UNDECIDED|CHECKER-ERROR"
echo "== unchanged tree, thorough"; tools/all.sh thorough | grep -E "exit=|VIOLATION|UNDECIDED|CHECKER-ERROR"
echo "== seeded";   tools/seeded_selftest.sh   | grep --line-buffered -v "check-exit=1 "
echo "== harmless"; tools/harmless_selftest.sh | grep --line-buffered -v "check-exit=0$"
echo "== done"
