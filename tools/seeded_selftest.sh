#!/usr/bin/env bash
# Runs every stored seeded change against its property's check on a scratch copy; prints one line per seed.
HERE="$(cd "$(dirname "${BASH_SOURCE[0]}")/.." && pwd)"
cd "$HERE"
FAIL=0
for d in seeded/*/; do
  n="$(basename "$d")"
  pid="$(python3 -c "import json;print(json.load(open('$d/meta.json'))['property'])")"
  T="$(mktemp -d /tmp/verif-seed.XXXXXX)"
  rsync -a --exclude .git /repo/ "$T/repo/"
  (cd "$T/repo" && patch -s -p1 < "$HERE/$d/patch.diff") || { echo "$n: patch no longer applies"; rm -rf "$T"; continue; }
  VERIF_REPO="$T/repo" VERIF_EVIDENCE_DIR="$T/evidence" VERIF_REPLAY_DIR="$T/replays" ./check "$pid" > "$T/out" 2>&1; rc=$?
  echo "$n property=$pid check-exit=$rc $(grep -c '^VIOLATION' "$T/out") violation lines"
  [ "$rc" = 1 ] || FAIL=1
  rm -rf "$T"
done
exit $FAIL
