#!/usr/bin/env bash
# Runs every stored seeded change against its property's check on a scratch copy; prints one line per seed; the expected
# exit code is the one recorded in meta.json (1, except for the documented not-detected seed C05-r13).
# tools/seeded_selftest.sh [-j N]   (N seeds at a time, default 3)
HERE="$(cd "$(dirname "${BASH_SOURCE[0]}")/.." && pwd)"
cd "$HERE"
J=3; [ "${1:-}" = "-j" ] && J="$2"
one() {
  d="$1"; n="$(basename "$d")"
  pid="$(python3 -c "import json;print(json.load(open('$d/meta.json'))['property'])")"
  want="$(python3 -c "import json;print(json.load(open('$d/meta.json')).get('check_exit', 1))")"
  T="$(mktemp -d /tmp/verif-seed.XXXXXX)"
  rsync -a --exclude .git /repo/ "$T/repo/"
  (cd "$T/repo" && patch -s -p1 < "$HERE/$d/patch.diff") || { echo "$n: patch no longer applies"; rm -rf "$T"; return; }
  VERIF_REPO="$T/repo" VERIF_EVIDENCE_DIR="$T/evidence" VERIF_REPLAY_DIR="$T/replays" ./check "$pid" > "$T/out" 2>&1; rc=$?
  if [ "$rc" = "$want" ]; then tag="as-recorded"; else tag="DIFFERS-FROM-RECORD(want $want)"; fi
  echo "$n property=$pid check-exit=$rc $(grep -c '^VIOLATION' "$T/out") violation lines $tag"
  rm -rf "$T"
}
export -f one; export HERE
OUT="$(ls -d seeded/*/ | xargs -P "$J" -I{} bash -c 'one {}')"
echo "$OUT" | sort
echo "$OUT" | grep -q "DIFFERS-FROM-RECORD" && exit 1
exit 0
