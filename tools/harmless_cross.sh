#!/usr/bin/env bash
# For every stored behaviour-preserving edit: run the checks of ALL properties anchored in a file the edit touches
# (not only the property it was written for). Every run must exit 0.
HERE="$(cd "$(dirname "${BASH_SOURCE[0]}")/.." && pwd)"
cd "$HERE"
FAIL=0
for d in harmless/*/; do
  n="$(basename "$d")"
  PROPS="$(python3 - "$d/patch.diff" <<'PY'
import json, re, sys
files = set(re.findall(r'^\+\+\+ b/(\S+)', open(sys.argv[1]).read(), re.M))
out = []
for l in open('properties.jsonl'):
    p = json.loads(l)
    if files & set(p['anchors'].get('files', [])):
        out.append(p['id'])
print(' '.join(out))
PY
)"
  T="$(mktemp -d /tmp/verif-harm.XXXXXX)"
  rsync -a --exclude .git /repo/ "$T/repo/"
  (cd "$T/repo" && patch -s -p1 < "$HERE/$d/patch.diff") || { echo "$n: patch no longer applies"; rm -rf "$T"; continue; }
  for pid in $PROPS; do
    VERIF_REPO="$T/repo" VERIF_EVIDENCE_DIR="$T/evidence" VERIF_REPLAY_DIR="$T/replays" ./check "$pid" > "$T/out" 2>&1; rc=$?
    [ "$rc" = 0 ] || { FAIL=1; echo "$n x $pid: exit=$rc"; grep -E '^VIOLATION|^UNDECIDED|^CHECKER-ERROR' "$T/out" | sed 's/replay=[^ ]*//' | cut -c1-240 | head -4; }
  done
  echo "$n: checked against $PROPS"
  rm -rf "$T"
done
exit $FAIL
