"""AST interpreter of PyVC: executes the *real* source of pyCraft functions over
symbolic values.

Every function whose defining module lies in the repository scope
(`minecraft.*`) is executed by walking the AST obtained from the module's
source file as it stands in the working tree (never a copy); everything else
is either a registered model (an assumed or proved contract, see
Interp.overrides), a modelled builtin (builtins_model.py) or a native call on
concrete arguments.

What extraction drops: docstrings, comments/pragmas, type annotations.
Deviation from CPython, stated: generator functions and generator expressions
are evaluated eagerly into a list (sound when producing the elements has no
side effect that the consumer can observe in between, which holds for the
generators in scope: `fields`, `_all_slots`, join/all arguments).
"""
import ast
import builtins
import hashlib
import inspect
import operator
import re
import types

import z3

from .values import (SBool, SInt, SReal, SStr, SBytes, SOpaque, Unsupported, is_symbolic, mk_bool,
                     term_bool, Not, And, Or)
from .engine import PathEnd, EngineError

REPO_SCOPE = ('minecraft',)


class PyRaise(Exception):
    """An exception raised by the interpreted program."""

    def __init__(self, exc):
        Exception.__init__(self, repr(exc))
        self.exc = exc


class _Return(Exception):
    def __init__(self, value):
        self.value = value


class _Break(Exception):
    pass


class _Continue(Exception):
    pass


INTERNAL = (PyRaise, _Return, _Break, _Continue, PathEnd, Unsupported, EngineError, RecursionError)


def in_repo_scope(modname):
    return modname is not None and (modname == 'minecraft' or modname.startswith('minecraft.'))


# --------------------------------------------------------------------------
# source index: code object -> AST node, from the working tree
# --------------------------------------------------------------------------
class SourceIndex(object):
    def __init__(self):
        self.files = {}

    def load(self, filename):
        if filename not in self.files:
            with open(filename, 'rb') as f:
                raw = f.read()
            tree = ast.parse(raw.decode('utf-8'), filename)
            by_line = {}
            for n in ast.walk(tree):
                if isinstance(n, (ast.FunctionDef, ast.Lambda)):
                    lines = {n.lineno}
                    if isinstance(n, ast.FunctionDef) and n.decorator_list:
                        lines.add(min(d.lineno for d in n.decorator_list))
                    for ln in lines:
                        by_line.setdefault(ln, []).append(n)
            # every loop knows its enclosing function (innermost wins: ast.walk is breadth-first)
            for n in ast.walk(tree):
                if isinstance(n, (ast.FunctionDef, ast.Lambda)):
                    for m in ast.walk(n):
                        if isinstance(m, (ast.For, ast.While)):
                            m._pyvc_func = n
            self.files[filename] = (tree, hashlib.sha256(raw).hexdigest(), by_line)
        return self.files[filename]

    def node_for(self, func):
        code = func.__code__
        tree, _sha, by_line = self.load(code.co_filename)
        cands = by_line.get(code.co_firstlineno, [])
        if code.co_name == '<lambda>':
            cands = [n for n in cands if isinstance(n, ast.Lambda)]
        else:
            cands = [n for n in cands if isinstance(n, ast.FunctionDef) and n.name == code.co_name]
        if not cands:
            raise Unsupported('no source for %s (%s:%d)' % (code.co_name, code.co_filename, code.co_firstlineno))
        if len(cands) > 1:
            best = []
            for n in cands:
                try:
                    c = compile(ast.Expression(body=n), code.co_filename, 'eval')
                    inner = [k for k in c.co_consts if isinstance(k, types.CodeType)]
                    if inner and inner[0].co_code == code.co_code and inner[0].co_names == code.co_names \
                            and inner[0].co_varnames == code.co_varnames:
                        best.append(n)
                except Exception:
                    pass
            if best:
                cands = best
        return cands[0]

    def hashes(self):
        return {fn: v[1] for fn, v in self.files.items()}


def _has_yield(node):
    todo = list(node.body) if isinstance(node.body, list) else [node.body]
    while todo:
        n = todo.pop()
        if isinstance(n, (ast.Yield, ast.YieldFrom)):
            return True
        if isinstance(n, (ast.FunctionDef, ast.Lambda, ast.ClassDef)):
            continue
        todo.extend(ast.iter_child_nodes(n))
    return False


class Frame(object):
    __slots__ = ('locals', 'parent', 'globals', 'qualname', 'cells', 'yields', 'loops', 'global_names', 'first_param')

    def __init__(self, globs, parent=None, qualname='?', cells=None):
        self.locals = {}
        self.parent = parent
        self.globals = globs
        self.qualname = qualname
        self.cells = cells or {}
        self.yields = None
        self.loops = None
        self.global_names = set()
        self.first_param = None


class InterpFunction(object):
    """A function object created by interpreting a def/lambda inside interpreted code."""

    def __init__(self, interp, node, frame, defaults, kw_defaults, name):
        self.interp = interp
        self.node = node
        self.frame = frame
        self.defaults = defaults
        self.kw_defaults = kw_defaults
        self.__name__ = name
        self.__qualname__ = frame.qualname + '.<locals>.' + name

    def __call__(self, *args, **kwargs):
        return self.interp.call_node(self.node, Frame(self.frame.globals, self.frame, self.__qualname__),
                                     args, kwargs, self.defaults, self.kw_defaults)

    def __get__(self, inst, owner=None):
        if inst is None:
            return self
        return types.MethodType(self, inst)


class Interp(object):
    DEFAULT_LOOP_CAP = 120

    def __init__(self, engine):
        self.E = engine
        self.index = SourceIndex()
        self.overrides = {}          # id(function object) -> (function object, model)
        self.global_overrides = {}   # (module name, variable) -> value
        self.unroll = {}             # (qualname, loop ordinal) -> max iterations (unwinding assertion)
        self.loop_specs = {}         # (qualname, loop ordinal) -> LoopSpec
        self.constructed = set()     # ids of repository objects built through their own __new__/__init__
        self._constructed_keep = []
        self.functions_seen = {}     # qualname -> 'interpreted' | 'contract' | 'assumed'
        self.depth = 0
        from . import builtins_model
        self.builtin_models = builtins_model.table(self)

    # ---------------------------------------------------------------- registry
    def override(self, func, model, kind='contract'):
        raw = unwrap_function(func)
        self.overrides[id(raw)] = (raw, model, kind)

    def find_override(self, f):
        ent = self.overrides.get(id(f))
        if ent is not None and ent[0] is f:
            return ent
        return None

    # ---------------------------------------------------------------- calling
    def call(self, f, *args, **kwargs):
        return self.call_value(f, list(args), kwargs)

    def call_value(self, f, args, kwargs):
        if isinstance(f, types.MethodType):
            return self.call_value(f.__func__, [f.__self__] + list(args), kwargs)
        ent = self.find_override(f)
        if ent is not None:
            _raw, model, kind = ent
            self.functions_seen[qualname_of(f)] = kind
            return self.native(model, [self] + list(args), kwargs, model_call=True)
        if isinstance(f, InterpFunction):
            return f(*args, **kwargs)
        w = getattr(f, '__wrapped__', None)
        if w is not None and hasattr(f, 'cache_info') and isinstance(w, types.FunctionType) and in_repo_scope(w.__module__):
            # functools.lru_cache around a repository function: assumed semantics - the result of the wrapped function for
            # these arguments (memoisation of a function of hashable arguments; whether the function IS pure is exactly what
            # executing its body for arbitrary arguments, together with the frame obligations, checks)
            self.functions_seen.setdefault('functools.lru_cache', 'assumed external: returns the wrapped function\'s result')
            return self.call_function(w, args, kwargs)
        if isinstance(f, types.FunctionType):
            if in_repo_scope(f.__module__):
                return self.call_function(f, args, kwargs)
            return self.native_guarded(f, args, kwargs)
        if isinstance(f, type):
            return self.instantiate(f, args, kwargs)
        m = self.builtin_models.get(_bkey(f))
        if m is not None:
            return self.native(m, args, kwargs, model_call=True)
        if isinstance(f, (classmethod, staticmethod)):
            return self.call_value(f.__func__, args, kwargs)
        s = getattr(f, '__self__', None)
        nm = getattr(f, '__name__', '')
        sym_args = _deep_symbolic(list(args)) or _deep_symbolic(kwargs)
        if isinstance(s, (bytes, bytearray)) and nm == 'join' and args and sym_args:
            # sep.join(items) over byte strings with symbolic parts: plain concatenation
            out = SBytes()
            for k, item in enumerate(self.iterate(args[0])):
                if k:
                    out = out + SBytes.of(bytes(s))
                out = out + SBytes.of(item.data if type(item).__name__ == 'SByteArray' else item)
            return out
        if isinstance(s, dict) and nm == 'get' and args and is_symbolic(args[0]):
            # d.get(symbolic key[, default]): the stored value of the key it equals, else the default
            try:
                return self.sym_dict_lookup(s, args[0])
            except PyRaise as e:
                if isinstance(e.exc, KeyError):
                    return args[1] if len(args) > 1 else kwargs.get('default')
                raise
        import bisect as _bisect
        if f in (_bisect.bisect_left, _bisect.bisect_right, _bisect.bisect) and len(args) == 2 and not kwargs and \
                isinstance(args[0], (list, tuple)) and isinstance(args[1], SInt) and \
                all(isinstance(x, int) and not isinstance(x, bool) for x in args[0]) and list(args[0]) == sorted(args[0]):
            # bisect over a concrete sorted list of ints with a symbolic key: the number of elements < key (left) / <= key
            from .values import ite
            acc = 0
            for x in args[0]:
                acc = acc + ite((x < args[1]) if f is _bisect.bisect_left else (x <= args[1]), 1, 0)
            return acc
        import functools as _functools
        if f is _functools.reduce and args and not kwargs:
            # functools.reduce(fn, iterable[, initial]) by its definition (a left fold); fn may be repository code
            items = list(self.iterate(args[1]))
            if len(args) > 2:
                acc = args[2]
            elif items:
                acc, items = items[0], items[1:]
            else:
                raise PyRaise(TypeError('reduce() of empty iterable with no initial value'))
            for x in items:
                acc = self.call_value(args[0], [acc, x], {})
            return acc
        import struct as _struct
        if isinstance(s, _struct.Struct) and nm in ('pack', 'unpack') and sym_args:
            from . import builtins_model as bm
            if nm == 'pack':
                return self.native(bm.struct_pack, [self, s.format, tuple(args)], {}, model_call=True)
            return self.native(bm.struct_unpack, [self, s.format, args[0]], {}, model_call=True)
        if isinstance(s, re.Pattern) and nm in ('match', 'search', 'fullmatch'):
            ent = self.find_override(getattr(re, nm))
            if ent is not None:             # a compiled pattern goes through the same regex model as re.<fn>(pattern, ...)
                return self.native(ent[1], [self, s.pattern] + list(args), kwargs, model_call=True)
        if s is int and getattr(f, '__name__', '') == 'from_bytes':
            from . import builtins_model as bm
            return self.native(bm.int_from_bytes, [self] + list(args), kwargs, model_call=True)
        if isinstance(s, str) and (_deep_symbolic(list(args)) or _deep_symbolic(kwargs)):
            from . import builtins_model as bm
            name = getattr(f, '__name__', '')
            if name == 'format':
                return self.native(bm.fmt_format, [self, s, args, kwargs], {}, model_call=True)
            if name == 'join':
                return self.native(bm.str_join, [self, s, args[0]], {}, model_call=True)
            raise Unsupported('str.%s with symbolic arguments' % name)
        if isinstance(s, str) and getattr(f, '__name__', '') == 'join' and args:
            from . import builtins_model as bm
            return self.native(bm.str_join, [self, s, args[0]], {}, model_call=True)
        return self.native_guarded(f, args, kwargs)

    def native(self, f, args, kwargs, model_call=False):
        if not model_call:
            mod = getattr(f, '__module__', None) or getattr(getattr(f, '__self__', None), '__module__', None) or ''
            if not isinstance(mod, str):
                mod = ''
            if mod.startswith(('pyvc', 'contracts', 'spec')):
                model_call = True      # our own value/model classes raise program exceptions deliberately
        try:
            return f(*args, **kwargs)
        except INTERNAL:
            raise
        except (KeyboardInterrupt, SystemExit):
            raise
        except BaseException as e:  # the program's own exception, raised by native code
            if _model_gap(e) or (not model_call and (_mentions_symbolic(e) or any(is_symbolic(a) for a in args))):
                raise Unsupported('native call %s failed on symbolic arguments: %r' % (qualname_of(f), e))
            raise PyRaise(e)

    def native_guarded(self, f, args, kwargs):
        """Native call of something that is not repository code and has no model."""
        sym = any(_deep_symbolic(a) for a in args) or any(_deep_symbolic(v) for v in kwargs.values())
        if sym and _is_log_call(f, args):
            # assumed: emitting a log record has no effect on the library's state (arguments are already evaluated)
            self.functions_seen.setdefault('logging.Logger.%s [no effect on library state]' % f.__name__, 'assumed')
            return None
        if sym and not _native_safe(f):
            raise Unsupported('no model for %s with symbolic arguments' % qualname_of(f))
        return self.native(f, args, kwargs)

    def instantiate(self, cls, args, kwargs):
        if not in_repo_scope(getattr(cls, '__module__', None)):
            m = self.builtin_models.get(_bkey(cls))
            if m is not None:
                return self.native(m, args, kwargs, model_call=True)
            sym = any(_deep_symbolic(a) for a in args) or any(_deep_symbolic(v) for v in kwargs.values())
            if sym and not (issubclass(cls, (BaseException, tuple, list, dict)) or cls in (object,)):
                raise Unsupported('no model for constructor %s with symbolic arguments' % qualname_of(cls))
            return self.native(cls, args, kwargs)
        # repository class: __new__ natively (object / namedtuple), __init__ interpreted
        new = _mro_lookup(cls, '__new__')
        if new is object.__new__:
            obj = object.__new__(cls)
        else:
            newf = new.__func__ if isinstance(new, staticmethod) else new
            if isinstance(newf, types.FunctionType) and in_repo_scope(newf.__module__):
                obj = self.call_function(newf, [cls] + list(args), kwargs)
            else:
                obj = self.native(newf, [cls] + list(args), kwargs)
        if isinstance(obj, cls):
            self.constructed.add(id(obj))
            self._constructed_keep.append(obj)          # keep alive: ids must stay unique
            init = _mro_lookup(cls, '__init__')
            if isinstance(init, types.FunctionType):
                if in_repo_scope(init.__module__):
                    self.call_function(init, [obj] + list(args), kwargs)
                else:
                    self.native_guarded(init, [obj] + list(args), kwargs)
            elif init is not object.__init__ and not isinstance(obj, tuple):
                if isinstance(obj, BaseException):
                    self.native(init, [obj] + list(args), kwargs)      # merely stores its arguments
                else:
                    self.native_guarded(init, [obj] + list(args), kwargs)
        return obj

    def call_function(self, func, args, kwargs):
        node = self.index.node_for(func)
        qn = qualname_of(func)
        self.functions_seen.setdefault(qn, 'interpreted')
        cells = {}
        if func.__closure__:
            for name, cell in zip(func.__code__.co_freevars, func.__closure__):
                cells[name] = cell
        frame = Frame(func.__globals__, None, qn, cells)
        return self.call_node(node, frame, args, kwargs, func.__defaults__ or (), func.__kwdefaults__ or {})

    def call_node(self, node, frame, args, kwargs, defaults, kw_defaults):
        self.depth += 1
        if self.depth > 80:
            self.depth -= 1
            raise Unsupported('interpreter recursion depth')
        try:
            self.bind(node.args, frame, list(args), dict(kwargs), defaults, kw_defaults)
            pos = list(getattr(node.args, 'posonlyargs', [])) + list(node.args.args)
            frame.first_param = pos[0].arg if pos else None
            if isinstance(node, ast.Lambda):
                return self.eval(node.body, frame)
            if _has_yield(node):
                frame.yields = []
                try:
                    self.exec_block(node.body, frame)
                except _Return:
                    pass
                return iter(frame.yields)
            try:
                self.exec_block(node.body, frame)
            except _Return as r:
                return r.value
            return None
        finally:
            self.depth -= 1

    def bind(self, a, frame, args, kwargs, defaults, kw_defaults):
        params = [p.arg for p in a.posonlyargs] + [p.arg for p in a.args]
        npos = len(params)
        loc = frame.locals
        for i, name in enumerate(params):
            if i < len(args):
                loc[name] = args[i]
        extra = args[npos:]
        if a.vararg is not None:
            loc[a.vararg.arg] = tuple(extra)
        elif extra:
            raise PyRaise(TypeError('%s() takes %d positional arguments but %d were given'
                                    % (frame.qualname, npos, len(args))))
        kwonly = [p.arg for p in a.kwonlyargs]
        for k in list(kwargs):
            if (k in params and k not in [p.arg for p in a.posonlyargs]) or k in kwonly:
                if k in loc:
                    raise PyRaise(TypeError('%s() got multiple values for argument %r' % (frame.qualname, k)))
                loc[k] = kwargs.pop(k)
        if a.kwarg is not None:
            loc[a.kwarg.arg] = kwargs
        elif kwargs:
            raise PyRaise(TypeError('%s() got an unexpected keyword argument %r'
                                    % (frame.qualname, next(iter(kwargs)))))
        nd = len(defaults)
        for i, name in enumerate(params):
            if name not in loc:
                j = i - (npos - nd)
                if j >= 0:
                    loc[name] = defaults[j]
                else:
                    raise PyRaise(TypeError('%s() missing required positional argument: %r'
                                            % (frame.qualname, name)))
        for name in kwonly:
            if name not in loc:
                if name in kw_defaults:
                    loc[name] = kw_defaults[name]
                else:
                    raise PyRaise(TypeError('%s() missing keyword-only argument %r' % (frame.qualname, name)))

    # ---------------------------------------------------------------- names
    def load_name(self, name, frame):
        f = frame
        while f is not None:
            if name in f.locals and name not in f.global_names:
                return f.locals[name]
            if name in f.cells:
                try:
                    return f.cells[name].cell_contents
                except ValueError:
                    raise PyRaise(NameError('free variable %r referenced before assignment' % name))
            f = f.parent
        modname = frame.globals.get('__name__')
        key = (modname, name)
        if key in self.global_overrides:
            return self.global_overrides[key]
        if name in frame.globals:
            return frame.globals[name]
        if hasattr(builtins, name):
            return getattr(builtins, name)
        raise PyRaise(NameError('name %r is not defined' % name))

    def store_name(self, name, value, frame):
        if name in frame.global_names:
            modname = frame.globals.get('__name__')
            self.global_overrides[(modname, name)] = value
            return
        frame.locals[name] = value

    # ---------------------------------------------------------------- truth
    def truth(self, v):
        if isinstance(v, bool):
            return v
        if isinstance(v, SBool):
            return self.E.decide(v.t)
        if isinstance(v, (SInt, SReal)):
            return self.truth(v != 0)
        if isinstance(v, SStr):
            return bool(v)
        if isinstance(v, SBytes):
            n = v.length()
            return self.truth(n != 0) if not isinstance(n, int) else n != 0
        from .values import SByteArray
        if isinstance(v, SByteArray):
            return self.truth(v.data)
        if v is None or isinstance(v, (int, float, str, bytes, tuple, list, dict, set, frozenset)):
            return bool(v)
        # objects: __bool__ / __len__ protocol
        tp = type(v)
        b = _mro_lookup(tp, '__bool__')
        if b is not _MISSING and b is not None:
            if isinstance(b, types.FunctionType) and in_repo_scope(b.__module__):
                return self.truth(self.call_function(b, [v], {}))
            return self.truth(self.native(b, [v], {}))
        ln = _mro_lookup(tp, '__len__')
        if ln is not _MISSING and ln is not None:
            if isinstance(ln, types.FunctionType) and in_repo_scope(ln.__module__):
                return self.truth(self.call_function(ln, [v], {}) != 0)
            return self.truth(self.native(ln, [v], {}) != 0)
        return True

    # ---------------------------------------------------------------- attributes
    def is_repo_object(self, obj):
        tp = obj if isinstance(obj, type) else type(obj)
        return in_repo_scope(getattr(tp, '__module__', None))

    def getattr_(self, obj, name):
        if is_symbolic(obj) or not self.is_repo_object(obj) or isinstance(obj, types.ModuleType):
            if isinstance(obj, types.ModuleType):
                key = (obj.__name__, name)
                if key in self.global_overrides:
                    return self.global_overrides[key]
            return self.native(getattr, [obj, name], {})
        if isinstance(obj, type):
            if name.startswith('__') and name.endswith('__') and name in ('__dict__', '__mro__', '__name__', '__qualname__',
                                                                           '__module__', '__bases__', '__class__', '__doc__',
                                                                           '__subclasses__', '__slots__'):
                return self.native(getattr, [obj, name], {})
            attr = _mro_lookup(obj, name)
            if attr is _MISSING:
                meta_attr = _mro_lookup(type(obj), name)
                if meta_attr is _MISSING:
                    raise PyRaise(AttributeError("type object %r has no attribute %r" % (obj.__name__, name)))
                return self.native(getattr, [obj, name], {})
            return self.descr_get(attr, None, obj)
        tp = type(obj)
        attr = _mro_lookup(tp, name)
        if attr is not _MISSING and _is_data_descriptor(attr):
            return self.descr_get(attr, obj, tp)
        d = getattr(obj, '__dict__', None)
        if d is not None and name in d:
            return d[name]
        if attr is not _MISSING:
            return self.descr_get(attr, obj, tp)
        ga = _mro_lookup(tp, '__getattr__')
        if ga is not _MISSING:
            return self.call_value(ga, [obj, name], {})
        if d is not None and id(obj) not in self.constructed and name in _template_attrs(tp):
            # the object was put together by a verification harness (not by its own __init__) and the code asks for an
            # attribute that the class's real constructor creates but the harness did not provide: the harness does not
            # fit the code (a renamed or new attribute) - undecided, not a program error
            raise Unsupported('harness-built %s lacks attribute %r, which its constructor creates (new or renamed in the code?)'
                              % (tp.__name__, name))
        raise PyRaise(AttributeError("%r object has no attribute %r" % (tp.__name__, name)))

    def descr_get(self, attr, obj, tp):
        g = _mro_lookup(type(attr), '__get__')
        if g is _MISSING:
            return attr
        if isinstance(attr, property):
            if obj is None:
                return attr
            if attr.fget is None:
                raise PyRaise(AttributeError('unreadable attribute'))
            return self.call_value(attr.fget, [obj], {})
        if isinstance(attr, types.FunctionType):
            return attr if obj is None else types.MethodType(attr, obj)
        if isinstance(attr, InterpFunction):
            return attr if obj is None else types.MethodType(attr, obj)
        if isinstance(g, types.FunctionType) and in_repo_scope(g.__module__):
            return self.call_function(g, [attr, obj, tp], {})
        return self.native(g, [attr, obj, tp], {})

    def setattr_(self, obj, name, value):
        if is_symbolic(obj):
            raise PyRaise(AttributeError('cannot set attribute %r' % name))
        if not self.is_repo_object(obj) or isinstance(obj, type):
            if isinstance(obj, types.ModuleType):
                self.global_overrides[(obj.__name__, name)] = value
                return
            return self.native(setattr, [obj, name, value], {})
        tp = type(obj)
        attr = _mro_lookup(tp, name)
        if attr is not _MISSING:
            s = _mro_lookup(type(attr), '__set__')
            if s is not _MISSING:
                if isinstance(attr, property):
                    if attr.fset is None:
                        raise PyRaise(AttributeError("can't set attribute %r" % name))
                    self.call_value(attr.fset, [obj, value], {})
                    return
                if isinstance(s, types.FunctionType) and in_repo_scope(s.__module__):
                    self.call_function(s, [attr, obj, value], {})
                    return
                self.native(s, [attr, obj, value], {})
                return
        sa = _mro_lookup(tp, '__setattr__')
        if sa is not object.__setattr__ and isinstance(sa, types.FunctionType):
            self.call_value(sa, [obj, name, value], {})
            return
        self.native(object.__setattr__, [obj, name, value], {})

    def delattr_(self, obj, name):
        if not self.is_repo_object(obj) or isinstance(obj, type):
            return self.native(delattr, [obj, name], {})
        tp = type(obj)
        attr = _mro_lookup(tp, name)
        if attr is not _MISSING:
            s = _mro_lookup(type(attr), '__delete__')
            if s is not _MISSING:
                if isinstance(attr, property):
                    if attr.fdel is None:
                        raise PyRaise(AttributeError("can't delete attribute %r" % name))
                    self.call_value(attr.fdel, [obj], {})
                    return
                if isinstance(s, types.FunctionType) and in_repo_scope(s.__module__):
                    self.call_function(s, [attr, obj], {})
                    return
                self.native(s, [attr, obj], {})
                return
        self.native(object.__delattr__, [obj, name], {})

    def hasattr_(self, obj, name):
        try:
            self.getattr_(obj, name)
            return True
        except PyRaise as e:
            if isinstance(e.exc, AttributeError):
                return False
            raise

    # ---------------------------------------------------------------- statements
    def exec_block(self, stmts, frame):
        for s in stmts:
            self.exec_stmt(s, frame)

    def exec_stmt(self, s, frame):
        m = getattr(self, 'x_' + type(s).__name__, None)
        if m is None:
            raise Unsupported('statement %s' % type(s).__name__)
        return m(s, frame)

    def x_Expr(self, s, frame):
        if isinstance(s.value, ast.Constant):
            return  # docstring
        self.eval(s.value, frame)

    def x_Pass(self, s, frame):
        pass

    def x_Global(self, s, frame):
        frame.global_names.update(s.names)

    def x_Nonlocal(self, s, frame):
        raise Unsupported('nonlocal')

    def x_Import(self, s, frame):
        for a in s.names:
            mod = __import__(a.name)
            frame.locals[(a.asname or a.name).split('.')[0]] = mod

    def x_Assign(self, s, frame):
        v = self.eval(s.value, frame)
        for t in s.targets:
            self.assign(t, v, frame)

    def x_AnnAssign(self, s, frame):
        if s.value is not None:
            self.assign(s.target, self.eval(s.value, frame), frame)

    def x_AugAssign(self, s, frame):
        t = s.target
        if isinstance(t, ast.Name):
            cur = self.load_name(t.id, frame)
            self.store_name(t.id, self.binop(s.op, cur, self.eval(s.value, frame), inplace=True), frame)
        elif isinstance(t, ast.Attribute):
            obj = self.eval(t.value, frame)
            cur = self.getattr_(obj, t.attr)
            self.setattr_(obj, t.attr, self.binop(s.op, cur, self.eval(s.value, frame), inplace=True))
        elif isinstance(t, ast.Subscript):
            obj = self.eval(t.value, frame)
            idx = self.eval_index(t.slice, frame)
            cur = self.getitem(obj, idx)
            self.setitem(obj, idx, self.binop(s.op, cur, self.eval(s.value, frame), inplace=True))
        else:
            raise Unsupported('augmented assignment target')

    def assign(self, t, v, frame):
        if isinstance(t, ast.Name):
            self.store_name(t.id, v, frame)
        elif isinstance(t, ast.Attribute):
            self.setattr_(self.eval(t.value, frame), self.mangle(t.attr, frame), v)
        elif isinstance(t, ast.Subscript):
            self.setitem(self.eval(t.value, frame), self.eval_index(t.slice, frame), v)
        elif isinstance(t, (ast.Tuple, ast.List)):
            items = self.iterate(v)
            star = [i for i, e in enumerate(t.elts) if isinstance(e, ast.Starred)]
            if star:
                i = star[0]
                after = len(t.elts) - i - 1
                if len(items) < len(t.elts) - 1:
                    raise PyRaise(ValueError('not enough values to unpack'))
                for e, x in zip(t.elts[:i], items[:i]):
                    self.assign(e, x, frame)
                self.assign(t.elts[i].value, list(items[i:len(items) - after]), frame)
                for e, x in zip(t.elts[i + 1:], items[len(items) - after:]):
                    self.assign(e, x, frame)
                return
            if len(items) != len(t.elts):
                raise PyRaise(ValueError('%s values to unpack (expected %d, got %d)' % (
                    'too many' if len(items) > len(t.elts) else 'not enough', len(t.elts), len(items))))
            for e, x in zip(t.elts, items):
                self.assign(e, x, frame)
        else:
            raise Unsupported('assignment target %s' % type(t).__name__)

    def x_Delete(self, s, frame):
        for t in s.targets:
            if isinstance(t, ast.Name):
                del frame.locals[t.id]
            elif isinstance(t, ast.Attribute):
                self.delattr_(self.eval(t.value, frame), t.attr)
            elif isinstance(t, ast.Subscript):
                obj = self.eval(t.value, frame)
                idx = self.eval_index(t.slice, frame)
                self.native(operator.delitem, [obj, idx], {})
            else:
                raise Unsupported('del target')

    def x_Return(self, s, frame):
        raise _Return(None if s.value is None else self.eval(s.value, frame))

    def x_If(self, s, frame):
        if self.truth(self.eval(s.test, frame)):
            self.exec_block(s.body, frame)
        else:
            self.exec_block(s.orelse, frame)

    def _loop_key(self, node, frame):
        return (frame.qualname, getattr(node, 'lineno', 0))

    def loop_ordinal(self, node, frame):
        """Ordinal of a loop statement inside its function, in source order (1-based)."""
        if frame.loops is None:
            frame.loops = {}
        return frame.loops.setdefault(id(node), len(frame.loops) + 1)

    def x_While(self, s, frame):
        key = (frame.qualname, 'while@%d' % self._rel_line(s, frame))
        spec = self.loop_specs.get(key)
        if spec is not None:
            return spec.run(self, s, frame)
        limit = self.unroll.get(key)
        n = 0
        while True:
            if not self.truth(self.eval(s.test, frame)):
                self.exec_block(s.orelse, frame)
                return
            n += 1
            if limit is not None and n > limit:
                self.E.notes.append('unroll %s bound %d (unwinding assertion checked)' % (key, limit))
                self.E.check('unwind:%s' % (key[1],), False,
                             note='loop %s must not run more than %d iterations' % (key, limit), kind='unwind')
                raise PathEnd('unwound')
            if limit is None and n > self.DEFAULT_LOOP_CAP:
                raise Unsupported('loop %s exceeded the default cap without a declared bound or invariant' % (key,))
            try:
                self.exec_block(s.body, frame)
            except _Break:
                return
            except _Continue:
                continue

    def _rel_line(self, node, frame):
        return node.lineno

    def x_For(self, s, frame):
        key = (frame.qualname, 'for@%d' % self._rel_line(s, frame))
        spec = self.loop_specs.get(key)
        if spec is not None:
            return spec.run(self, s, frame)
        return self.for_plain(s, frame)

    def for_plain(self, s, frame):
        """Ordinary execution of a for statement (also used by role-based contracts that decline a loop)."""
        it = self.eval(s.iter, frame)
        items = self.iterate(it, lazy=True)
        for x in items:
            self.assign(s.target, x, frame)
            try:
                self.exec_block(s.body, frame)
            except _Break:
                return
            except _Continue:
                continue
        self.exec_block(s.orelse, frame)

    def iterate(self, v, lazy=False):
        """Elements of an iterable whose *shape* is concrete."""
        if is_symbolic(v):
            if isinstance(v, SBytes):
                from .values import byte_to_int
                ts = v.byte_terms()
                if ts is not None:
                    return [byte_to_int(t, self.E.int_mode) for t in ts]
            raise Unsupported('iteration over symbolic %s' % type(v).__name__)
        from .values import SByteArray
        if isinstance(v, SByteArray):
            return self.iterate(v.data)
        itf = _mro_lookup(type(v), '__iter__')
        if isinstance(itf, types.FunctionType) and in_repo_scope(itf.__module__):
            return list(self.iterate(self.call_function(itf, [v], {})))
        try:
            if lazy and isinstance(v, (list, tuple)):
                return v
            if isinstance(v, (list, tuple, dict, set, frozenset, str, bytes, bytearray, range)) or hasattr(v, '__len__'):
                return list(v)
            # an iterator of unknown (possibly infinite) length, e.g. itertools.count(): never materialise it
            cap = self.DEFAULT_LOOP_CAP
            if lazy:
                def capped(it=iter(v)):
                    for k, x in enumerate(it):
                        if k >= cap:
                            raise Unsupported('iteration over %s exceeds %d elements (no loop contract)' % (type(v).__name__, cap))
                        yield x
                return capped()
            import itertools as _it
            items = list(_it.islice(iter(v), cap + 1))
            if len(items) > cap:
                raise Unsupported('iteration over %s exceeds %d elements' % (type(v).__name__, cap))
            return items
        except INTERNAL:
            raise
        except Exception as e:
            if _model_gap(e):
                raise Unsupported('iteration: %r' % (e,))
            raise PyRaise(e)

    def x_Break(self, s, frame):
        raise _Break()

    def x_Continue(self, s, frame):
        raise _Continue()

    def x_Raise(self, s, frame):
        if s.exc is None:
            cur = frame.locals.get('$exc')
            f = frame
            while cur is None and f.parent is not None:
                f = f.parent
                cur = f.locals.get('$exc')
            if cur is None:
                raise PyRaise(RuntimeError('No active exception to reraise'))
            raise PyRaise(cur)
        e = self.eval(s.exc, frame)
        if isinstance(e, type):
            e = self.instantiate(e, [], {})
        if s.cause is not None:
            try:
                e.__cause__ = self.eval(s.cause, frame)
            except INTERNAL:
                raise
            except Exception:
                pass
        raise PyRaise(e)

    def x_Assert(self, s, frame):
        if not self.truth(self.eval(s.test, frame)):
            msg = self.eval(s.msg, frame) if s.msg is not None else None
            raise PyRaise(AssertionError(msg) if msg is not None else AssertionError())

    def x_Try(self, s, frame):
        try:
            try:
                self.exec_block(s.body, frame)
            except PyRaise as pr:
                exc = pr.exc
                for h in s.handlers:
                    if self.handler_matches(h, exc, frame):
                        if h.name:
                            frame.locals[h.name] = exc
                        saved = frame.locals.get('$exc')
                        frame.locals['$exc'] = exc
                        self.current_exc = exc
                        try:
                            self.exec_block(h.body, frame)
                        finally:
                            frame.locals['$exc'] = saved
                            if h.name:
                                frame.locals.pop(h.name, None)
                        break
                else:
                    raise
            else:
                self.exec_block(s.orelse, frame)
        finally:
            if s.finalbody:
                # an internal control-flow exception (return/break/path end) passing through
                # still has to run the finally block, except when the path is dead
                import sys
                et = sys.exc_info()[0]
                if et is None or not issubclass(et, (PathEnd, Unsupported, EngineError)):
                    self.exec_block(s.finalbody, frame)

    def handler_matches(self, h, exc, frame):
        if h.type is None:
            return True
        t = self.eval(h.type, frame)
        try:
            return isinstance(exc, t)
        except TypeError:
            raise Unsupported('except clause with a non-class')

    def x_With(self, s, frame):
        if len(s.items) != 1:
            raise Unsupported('with: several items')
        item = s.items[0]
        mgr = self.eval(item.context_expr, frame)
        enter = self.getattr_(mgr, '__enter__')
        exit_ = self.getattr_(mgr, '__exit__')
        v = self.call_value(enter, [], {})
        if item.optional_vars is not None:
            self.assign(item.optional_vars, v, frame)
        try:
            self.exec_block(s.body, frame)
        except PyRaise as pr:
            if not self.truth(self.call_value(exit_, [type(pr.exc), pr.exc, None], {})):
                raise
        except (_Return, _Break, _Continue):
            self.call_value(exit_, [None, None, None], {})
            raise
        else:
            self.call_value(exit_, [None, None, None], {})

    def x_FunctionDef(self, s, frame):
        f = self.make_function(s, s.args, frame, s.name)
        for d in reversed(s.decorator_list):
            f = self.call_value(self.eval(d, frame), [f], {})
        self.store_name(s.name, f, frame)

    def make_function(self, node, a, frame, name):
        defaults = tuple(self.eval(d, frame) for d in a.defaults)
        kw_defaults = {p.arg: self.eval(d, frame) for p, d in zip(a.kwonlyargs, a.kw_defaults) if d is not None}
        return InterpFunction(self, node, frame, defaults, kw_defaults, name)

    def x_ClassDef(self, s, frame):
        bases = tuple(self.eval(b, frame) for b in s.bases)
        body = Frame(frame.globals, frame, frame.qualname + '.' + s.name)
        self.exec_block(s.body, body)
        ns = dict(body.locals)
        ns.setdefault('__module__', frame.globals.get('__name__'))
        ns.setdefault('__qualname__', s.name)
        if any(is_symbolic(v) for v in ns.values()):
            raise Unsupported('class body with symbolic attribute values')
        meta = type(bases[0]) if bases else type
        cls = meta(s.name, bases, ns)
        for d in reversed(s.decorator_list):
            cls = self.call_value(self.eval(d, frame), [cls], {})
        self.store_name(s.name, cls, frame)

    # ---------------------------------------------------------------- expressions
    def eval(self, e, frame):
        m = getattr(self, 'e_' + type(e).__name__, None)
        if m is None:
            raise Unsupported('expression %s' % type(e).__name__)
        return m(e, frame)

    def e_Constant(self, e, frame):
        return e.value

    def e_Name(self, e, frame):
        return self.load_name(e.id, frame)

    def e_Attribute(self, e, frame):
        return self.getattr_(self.eval(e.value, frame), self.mangle(e.attr, frame))

    def mangle(self, name, frame):
        """Private-name mangling of __x inside a class body, as the compiler does."""
        if name.startswith('__') and not name.endswith('__'):
            parts = frame.qualname.split('.')
            # the innermost enclosing class: the component before the function name, skipping <locals>
            for i in range(len(parts) - 2, -1, -1):
                if parts[i] == '<locals>':
                    continue
                if parts[i][:1].isupper() or parts[i].startswith('_'):
                    cls = parts[i].lstrip('_')
                    if cls:
                        return '_%s%s' % (cls, name)
                break
        return name

    def e_Tuple(self, e, frame):
        return tuple(self.eval_seq(e.elts, frame))

    def e_List(self, e, frame):
        return self.eval_seq(e.elts, frame)

    def e_Set(self, e, frame):
        elems = self.eval_seq(e.elts, frame)
        if any(is_symbolic(x) for x in elems):
            from .values import SymSet
            return SymSet(elems)
        return set(elems)

    def eval_seq(self, elts, frame):
        out = []
        for x in elts:
            if isinstance(x, ast.Starred):
                out.extend(self.iterate(self.eval(x.value, frame)))
            else:
                out.append(self.eval(x, frame))
        return out

    def e_Dict(self, e, frame):
        d = {}
        for k, v in zip(e.keys, e.values):
            if k is None:
                d.update(self.eval(v, frame))
            else:
                kk = self.eval(k, frame)
                if is_symbolic(kk):
                    raise Unsupported('dict literal with a symbolic key')
                d[kk] = self.eval(v, frame)
        return d

    def e_IfExp(self, e, frame):
        if self.truth(self.eval(e.test, frame)):
            return self.eval(e.body, frame)
        return self.eval(e.orelse, frame)

    def e_Lambda(self, e, frame):
        return self.make_function(e, e.args, frame, '<lambda>')

    def e_BoolOp(self, e, frame):
        isand = isinstance(e.op, ast.And)
        v = None
        for x in e.values:
            v = self.eval(x, frame)
            t = self.truth(v)
            if isand and not t:
                return v
            if not isand and t:
                return v
        return v

    def e_UnaryOp(self, e, frame):
        v = self.eval(e.operand, frame)
        if isinstance(e.op, ast.Not):
            if isinstance(v, SBool):
                return Not(v)
            return not self.truth(v)
        if isinstance(e.op, ast.USub):
            return self.native(operator.neg, [v], {})
        if isinstance(e.op, ast.UAdd):
            return self.native(operator.pos, [v], {})
        if isinstance(e.op, ast.Invert):
            return self.native(operator.invert, [v], {})
        raise Unsupported('unary op')

    _BIN = {ast.Add: (operator.add, operator.iadd), ast.Sub: (operator.sub, operator.isub),
            ast.Mult: (operator.mul, operator.imul), ast.Div: (operator.truediv, operator.itruediv),
            ast.FloorDiv: (operator.floordiv, operator.ifloordiv), ast.Mod: (operator.mod, operator.imod),
            ast.Pow: (operator.pow, operator.ipow), ast.LShift: (operator.lshift, operator.ilshift),
            ast.RShift: (operator.rshift, operator.irshift), ast.BitOr: (operator.or_, operator.ior),
            ast.BitAnd: (operator.and_, operator.iand), ast.BitXor: (operator.xor, operator.ixor)}

    def e_BinOp(self, e, frame):
        return self.binop(e.op, self.eval(e.left, frame), self.eval(e.right, frame))

    def binop(self, op, a, b, inplace=False):
        if isinstance(op, ast.Mod) and isinstance(a, (str, SStr)):
            from .builtins_model import fmt_percent
            return fmt_percent(self, a, b)
        fn = self._BIN[type(op)][1 if inplace else 0]
        # dunder methods defined in the repository are interpreted
        if not is_symbolic(a) and self.is_repo_object(a) and not isinstance(a, type):
            name = '__%s__' % _OPNAME[type(op)]
            m = _mro_lookup(type(a), name)
            if isinstance(m, types.FunctionType) and in_repo_scope(m.__module__):
                r = self.call_function(m, [a, b], {})
                if r is not NotImplemented:
                    return r
        if not is_symbolic(b) and self.is_repo_object(b) and not isinstance(b, type) \
                and not (is_symbolic(a)):
            name = '__r%s__' % _OPNAME[type(op)]
            m = _mro_lookup(type(b), name)
            if isinstance(m, types.FunctionType) and in_repo_scope(m.__module__) and \
                    not isinstance(a, type(b)):
                r = self.call_function(m, [b, a], {})
                if r is not NotImplemented:
                    return r
        if isinstance(a, SBool) or isinstance(b, SBool):
            a, b = _bool_to_int(a, b, self.E.int_mode)
        if isinstance(a, float) and isinstance(b, SInt) or isinstance(b, float) and isinstance(a, SInt):
            from .values import to_real
            a = to_real(a) if isinstance(a, SInt) else a
            b = to_real(b) if isinstance(b, SInt) else b
        return self.native(fn, [a, b], {})

    def e_Compare(self, e, frame):
        left = self.eval(e.left, frame)
        result = True
        for op, rn in zip(e.ops, e.comparators):
            right = self.eval(rn, frame)
            r = self.compare(op, left, right)
            if len(e.ops) == 1:
                return r
            if not self.truth(r):
                return False if not isinstance(r, SBool) else False
            left = right
            result = r
        return True

    def compare(self, op, a, b):
        if isinstance(op, ast.Is):
            return a is b
        if isinstance(op, ast.IsNot):
            return a is not b
        if isinstance(op, (ast.In, ast.NotIn)):
            r = self.contains(b, a)
            if isinstance(op, ast.NotIn):
                return Not(r) if isinstance(r, SBool) else (not r)
            return r
        if isinstance(op, (ast.Eq, ast.NotEq)):
            r = self.equals(a, b)
            if isinstance(op, ast.NotEq):
                return Not(r) if isinstance(r, SBool) else (not r)
            return r
        fn = {ast.Lt: operator.lt, ast.LtE: operator.le, ast.Gt: operator.gt, ast.GtE: operator.ge}[type(op)]
        return self.native(fn, [a, b], {})

    def equals(self, a, b):
        """== with repository-defined __eq__ interpreted and containers compared element-wise."""
        if is_symbolic(a) or is_symbolic(b):
            if isinstance(a, (tuple, list)) or isinstance(b, (tuple, list)):
                return False
            if is_symbolic(a):
                return self.native(operator.eq, [a, b], {})
            return self.native(operator.eq, [b, a], {})
        for x, y in ((a, b), (b, a)):
            if self.is_repo_object(x) and not isinstance(x, type):
                m = _mro_lookup(type(x), '__eq__')
                if isinstance(m, types.FunctionType) and in_repo_scope(m.__module__):
                    r = self.call_function(m, [x, y], {})
                    if r is not NotImplemented:
                        return r
        if type(a) in (tuple, list) and type(b) is type(a) or \
                isinstance(a, tuple) and isinstance(b, tuple):
            if _deep_symbolic(a) or _deep_symbolic(b) or _has_repo_objects(a) or _has_repo_objects(b):
                if len(a) != len(b):
                    return False
                acc = True
                for x, y in zip(a, b):
                    r = self.equals(x, y)
                    if r is False:
                        return False
                    if r is not True:
                        acc = r if acc is True else And(acc, r)
                return acc
        if isinstance(a, dict) and isinstance(b, dict) and (_deep_symbolic(a) or _deep_symbolic(b)):
            if set(a.keys()) != set(b.keys()):
                return False
            acc = True
            for k in a:
                r = self.equals(a[k], b[k])
                if r is False:
                    return False
                if r is not True:
                    acc = r if acc is True else And(acc, r)
            return acc
        return self.native(operator.eq, [a, b], {})

    def contains(self, container, x):
        if is_symbolic(container):
            raise Unsupported('membership in a symbolic container')
        if isinstance(container, (set, frozenset, dict, list, tuple)) or type(container).__name__ in (
                'dict_keys', 'dict_values', 'odict_keys', 'deque', 'SymSet'):
            elems = list(container)
            if is_symbolic(x) or _deep_symbolic(elems):
                acc = False
                for el in elems:
                    r = self.equals(x, el)
                    if r is True:
                        return True
                    if r is not False:
                        acc = r if acc is False else Or(acc, r)
                return acc
        c = _mro_lookup(type(container), '__contains__')
        if isinstance(c, types.FunctionType) and in_repo_scope(c.__module__):
            return self.call_function(c, [container, x], {})
        return self.native(operator.contains, [container, x], {})

    def eval_index(self, sl, frame):
        if isinstance(sl, ast.Slice):
            return slice(None if sl.lower is None else self.eval(sl.lower, frame),
                         None if sl.upper is None else self.eval(sl.upper, frame),
                         None if sl.step is None else self.eval(sl.step, frame))
        if isinstance(sl, ast.Tuple):
            return tuple(self.eval_index(x, frame) for x in sl.elts)
        return self.eval(sl, frame)

    def e_Subscript(self, e, frame):
        return self.getitem(self.eval(e.value, frame), self.eval_index(e.slice, frame))

    def getitem(self, obj, idx):
        if isinstance(obj, dict) and is_symbolic(idx):
            return self.sym_dict_lookup(obj, idx)
        if isinstance(obj, (list, tuple)) and isinstance(idx, SInt):
            n = len(obj)
            for i in range(n):
                if self.truth(idx == i):
                    return obj[i]
            for i in range(1, n + 1):
                if self.truth(idx == -i):
                    return obj[-i]
            raise PyRaise(IndexError('index out of range'))
        gi = _mro_lookup(type(obj), '__getitem__') if not is_symbolic(obj) else _MISSING
        if isinstance(gi, types.FunctionType) and in_repo_scope(gi.__module__):
            return self.call_function(gi, [obj, idx], {})
        return self.native(operator.getitem, [obj, idx], {})

    def sym_dict_lookup(self, d, key):
        for k, v in list(d.items()):
            r = self.equals(key, k)
            if r is True or (r is not False and self.truth(r)):
                return v
        raise PyRaise(KeyError(key))

    def setitem(self, obj, idx, v):
        if isinstance(obj, dict) and is_symbolic(idx):
            raise Unsupported('dict store with a symbolic key')
        self.native(operator.setitem, [obj, idx, v], {})

    def e_Call(self, e, frame):
        f = self.eval(e.func, frame)
        args = self.eval_seq(e.args, frame)
        kwargs = {}
        for k in e.keywords:
            if k.arg is None:
                kwargs.update(self.eval(k.value, frame))
            else:
                kwargs[k.arg] = self.eval(k.value, frame)
        if f is builtins.super and not args:
            # zero-argument super(): the compiler's __class__ cell of the enclosing method and its first parameter
            fr = frame
            while fr is not None and not ('__class__' in fr.cells and fr.first_param is not None):
                fr = fr.parent
            if fr is None or fr.first_param not in fr.locals:
                raise Unsupported('zero-argument super() outside a method of a real class')
            cell = fr.cells['__class__']
            try:
                owner = cell.cell_contents
            except ValueError:
                raise Unsupported('zero-argument super(): empty __class__ cell')
            return self.call_value(builtins.super, [owner, fr.locals[fr.first_param]], {})
        if f is builtins.locals or f is builtins.globals or f is builtins.eval or f is builtins.exec:
            raise Unsupported('reflection builtin')
        return self.call_value(f, args, kwargs)

    def e_JoinedStr(self, e, frame):
        parts = []
        for v in e.values:
            if isinstance(v, ast.Constant):
                parts.append(v.value)
            else:
                x = self.eval(v.value, frame)
                spec = self.eval(v.format_spec, frame) if v.format_spec else ''
                if is_symbolic(spec):
                    raise Unsupported('f-string with a symbolic format spec')
                if is_symbolic(x) or _deep_symbolic(x) or (self.is_repo_object(x) and not isinstance(x, type)):
                    # {x}, {x!s}, {x!r}: the same (assumed) conversions as '%s' / '%r'; {n:x} / {n:d} of an int as '%x' / '%d'
                    from .builtins_model import _to_sstr, hex_of_int
                    if v.conversion in (-1, 115, 114) and spec == '':
                        parts.append(_to_sstr(self, x, 'r' if v.conversion == 114 else 's'))
                    elif v.conversion == -1 and spec in ('x', 'd') and isinstance(x, SInt):
                        parts.append(hex_of_int(x) if spec == 'x' else _to_sstr(self, x, 'd'))
                    else:
                        raise Unsupported('f-string conversion %r / format spec %r over a symbolic value' % (v.conversion, spec))
                    continue
                if v.conversion == 114:
                    x = repr(x)
                elif v.conversion == 115:
                    x = str(x)
                elif v.conversion == 97:
                    x = ascii(x)
                try:
                    parts.append(format(x, spec))
                except Exception as ex:     # the program's own exception
                    raise PyRaise(ex)
        if all(isinstance(q, str) for q in parts):
            return ''.join(parts)
        out = None
        for q in parts:
            if isinstance(q, str):
                if not q:
                    continue
                q = SStr(z3.StringVal(q))
            out = q if out is None else out + q
        return out if out is not None else ''

    def e_Starred(self, e, frame):
        raise Unsupported('starred expression outside a call or display')

    def _comp(self, gens, frame, emit):
        def rec(i, fr):
            if i == len(gens):
                emit(fr)
                return
            g = gens[i]
            for x in self.iterate(self.eval(g.iter, fr)):
                self.assign(g.target, x, fr)
                if all(self.truth(self.eval(c, fr)) for c in g.ifs):
                    rec(i + 1, fr)
        fr = Frame(frame.globals, frame, frame.qualname)
        rec(0, fr)

    def e_ListComp(self, e, frame):
        spec = self.loop_specs.get((frame.qualname, 'listcomp@%d' % e.lineno))
        if spec is not None:
            return spec.run_comp(self, e, frame)
        out = []
        self._comp(e.generators, frame, lambda fr: out.append(self.eval(e.elt, fr)))
        return out

    def e_GeneratorExp(self, e, frame):
        return iter(self.e_ListComp(e, frame))

    def e_SetComp(self, e, frame):
        return set(self.e_ListComp(e, frame))

    def e_DictComp(self, e, frame):
        out = {}

        def emit(fr):
            k = self.eval(e.key, fr)
            if is_symbolic(k):
                # keys that are symbolic are kept in an association list wrapper
                raise Unsupported('dict comprehension with a symbolic key')
            out[k] = self.eval(e.value, fr)
        self._comp(e.generators, frame, emit)
        return out

    def e_Yield(self, e, frame):
        f = frame
        while f is not None and f.yields is None:
            f = f.parent
        if f is None:
            raise Unsupported('yield outside a generator function')
        f.yields.append(None if e.value is None else self.eval(e.value, frame))
        return None

    def e_YieldFrom(self, e, frame):
        f = frame
        while f is not None and f.yields is None:
            f = f.parent
        f.yields.extend(self.iterate(self.eval(e.value, frame)))
        return None

    def e_NamedExpr(self, e, frame):
        v = self.eval(e.value, frame)
        self.assign(e.target, v, frame)
        return v


_OPNAME = {ast.Add: 'add', ast.Sub: 'sub', ast.Mult: 'mul', ast.Div: 'truediv', ast.FloorDiv: 'floordiv',
           ast.Mod: 'mod', ast.Pow: 'pow', ast.LShift: 'lshift', ast.RShift: 'rshift', ast.BitOr: 'or',
           ast.BitAnd: 'and', ast.BitXor: 'xor'}

_MISSING = object()


def _mro_lookup(tp, name):
    for c in tp.__mro__:
        if name in c.__dict__:
            return c.__dict__[name]
    return _MISSING


def _is_data_descriptor(attr):
    t = type(attr)
    return _mro_lookup(t, '__set__') is not _MISSING or _mro_lookup(t, '__delete__') is not _MISSING


def unwrap_function(f):
    if isinstance(f, (staticmethod, classmethod)):
        return f.__func__
    if isinstance(f, types.MethodType):
        return f.__func__
    return f


def qualname_of(f):
    f = unwrap_function(f)
    mod = getattr(f, '__module__', None) or ''
    qn = getattr(f, '__qualname__', None) or getattr(f, '__name__', None) or repr(f)
    return (mod + '.' + qn) if mod else qn


def _bkey(f):
    """Identity key for builtin functions and types."""
    return ('obj', id(f))


_MODEL_NAMES = re.compile(r"\b(SInt|SBool|SBytes|SStr|SReal|SOpaque|SByteArray|SIntStr|SymRange|SymSet|SymList|SymDict|SymODict|"
                          r"SymArray|SymBytesIO|SymProtocol|Blob|AbstractSeq|AbsDeque|AbsItem|ByteReader|InStream|"
                          r"ArbitraryStream|ShortReadStream|OutSocket|IdxMap|TwoPointMap|VersionsMap|Ghost\w+|Abs[A-Z]\w+|Sym[A-Z]\w+)\b")


_TEMPLATES = {}


def _template_attrs(tp):
    """Attribute names that the real constructor of a (few, known) library class creates."""
    key = (getattr(tp, '__module__', ''), tp.__name__)
    if key not in _TEMPLATES:
        names = frozenset()
        try:
            if key[0] == 'minecraft.networking.connection':
                import minecraft.networking.connection as cm
                conn = cm.Connection('localhost', 25565, username='u')
                if tp.__name__ == 'Connection':
                    names = frozenset(conn.__dict__)
                elif tp.__name__ == 'NetworkingThread':
                    names = frozenset(k for k in cm.NetworkingThread(conn).__dict__ if not k.startswith('_') or k in ('_run',))
                elif tp.__name__ in ('PacketReactor', 'LoginReactor', 'PlayingReactor', 'StatusReactor', 'PlayingStatusReactor'):
                    names = frozenset(getattr(cm, tp.__name__)(conn).__dict__)
        except Exception:
            names = frozenset()
        _TEMPLATES[key] = names
    return _TEMPLATES[key]


def _mentions_symbolic(e):
    return bool(_MODEL_NAMES.search(str(e)))


def _is_log_call(f, args=()):
    import logging
    recv = getattr(f, '__self__', None)
    if recv is None and args and getattr(f, '__module__', None) == 'logging':
        recv = args[0]                      # the unbound function with the logger as its first argument
    return (isinstance(recv, (logging.Logger, logging.LoggerAdapter)) and
            getattr(f, '__name__', '') in ('debug', 'info', 'warning', 'warn', 'error', 'exception', 'critical', 'log'))


def _model_gap(e):
    """A TypeError / AttributeError that names one of our model classes is a hole in the model, not program behaviour."""
    return isinstance(e, (TypeError, AttributeError, NotImplementedError)) and _mentions_symbolic(e)


def _deep_symbolic(x, depth=0):
    if is_symbolic(x):
        return True
    if depth < 3:
        if isinstance(x, (tuple, list, set, frozenset)):
            return any(_deep_symbolic(e, depth + 1) for e in x)
        if isinstance(x, dict):
            return any(_deep_symbolic(e, depth + 1) for e in x.values())
    return False


def _has_repo_objects(x):
    return any(in_repo_scope(getattr(type(e), '__module__', None)) for e in x)


_SAFE_METHOD_OWNERS = (list, dict, tuple, set, frozenset, bytearray)


def _native_safe(f):
    """Native callables that merely store or move their arguments."""
    s = getattr(f, '__self__', None)
    if s is not None and not isinstance(s, types.ModuleType):
        import collections
        if isinstance(s, (list, dict, collections.deque, collections.OrderedDict)):
            return True
        mod = type(s).__module__ or ''
        if mod.startswith('pyvc') or mod.startswith('contracts') or mod.startswith('spec'):
            return True
        return False
    mod = getattr(f, '__module__', None) or ''
    if mod.startswith('pyvc') or mod.startswith('contracts') or mod.startswith('spec') \
            or mod.startswith('namedtuple_') or mod.startswith('operator') or mod == '_operator':
        return True
    return False


def _bool_to_int(a, b, mode):
    from .values import ite, SInt as _SI
    import z3
    def conv(x, other):
        if isinstance(x, SBool):
            if isinstance(other, _SI):
                return other._coerce(x)
            from .values import W
            one, zero = (z3.BitVecVal(1, W), z3.BitVecVal(0, W)) if mode == 'bv' else (z3.IntVal(1), z3.IntVal(0))
            return _SI(z3.If(x.t, one, zero), 0, 1)
        return x
    return conv(a, b), conv(b, a)
