"""Models of Python builtins and of `struct` for symbolic arguments.

Each model behaves exactly like the builtin on concrete arguments (it simply
calls it) and implements the documented semantics on symbolic ones.  These are
part of the trusted base ("Python semantics the encoding assumes") and are
cross-checked against CPython by the conformance runs.
"""
import builtins
import struct

import z3

from .values import (SBool, SInt, SReal, SStr, SBytes, SOpaque, Blob, Unsupported, W, is_symbolic, mk_bool,
                     byte_to_int, int_to_byte, to_real, real_trunc, real_round, ite, Not, And, Or, term_bool)


class SymRange(object):
    """range(n) for a symbolic n: iteration needs a loop contract."""

    def __init__(self, n, start=0):
        self.n = n               # for range(n): the number of elements; in general the (exclusive) stop
        self.start = start

    def __iter__(self):
        raise Unsupported('iteration over range(symbolic) without a loop contract')


def sym_hash(I, x):
    """hash of a value with symbolic parts: an uninterpreted function of its components (assumed contract:
    equal values hash equally - congruence is all that is known)."""
    terms = []

    def flat(v):
        if isinstance(v, (tuple, list)):
            terms.append(z3.StringVal('(%d' % len(v)))
            for e in v:
                flat(e)
        elif isinstance(v, (SInt, SBool, SReal, SStr, SOpaque)):
            terms.append(v.t)
        elif isinstance(v, SBytes):
            raise Unsupported('hash of symbolic bytes')
        else:
            terms.append(z3.StringVal('c:%s:%r' % (type(v).__name__, v if not isinstance(v, type) else v.__qualname__)))
    flat(x)
    f = z3.Function('hash%d_%s' % (len(terms), '_'.join(str(t.sort()) for t in terms).replace(' ', '')),
                    *([t.sort() for t in terms] + [z3.IntSort()]))
    t = f(*terms)
    if I.E.int_mode == 'bv':
        return SInt(z3.Int2BV(t, W), None, None)
    return SInt(t, None, None)


class SIntStr(object):
    """str(n) for a symbolic n, only usable as a struct format count: str(n) + 's'."""

    def __init__(self, n, suffix=''):
        self.n = n
        self.suffix = suffix

    def __add__(self, o):
        if isinstance(o, str):
            return SIntStr(self.n, self.suffix + o)
        raise Unsupported('concatenation with str(symbolic int)')


PYTYPE = {SInt: int, SBool: bool, SReal: float, SStr: str, SBytes: bytes}


def pytype(x):
    for k, v in PYTYPE.items():
        if isinstance(x, k):
            return v
    if isinstance(x, SOpaque):
        return {'f32': float, 'f64': float}.get(x.kind, object)
    return type(x)


def table(I):
    E = I.E
    T = {}

    def reg(obj, fn):
        T[('obj', id(obj))] = fn

    # ---- type predicates -------------------------------------------------
    def m_isinstance(x, t):
        if hasattr(t, '__sym_instancecheck__'):
            return t.__sym_instancecheck__(x)
        if isinstance(t, tuple) and any(hasattr(k, '__sym_instancecheck__') for k in t):
            return Or(*[m_isinstance(x, k) for k in t])
        if is_symbolic(x):
            pt = pytype(x)
            ts = t if isinstance(t, tuple) else (t,)
            return any(isinstance(k, type) and issubclass(pt, k) for k in ts)
        return isinstance(x, t)
    reg(isinstance, m_isinstance)

    def m_type(*a):
        if len(a) == 1:
            return pytype(a[0]) if is_symbolic(a[0]) else type(a[0])
        return type(*a)
    reg(type, m_type)

    def m_len(x):
        if hasattr(x, '__sym_len__'):
            return x.__sym_len__()
        if isinstance(x, SBytes):
            n = x.length()
            return n
        if isinstance(x, SStr):
            mode = E.int_mode
            t = z3.Length(x.t)
            return SInt(z3.Int2BV(t, W), 0, None) if mode == 'bv' else SInt(t, 0, None)
        if is_symbolic(x):
            raise Unsupported('len of %s' % type(x).__name__)
        ln = getattr(type(x), '__len__', None)
        return len(x)
    reg(len, m_len)

    def m_ord(x):
        if isinstance(x, SBytes):
            ts = x.byte_terms()
            if ts is None or len(ts) != 1:
                if ts is not None:
                    raise TypeError('ord() expected a character, but string of length %d found' % len(ts))
                raise Unsupported('ord of an opaque byte string')
            return byte_to_int(ts[0], E.int_mode)
        return ord(x)
    reg(ord, m_ord)

    def m_int(*a, **k):
        if len(a) == 1 and not k:
            x = a[0]
            if isinstance(x, SInt):
                return x
            if isinstance(x, SReal):
                return real_trunc(x, E.int_mode)
            if isinstance(x, SBool):
                return SInt._zero_like(E.new_int('$z'))._coerce(x) if False else _b2i(x, E.int_mode)
            if is_symbolic(x):
                raise Unsupported('int() of %s' % type(x).__name__)
        return int(*a, **k)
    reg(int, m_int)

    def m_float(*a):
        if a and isinstance(a[0], (SInt, SReal)):
            return to_real(a[0])
        if a and is_symbolic(a[0]):
            raise Unsupported('float() of %s' % type(a[0]).__name__)
        return float(*a)
    reg(float, m_float)

    def m_round(x, nd=None):
        if isinstance(x, SReal) and nd is None:
            return real_round(x, E.int_mode)
        if isinstance(x, SInt) and nd is None:
            return x
        if is_symbolic(x):
            raise Unsupported('round with digits on a symbolic value')
        return round(x) if nd is None else round(x, nd)
    reg(round, m_round)

    def m_bool(*a):
        if not a:
            return False
        x = a[0]
        if isinstance(x, SBool):
            return x
        if isinstance(x, (SInt, SReal)):
            return x != 0
        return I.truth(x)
    reg(bool, m_bool)

    def m_str(*a, **k):
        if len(a) == 1 and not k:
            x = a[0]
            if isinstance(x, SStr):
                return x
            if isinstance(x, SInt):
                return SIntStr(x)
            if is_symbolic(x):
                raise Unsupported('str() of %s' % type(x).__name__)
            if hasattr(x, '__sym_str__'):
                return x.__sym_str__()
            if I.is_repo_object(x) and not isinstance(x, type):
                for name in ('__str__', '__repr__'):
                    from .interp import _mro_lookup, in_repo_scope
                    import types
                    m = _mro_lookup(type(x), name)
                    if isinstance(m, types.FunctionType) and in_repo_scope(m.__module__):
                        return I.call_function(m, [x], {})
        return str(*a, **k)
    reg(str, m_str)

    def m_repr(x):
        if is_symbolic(x):
            # assumed: repr of a builtin value is total and returns some string
            return E.new_str('repr')
        if I.is_repo_object(x) and not isinstance(x, type):
            from .interp import _mro_lookup, in_repo_scope
            import types
            m = _mro_lookup(type(x), '__repr__')
            if isinstance(m, types.FunctionType) and in_repo_scope(m.__module__):
                return I.call_function(m, [x], {})
        from .interp import _deep_symbolic
        if _deep_symbolic(x):
            return E.new_str('repr')
        return repr(x)
    reg(repr, m_repr)

    def m_abs(x):
        return abs(x)
    reg(abs, m_abs)

    def m_divmod(a, b):
        if is_symbolic(a) or is_symbolic(b):
            return (a // b, a % b)
        return divmod(a, b)
    reg(divmod, m_divmod)

    def m_getattr(obj, name, *default):
        from .interp import PyRaise
        if not isinstance(name, str) and hasattr(type(obj), '__getattr__'):
            return type(obj).__getattr__(obj, name)      # abstract attribute names of model objects
        try:
            return I.getattr_(obj, name)
        except PyRaise as e:
            if default and isinstance(e.exc, AttributeError):
                return default[0]
            raise
    reg(getattr, m_getattr)
    def m_setattr(obj, name, v):
        if not isinstance(name, str) and '__setattr__' in type(obj).__dict__:
            return type(obj).__setattr__(obj, name, v)
        return I.setattr_(obj, name, v)
    reg(setattr, m_setattr)
    reg(delattr, lambda obj, name: I.delattr_(obj, name))
    reg(hasattr, lambda obj, name: I.hasattr_(obj, name))

    def m_print(*a, **k):
        return None
    reg(print, m_print)

    def m_range(*a):
        a = tuple(_concretize_int(x) for x in a)
        if any(is_symbolic(x) for x in a):
            if len(a) == 1:
                return SymRange(a[0])        # only usable through a loop contract (ForSpec)
            if len(a) == 2:
                r = SymRange(a[1], a[0])     # usable through LoopSpec's for-over-range scheme only
                r.two_args = True
                return r
            raise Unsupported('range over symbolic bounds with a step')
        return range(*a)
    reg(range, m_range)

    def m_minmax(native):
        def m(*a, **k):
            from .interp import _deep_symbolic
            if not _deep_symbolic(list(a)):
                return native(*a, **k)
            if k or len(a) != 2:
                raise Unsupported('min/max over symbolic values with key or != 2 arguments')
            x, y = a
            c = (x <= y) if native is min else (x >= y)
            return ite(c, x, y)
        return m
    reg(min, m_minmax(min))
    reg(max, m_minmax(max))

    def m_bytearray(*a, **k):
        from .values import SByteArray
        if not a:
            return SByteArray()
        if isinstance(a[0], (SBytes, SByteArray)):
            return SByteArray(a[0])
        if is_symbolic(a[0]):
            raise Unsupported('bytearray() of %s' % type(a[0]).__name__)
        return bytearray(*a, **k)
    reg(bytearray, m_bytearray)

    def m_bytes(*a, **k):
        from .values import SByteArray
        if a and isinstance(a[0], SByteArray):
            return a[0].data
        if a and isinstance(a[0], SBytes):
            return a[0]
        if a and is_symbolic(a[0]):
            raise Unsupported('bytes() of %s' % type(a[0]).__name__)
        return bytes(*a, **k)
    reg(bytes, m_bytes)

    def m_hash(x):
        from .interp import _deep_symbolic
        if _deep_symbolic(x):
            return sym_hash(I, x)
        return hash(x)
    reg(hash, m_hash)

    def m_iter(x, *a):
        return iter(I.iterate(x)) if not a else iter(x, *a)
    reg(iter, m_iter)

    def m_list(*a):
        return list(I.iterate(a[0])) if a else []
    reg(list, m_list)

    def m_tuple(*a):
        return tuple(I.iterate(a[0])) if a else ()
    reg(tuple, m_tuple)

    def m_all(xs):
        for x in I.iterate(xs):
            if not I.truth(x):
                return False
        return True
    reg(all, m_all)

    def m_any(xs):
        for x in I.iterate(xs):
            if I.truth(x):
                return True
        return False
    reg(any, m_any)

    def m_zip(*xs):
        return zip(*[I.iterate(x) for x in xs])
    reg(zip, m_zip)

    def m_map(f, *xs):
        return iter([I.call_value(f, list(args), {}) for args in zip(*[I.iterate(x) for x in xs])])
    reg(map, m_map)

    def m_sorted(xs, key=None, reverse=False):
        items = list(I.iterate(xs))
        if key is None:
            return sorted(items, reverse=reverse)
        keys = [I.call_value(key, [x], {}) for x in items]
        from .interp import _deep_symbolic
        if _deep_symbolic(keys):
            raise Unsupported('sorted by a symbolic key')
        order = sorted(range(len(items)), key=lambda i: keys[i], reverse=reverse)
        return [items[i] for i in order]
    reg(sorted, m_sorted)

    def m_reversed(xs):
        return iter(list(I.iterate(xs))[::-1])
    reg(reversed, m_reversed)

    def m_enumerate(xs, start=0):
        return enumerate(I.iterate(xs), start)
    reg(enumerate, m_enumerate)

    def m_sum(xs, start=0):
        acc = start
        for x in I.iterate(xs):
            acc = acc + x
        return acc
    reg(sum, m_sum)

    def m_format(x, spec=''):
        if isinstance(x, SInt) and spec == 'x':
            return hex_of_int(x)
        if is_symbolic(x):
            raise Unsupported('format(%s, %r)' % (type(x).__name__, spec))
        return format(x, spec)
    reg(format, m_format)

    # ---- struct ------------------------------------------------------------
    reg(struct.pack, lambda fmt, *vals: struct_pack(I, fmt, vals))
    reg(struct.unpack, lambda fmt, data: struct_unpack(I, fmt, data))

    # ---- str methods with symbolic arguments ----------------------------------
    T[('method', 'join', 'str')] = None     # resolved in call path (see str_method)
    return _Table(T, I)


_hexmag = z3.Function('hexmag', z3.IntSort(), z3.StringSort())


def _hexstr(t):
    """format(n, 'x') as a term: the (uninterpreted) lower-case hex digits of |n|, after '-' when n is negative - so that
    the two ways of writing it, format(n, 'x') and ('-' + format(-n, 'x') if n < 0 else format(n, 'x')), are the same term."""
    return z3.If(t < 0, z3.Concat(z3.StringVal('-'), _hexmag(-t)), _hexmag(t))


def hex_of_int(x):
    """format(n, 'x'): assumed = signed lower-case hexadecimal without leading zeros ('-' prefix when negative),
    i.e. Java's BigInteger.toString(16); an uninterpreted function of the integer value."""
    t = z3.BV2Int(x.t, True) if x.bv else x.t
    return SStr(_hexstr(t))


def int_from_bytes(I, b, byteorder='big', signed=False, **kw):
    """int.from_bytes: assumed = two's-complement value of the bytes in the given order (Int mode: explicit sum)."""
    if kw:
        raise Unsupported('int.from_bytes keyword %r' % (list(kw),))
    if not is_symbolic(b):
        return int.from_bytes(b, byteorder, signed=signed)
    if is_symbolic(signed):
        signed = I.truth(signed)
    ts = SBytes.of(b).byte_terms()
    if ts is None:
        raise Unsupported('int.from_bytes of an opaque blob')
    if byteorder == 'little':
        ts = ts[::-1]
    elif byteorder != 'big':
        raise ValueError("byteorder must be either 'little' or 'big'")
    if I.E.int_mode == 'bv':
        if 8 * len(ts) >= W:
            raise Unsupported('int.from_bytes wider than BV(%d)' % W)
        return bytes_int(ts, signed, 'bv')
    n = len(ts)
    total = z3.IntVal(0)
    for k, t in enumerate(ts):
        total = total + z3.BV2Int(t, False) * (1 << (8 * (n - 1 - k)))
    if signed and n:
        total = total - z3.If(z3.BV2Int(ts[0], False) >= 128, z3.IntVal(1 << (8 * n)), z3.IntVal(0))
    return SInt(total, None, None)


def _concretize_int(x):
    if isinstance(x, SInt):
        t = z3.simplify(x.t)
        if z3.is_bv_value(t):
            n = t.as_long()
            return n - (1 << W) if n >= 1 << (W - 1) else n
        if z3.is_int_value(t):
            return t.as_long()
    return x


def _b2i(x, mode):
    one, zero = (z3.BitVecVal(1, W), z3.BitVecVal(0, W)) if mode == 'bv' else (z3.IntVal(1), z3.IntVal(0))
    return SInt(z3.If(x.t, one, zero), 0, 1)


class _Table(object):
    def __init__(self, T, I):
        self.T = T
        self.I = I

    def get(self, key):
        if key[0] == 'obj':
            return self.T.get(key)
        return None


# --------------------------------------------------------------------------
# struct: assumed contract (big-endian two's complement / IEEE-754, exact sizes)
# --------------------------------------------------------------------------
_INT_CODES = {'b': (1, True), 'B': (1, False), 'h': (2, True), 'H': (2, False), 'i': (4, True),
              'I': (4, False), 'q': (8, True), 'Q': (8, False)}

F32 = z3.DeclareSort('F32bits')
F64 = z3.DeclareSort('F64bits')
pack_f32 = z3.Function('pack_f32', z3.RealSort(), z3.BitVecSort(32))
unpack_f32 = z3.Function('unpack_f32', z3.BitVecSort(32), z3.RealSort())
pack_f64 = z3.Function('pack_f64', z3.RealSort(), z3.BitVecSort(64))
unpack_f64 = z3.Function('unpack_f64', z3.BitVecSort(64), z3.RealSort())


def _parse_fmt(fmt):
    if isinstance(fmt, SIntStr):
        if fmt.suffix == 's':
            return ('Ns', fmt.n)
        raise Unsupported('struct format %r' % (fmt.suffix,))
    if not isinstance(fmt, str):
        raise Unsupported('struct format of type %s' % type(fmt).__name__)
    f = fmt
    little = False
    if f and f[0] in '<>!=@':
        little = f[0] in '<=@'          # native order on the supported platforms is little-endian
        f = f[1:]
    else:
        little = True                   # no prefix: native order (only matters for multi-byte codes)
    if f in _INT_CODES:
        return ('int',) + _INT_CODES[f] + (little,)
    if f == '?':
        return ('bool',)
    if f == 'f':
        return ('float', 4, little)
    if f == 'd':
        return ('float', 8, little)
    if f.endswith('s') and f[:-1].isdigit():
        return ('Ns', int(f[:-1]))
    if f == 's':
        return ('Ns', 1)
    raise Unsupported('struct format %r' % fmt)


def struct_pack(I, fmt, vals):
    from .interp import _deep_symbolic
    E = I.E
    if not isinstance(fmt, SIntStr) and not _deep_symbolic(list(vals)):
        return struct.pack(fmt, *vals)
    p = _parse_fmt(fmt)
    if len(vals) != 1:
        raise struct.error('pack expected 1 items for packing (got %d)' % len(vals))
    v = vals[0]
    if p[0] == 'int':
        _, n, signed, little = p
        if isinstance(v, SBool):
            v = _b2i(v, E.int_mode)
        if isinstance(v, SReal):
            raise struct.error('required argument is not an integer')
        if not isinstance(v, SInt):
            raise Unsupported('struct.pack of %s as integer' % type(v).__name__)
        lo, hi = (-(1 << (8 * n - 1)), (1 << (8 * n - 1)) - 1) if signed else (0, (1 << (8 * n)) - 1)
        if not I.truth(And(v >= lo, v <= hi)):
            raise struct.error('argument out of range')
        bs = int_bytes(v, n)
        return SBytes(bs[::-1] if little and n > 1 else bs)
    if p[0] == 'bool':
        t = term_bool(v) if isinstance(v, (SBool, bool)) else term_bool(v != 0) if isinstance(v, (SInt, SReal)) else None
        if t is None:
            raise Unsupported('struct.pack ? of %s' % type(v).__name__)
        return SBytes([('byte', z3.If(t, z3.BitVecVal(1, 8), z3.BitVecVal(0, 8)))])
    if p[0] == 'float':
        n = p[1]
        if isinstance(v, SOpaque):
            raise Unsupported('struct.pack of an opaque float')
        r = to_real(v)
        bits = (pack_f32 if n == 4 else pack_f64)(r.t)
        bs = [('byte', z3.Extract(8 * (n - i) - 1, 8 * (n - i - 1), bits)) for i in range(n)]
        return SBytes(bs[::-1] if p[2] else bs)
    if p[0] == 'Ns':
        n = p[1]
        data = SBytes.of(v)
        dl = data.length()
        if isinstance(n, int) and isinstance(dl, int):
            if dl == n:
                return data
            raise Unsupported('struct.pack Ns with padding/truncation')
        # symbolic count: equal lengths give the bytes themselves
        if I.truth(_len_eq(dl, n)):
            return data
        raise Unsupported('struct.pack Ns with padding/truncation')
    raise Unsupported('struct.pack %r' % (p,))


def _len_eq(a, b):
    if isinstance(a, int) and isinstance(b, int):
        return a == b
    if isinstance(a, SInt):
        return a == b
    return b == a


def int_bytes(v, n):
    """Big-endian two's-complement bytes (low 8n bits) of an SInt or int."""
    if isinstance(v, int):
        return [(v & ((1 << (8 * n)) - 1)).to_bytes(n, 'big')]
    if v.bv:
        return [('byte', z3.simplify(z3.Extract(8 * (n - i) - 1, 8 * (n - i - 1), v.t))) for i in range(n)]
    bvt = z3.Int2BV(v.t, 8 * n)
    return [('byte', z3.Extract(8 * (n - i) - 1, 8 * (n - i - 1), bvt)) for i in range(n)]


def bytes_int(terms, signed, mode):
    """Integer value of big-endian byte terms."""
    n = len(terms)
    cat = z3.simplify(terms[0] if n == 1 else z3.Concat(*terms))
    if z3.is_bv_value(cat):
        v = cat.as_long()
        return v - (1 << (8 * n)) if signed and v >= 1 << (8 * n - 1) else v
    if mode == 'bv':
        ext = (z3.SignExt if signed else z3.ZeroExt)(W - 8 * n, cat)
        lo, hi = (-(1 << (8 * n - 1)), (1 << (8 * n - 1)) - 1) if signed else (0, (1 << (8 * n)) - 1)
        return SInt(z3.simplify(ext), lo, hi)
    lo, hi = (-(1 << (8 * n - 1)), (1 << (8 * n - 1)) - 1) if signed else (0, (1 << (8 * n)) - 1)
    return SInt(z3.BV2Int(cat, signed), lo, hi)


def struct_unpack(I, fmt, data):
    E = I.E
    if not isinstance(fmt, SIntStr) and not is_symbolic(data):
        return struct.unpack(fmt, data)
    p = _parse_fmt(fmt)
    data = SBytes.of(data)
    dl = data.length()
    if p[0] == 'Ns':
        n = p[1]
        if isinstance(n, SInt) or not isinstance(dl, int):
            if isinstance(n, SInt):
                # str(n) + "s" with negative n is a malformed format: struct.error
                if I.truth(n < 0):
                    raise struct.error('bad char in struct format')
            if I.truth(_len_eq(dl, n)):
                return (data,)
            raise struct.error('unpack requires a buffer of %s bytes' % (n,))
        if dl != n:
            raise struct.error('unpack requires a buffer of %d bytes' % n)
        return (data,)
    need = {'int': lambda: p[1], 'bool': lambda: 1, 'float': lambda: p[1]}[p[0]]()
    if isinstance(dl, int):
        if dl != need:
            raise struct.error('unpack requires a buffer of %d bytes' % need)
    else:
        if not I.truth(dl == need):
            raise struct.error('unpack requires a buffer of %d bytes' % need)
        raise Unsupported('struct.unpack of a fixed-size value from an opaque blob')
    terms = data.byte_terms()
    if terms is None:
        raise Unsupported('struct.unpack of a fixed-size value from an opaque blob')
    if p[0] == 'int':
        if p[3] and p[1] > 1:
            terms = terms[::-1]
        return (bytes_int(terms, p[2], E.int_mode),)
    if p[0] == 'bool':
        return (mk_bool(terms[0] != z3.BitVecVal(0, 8)),)
    if p[0] == 'float':
        n = p[1]
        if p[2]:
            terms = terms[::-1]
        cat = z3.Concat(*terms)
        return (SReal((unpack_f32 if n == 4 else unpack_f64)(cat)),)
    raise Unsupported('struct.unpack %r' % (p,))


# --------------------------------------------------------------------------
# string formatting with symbolic pieces
# --------------------------------------------------------------------------
def _to_sstr(I, x, conv):
    if isinstance(x, SIntStr):
        s = _to_sstr(I, x.n, 'd')
        return s + x.suffix if x.suffix else s
    if isinstance(x, SStr):
        if conv == 'r':
            return I.E.new_str('repr')
        return x
    if isinstance(x, str):
        return SStr(z3.StringVal(repr(x) if conv == 'r' else x))
    if isinstance(x, SInt):
        if x.bv:
            t = z3.BV2Int(x.t, True)
        else:
            t = x.t
        return SStr(z3.If(t >= 0, z3.IntToStr(t), z3.Concat(z3.StringVal('-'), z3.IntToStr(-t))))
    if is_symbolic(x):
        return I.E.new_str('str')
    if conv == 'd':
        return SStr(z3.StringVal('%d' % x))
    s = I.call_value(builtins.repr if conv == 'r' else builtins.str, [x], {})
    return s if isinstance(s, SStr) else SStr(z3.StringVal(s))


def fmt_percent(I, fmt, args):
    from .interp import _deep_symbolic, PyRaise
    if isinstance(fmt, SStr):
        raise Unsupported('%-format with a symbolic template')
    tup = args if isinstance(args, tuple) else (args,)
    if not _deep_symbolic(list(tup)) and not any(I.is_repo_object(a) and not isinstance(a, type) for a in tup):
        try:
            return fmt % args
        except Exception as e:
            raise PyRaise(e)
    import re
    pieces = re.split(r'(%%|%[sdrx])', fmt)
    if re.search(r'%[^sdrx%]', ''.join(p for p in pieces if not re.fullmatch(r'%%|%[sdrx]', p))):
        raise Unsupported('format spec in %r' % fmt)
    out = None
    it = iter(tup)
    used = 0
    for p in pieces:
        if p == '%%':
            s = SStr(z3.StringVal('%'))
        elif p in ('%s', '%d', '%r', '%x'):
            try:
                a = next(it)
            except StopIteration:
                raise PyRaise(TypeError('not enough arguments for format string'))
            used += 1
            if p == '%x':
                # '%x' % n is format(n, 'x') for an int: the same (assumed) signed-hex function
                if isinstance(a, SInt):
                    s = hex_of_int(a)
                elif isinstance(a, int) and not isinstance(a, bool):
                    s = SStr(z3.StringVal('%x' % a))
                else:
                    raise Unsupported('%%x of %s' % type(a).__name__)
                out = s if out is None else out + s
                continue
            if p == '%d' and isinstance(a, (SStr, str, SBytes, bytes)) or p == '%d' and a is None:
                raise PyRaise(TypeError('%d format: a real number is required'))
            s = _to_sstr(I, a, p[1])
        else:
            if not p:
                continue
            s = SStr(z3.StringVal(p))
        out = s if out is None else out + s
    if used != len(tup):
        raise PyRaise(TypeError('not all arguments converted during string formatting'))
    return out if out is not None else ''


def fmt_format(I, fmt, args, kwargs):
    from .interp import _deep_symbolic
    if not _deep_symbolic(list(args)) and not _deep_symbolic(kwargs):
        return fmt.format(*args, **kwargs)
    import re
    pieces = re.split(r'(\{\w*\})', fmt)
    out = None
    auto = 0
    for p in pieces:
        m = re.fullmatch(r'\{(\w*)\}', p)
        if m:
            k = m.group(1)
            if k == '':
                a = args[auto]
                auto += 1
            elif k.isdigit():
                a = args[int(k)]
            else:
                a = kwargs[k]
            s = _to_sstr(I, a, 's')
        else:
            if not p:
                continue
            if '{' in p or '}' in p:
                raise Unsupported('format spec in %r' % fmt)
            s = SStr(z3.StringVal(p))
        out = s if out is None else out + s
    return out if out is not None else ''


def str_join(I, sep, xs):
    items = list(I.iterate(xs))
    from .interp import _deep_symbolic
    if not _deep_symbolic(items):
        return sep.join(items)
    out = None
    for i, x in enumerate(items):
        s = x if isinstance(x, SStr) else SStr(z3.StringVal(x))
        if out is None:
            out = s
        else:
            out = out + sep + s
    return out if out is not None else ''
