"""Check driver: runs the units of one property, replays counter-models on the
real code, writes evidence and decides the exit code.

Exit codes: 0 held / 1 VIOLATION (unlisted) / 2 UNDECIDED / 3 checker error.
"""
import importlib
import json
import os
import random
import subprocess
import sys
import time
import traceback

import z3

from .engine import Engine, EngineError, PathEnd, DISCHARGED, FAILED, UNKNOWN
from .interp import Interp, PyRaise, qualname_of
from .values import Unsupported

ROOT = os.path.dirname(os.path.dirname(os.path.abspath(__file__)))
REPO = os.environ.get('VERIF_REPO', '/repo')


class Unit(object):
    """One proof unit: a set of named obligations about specific functions of /repo."""
    name = '?'
    prop = '?'
    functions = ()       # qualified names of the functions whose *bodies* are verified here
    uses = ()            # contracts of other functions used at call sites (proved in other units)
    trusted = ()         # assumed contracts (externals) this unit relies on
    int_mode = 'bv'
    timeout_ms = None
    max_paths = 4000
    tiers = ('quick', 'thorough')

    def setup(self, I):
        pass

    def run(self, I):
        raise NotImplementedError

    def on_path(self, I, rec):
        """Conformance hook: called after each finished path."""

    def replay(self, model, label):
        """Re-run the real code on the concrete input of a counter-model.
        Returns dict(confirmed=bool, call=str, observed=str)."""
        return dict(confirmed=False, call='(no replay defined)', observed='')

    def witness_key(self, model, label):
        return None

    def bounded(self, rng, tier):
        """Bounded stand-in on the real code: returns dict(name, bound, evaluations, failures=[...])."""
        return None


class UnitResult(object):
    def __init__(self, unit):
        self.unit = unit
        self.obligations = []
        self.paths = 0
        self.undecided = []      # reasons
        self.errors = []
        self.notes = []
        self.functions_seen = {}
        self.solver_time = 0.0
        self.queries = 0
        self.wall = 0.0
        self.hashes = {}
        self.conformance = 0
        self.bounded = None


def _shallow(v):
    """Identity-level picture of a container: enough to see insertions, removals and replacements (the elements may be
    symbolic or unhashable, so no deep comparison)."""
    try:
        if isinstance(v, dict):
            return ('dict', tuple((repr(k) if not isinstance(k, (int, str, type)) else k, id(x)) for k, x in list(v.items())))
        if isinstance(v, (set, frozenset)):
            return ('set', tuple(sorted(id(x) for x in list(v))))
        if isinstance(v, list):
            return ('list', tuple(id(x) for x in list(v)))
    except Exception:       # noqa
        return ('?', id(v))
    return None


def _fingerprint_object(v):
    """Mutable DEFAULT ARGUMENT values and the like: containers by content identity, instances of library classes by their
    attributes (a default `Profile()` or `sha1()` shared by every call is state carried between calls and between objects)."""
    sh = _shallow(v)
    if sh is not None:
        return sh
    mod = getattr(type(v), '__module__', '') or ''
    if mod == 'minecraft' or mod.startswith('minecraft.'):
        try:
            return ('obj', tuple(sorted((k, id(x)) for k, x in vars(v).items())))
        except TypeError:
            return None
    if mod in ('_hashlib', 'hashlib', '_sha1', '_sha2') or type(v).__name__ in ('HASH', 'sha1'):
        try:
            return ('hash', v.hexdigest())
        except Exception:      # noqa
            return None
    return None


def library_state():
    """Shared mutable state of the library: every dict / set / list bound at module level or at class level in a module of
    the package under verification.  A function under contract that changes any of it carries state from one call to the
    next (a cache, a registry, a table mutated in place) - outside the frame of every contract except initglobals'."""
    snap = {}
    for name, mod in list(sys.modules.items()):
        if mod is None or not (name == 'minecraft' or name.startswith('minecraft.')):
            continue
        import types as _types

        def defaults_of(f, where):
            f = getattr(f, '__func__', f)
            if isinstance(f, (staticmethod, classmethod)):
                f = f.__func__
            if not isinstance(f, _types.FunctionType):
                return
            for j, dv in enumerate((f.__defaults__ or ()) + tuple((f.__kwdefaults__ or {}).values())):
                fp = _fingerprint_object(dv)
                if fp is not None:
                    snap['%s [default argument %d]' % (where, j)] = fp
        for k, v in list(vars(mod).items()):
            if k.startswith('__'):
                continue
            sh = _shallow(v)
            if sh is not None:
                snap['%s.%s' % (name, k)] = sh
            elif isinstance(v, _types.FunctionType) and getattr(v, '__module__', None) == name:
                defaults_of(v, '%s.%s' % (name, k))
            elif isinstance(v, type) and getattr(v, '__module__', None) == name:
                # the NAMES bound at class level: an attribute that appears while the code runs (a per-class cache filled on
                # first use) is state too - and an inherited one is shared with every subclass
                snap['%s.%s [class attribute names]' % (name, v.__qualname__)] = \
                    ('names', tuple(sorted(ck for ck in vars(v) if not ck.startswith('__'))))
                for ck, cv in list(vars(v).items()):
                    if ck.startswith('__') and ck not in ('__init__', '__new__', '__call__'):
                        continue
                    sh = _shallow(cv)
                    if sh is not None:
                        snap['%s.%s.%s' % (name, v.__qualname__, ck)] = sh
                    else:
                        defaults_of(cv, '%s.%s.%s' % (name, v.__qualname__, ck))
    return snap


def run_unit(unit, tier, seed):
    res = UnitResult(unit)
    t0 = time.time()
    timeout = unit.timeout_ms or (20000 if tier == 'quick' else 120000)
    E = Engine(unit.name, timeout_ms=timeout, max_paths=unit.max_paths, seed=seed,
               cross_solver=(tier == 'thorough'))
    E.int_mode = unit.int_mode
    E.nonlinear_ok = getattr(unit, 'nonlinear_ok', False)
    E.branch_timeout_ms = getattr(unit, 'branch_timeout_ms', None)
    E.deadline = time.time() + (getattr(unit, 'wall_budget_s', None) or (150 if tier == 'quick' else 1800))
    I = Interp(E)
    unit.tier = tier
    unit.conformance_count = 0
    gone = _harness_fit(unit)
    if gone:
        # the harness of this unit names private attributes / methods of the library that the working tree no longer has
        # (renamed, inlined, removed): neither the proof part nor the bounded part can be trusted to exercise the code
        res.undecided.append('unsupported: the harness of this unit relies on private name(s) %s that no longer occur in the '
                             'library source (renamed or removed?)' % ', '.join(gone))
        res.obligations, res.paths, res.notes = [], 0, []
        res.functions_seen, res.solver_time, res.queries, res.hashes, res.conformance = {}, 0.0, 0, I.index.hashes(), 0
        res.wall = time.time() - t0
        return res
    state0 = library_state()

    def one_path(_E):
        I.tracked_frames = []
        out = unit.run(I)
        # frame condition of everything that is GIVEN a context: the context is an input, not a place to keep state
        # (seeded change C04-r9: the layout decision memoised on the ConnectionContext, which reconnects mutate in place)
        for what, obj, before in I.tracked_frames:
            now = dict(vars(obj))
            same = set(now) == set(before) and all(now[k] is before[k] for k in before)
            E.check('frame.%s-unchanged' % what, same, kind='frame',
                    note='the code under contract wrote %s on the %s it was given: state carried from one call to the next'
                         % (sorted(set(now) ^ set(before)) or sorted(k for k in before if k in now and now[k] is not before[k]), what))
        return out
    try:
        unit.setup(I)
        E.explore(one_path, on_path=lambda _E, rec: unit.on_path(I, rec))
    except Unsupported as e:
        res.undecided.append('unsupported: %s' % e)
        if os.environ.get('VERIF_DEBUG'):
            traceback.print_exc()
    except EngineError as e:
        res.errors.append('engine error: %s' % e)
    except PyRaise as e:
        res.errors.append('uncaught program exception escaped the unit harness: %r' % (e.exc,))
    except Exception as e:
        res.errors.append('checker crash: %s\n%s' % (e, traceback.format_exc()))
    if not getattr(unit, 'modifies_library_state', False) and not res.errors:
        state1 = library_state()
        changed = sorted(k for k in set(state0) | set(state1) if state0.get(k) != state1.get(k))
        from .engine import Obligation
        E.obligations.append(Obligation(unit.name, 'frame.library-state-unchanged', 0, FAILED if changed else DISCHARGED,
                                        'runtime-frame', 0.0, kind='frame',
                                        note=('shared module- / class-level state changed while the functions under contract '
                                              'ran: %s' % ', '.join(changed[:6])) if changed else
                                        'no module- or class-level container of the library was mutated by the functions under contract'))
    res.obligations = E.obligations
    res.paths = len(E.paths)
    res.notes = sorted(set(E.notes))
    res.functions_seen = dict(I.functions_seen)
    res.solver_time = E.solver_time
    res.queries = E.queries
    res.hashes = I.index.hashes()
    res.conformance = unit.conformance_count
    for o in E.obligations:
        if o.status == UNKNOWN:
            res.undecided.append('%s: %s' % (o.label, o.note))
    if not E.obligations and not res.undecided and not res.errors:
        res.errors.append('zero obligations generated')
    try:
        rng = random.Random(seed)
        # a unit whose proof part could not be decided gets the deepest bounded search available as a fallback
        # (still labelled bounded, never counted as proved; the unit stays undecided unless it finds a failure)
        deep = bool(res.undecided) and tier != 'thorough'
        res.bounded = unit.bounded(rng, 'thorough' if deep else tier)
        if deep and isinstance(res.bounded, dict):
            res.bounded['bound'] = (res.bounded.get('bound') or '') + ' [thorough-tier domain: the proof part was undecided]'
        if tier == 'thorough' and isinstance(res.bounded, dict) and not res.bounded.get('failures'):
            # thorough tier: the seeded parts of the bounded stand-in are repeated with two more seeds
            extra = 0
            for k in (1, 2):
                more = unit.bounded(random.Random(seed + 1000 * k), tier)
                if isinstance(more, dict):
                    extra += more.get('evaluations', 0)
                    if more.get('failures'):
                        res.bounded['failures'] = more['failures']
                        break
            res.bounded['evaluations'] = res.bounded.get('evaluations', 0) + extra
            res.bounded['bound'] = (res.bounded.get('bound') or '') + ' [x3 seeds]'
    except Exception as e:
        tb = traceback.extract_tb(e.__traceback__)
        inner = tb[-1].filename if tb else ''
        if inner.startswith(os.path.join(REPO, 'minecraft')):
            # the LIBRARY raised, in a call the harness makes on every run and that succeeds on the unchanged tree: that is
            # an observation about the code under test (undecided - the harness cannot say which property it breaks), not a
            # defect of the checker
            res.undecided.append('bounded stand-in: the library raised %r at %s:%d in a call that the harness makes unguarded'
                                 % (e, os.path.relpath(inner, REPO), tb[-1].lineno))
        else:
            res.errors.append('bounded stand-in crashed: %s\n%s' % (e, traceback.format_exc()))
    res.wall = time.time() - t0
    return res


_PRIVATE = None


def _harness_fit(unit):
    """Private names of the library that the unit's contract module mentions (recorded in contracts/private_names.json
    when the contracts were written) and that no longer occur anywhere in the library's source."""
    global _PRIVATE
    import re
    if _PRIVATE is None:
        try:
            names = json.load(open(os.path.join(ROOT, 'contracts', 'private_names.json')))
        except Exception:
            names = {}
        repo = os.environ.get('VERIF_REPO', '/repo')
        text = []
        for dp, dn, fn in os.walk(os.path.join(repo, 'minecraft')):
            for f in fn:
                if f.endswith('.py'):
                    try:
                        text.append(open(os.path.join(dp, f)).read())
                    except OSError:
                        pass
        _PRIVATE = (names, '\n'.join(text))
    names, text = _PRIVATE
    mods = {type(unit).__module__}
    for base in type(unit).__mro__:
        mods.add(base.__module__)
    gone = []
    for m in mods:
        for n in names.get(m, []):
            if n not in gone and not re.search(r'\b%s\b' % re.escape(n), text):
                gone.append(n)
    return sorted(gone)


def load_known_findings():
    p = os.path.join(ROOT, 'known_findings.json')
    if not os.path.exists(p):
        return {'known': [], 'fixed': []}
    with open(p) as f:
        return json.load(f)


def _jsonable(x):
    try:
        json.dumps(x)
        return x
    except TypeError:
        if isinstance(x, dict):
            return {str(k): _jsonable(v) for k, v in x.items()}
        if isinstance(x, (list, tuple)):
            return [_jsonable(v) for v in x]
        if isinstance(x, bytes):
            return {'bytes': x.hex()}
        return repr(x)


def _select_units(pid, tier, only):
    mod = importlib.import_module('contracts.%s' % pid.lower())
    units = [u for u in mod.units(tier) if tier in u.tiers]
    if only:
        units = [u for u in units if only in u.name]
    return mod, units


def _unit_summary(u, r, known):
    """Everything the parent needs from one unit, as plain data (computed in the worker process)."""
    obls = []
    for o in r.obligations:
        d = o.as_dict()
        if o.status == FAILED and o.kind not in ('cover', 'twin'):
            try:
                d['witness'] = u.witness_key(o.model or {}, o.label)
            except Exception:
                d['witness'] = None
            hit = any(k.get('unit') in (None, u.name) and k.get('label') in (None, o.label) and
                      (k.get('witness') is None or k.get('witness') == d['witness']) for k in known)
            if not hit and sum(1 for x in obls if x.get('replay') is not None and x['label'] == o.label) < 3:
                try:
                    d['replay'] = u.replay(o.model or {}, o.label)
                except Exception as e:
                    d['replay'] = dict(confirmed=False, call='replay crashed', observed='%s' % e)
        obls.append(d)
    return dict(name=u.name, functions=list(u.functions), trusted=list(u.trusted), uses=list(getattr(u, 'uses', ())),
                obligations=obls, paths=r.paths, undecided=r.undecided, errors=r.errors, notes=r.notes,
                functions_seen=r.functions_seen, solver_time=r.solver_time, queries=r.queries, wall=r.wall,
                hashes=r.hashes, conformance=r.conformance, bounded=_jsonable(r.bounded))


def _worker(args):
    pid, tier, seed, only, idx = args
    _mod, units = _select_units(pid, tier, only)
    known = [k for k in load_known_findings().get('known', []) if k['property'] == pid]
    u = units[idx]
    try:
        return _unit_summary(u, run_unit(u, tier, seed), known)
    except BaseException as e:      # never lose a unit silently
        return dict(name=u.name, functions=list(u.functions), trusted=[], uses=[], obligations=[], paths=0, undecided=[],
                    errors=['worker crashed: %r\n%s' % (e, traceback.format_exc())], notes=[], functions_seen={},
                    solver_time=0.0, queries=0, wall=0.0, hashes={}, conformance=0, bounded=None)


def _crashed(u, why):
    return dict(name=u.name, functions=list(u.functions), trusted=[], uses=[], obligations=[], paths=0, undecided=[],
                errors=[why], notes=[], functions_seen={}, solver_time=0.0, queries=0, wall=0.0, hashes={},
                conformance=0, bounded=None)


def _run_subprocesses(pid, tier, seed, only, units, jobs):
    """One worker PROCESS per unit (fresh interpreter, fresh z3 context), at most `jobs` at a time.  Workers write their
    summary as JSON and leave with os._exit, so that neither fork-time locks nor z3 finalisers can hang the check."""
    import subprocess
    import tempfile
    tmp = tempfile.mkdtemp(prefix='verif-units-')
    limit = 900 if tier == 'quick' else 7200
    pending = list(range(len(units)))
    running = {}
    results = [None] * len(units)
    env = dict(os.environ)
    try:
        while pending or running:
            while pending and len(running) < jobs:
                i = pending.pop(0)
                out = os.path.join(tmp, '%d.json' % i)
                cmd = [sys.executable, '-m', 'pyvc.driver', pid, '--tier', tier, '--worker', str(i), '--out', out]
                if only:
                    cmd += ['--only', only]
                running[i] = (subprocess.Popen(cmd, env=env, cwd=ROOT, stdout=subprocess.DEVNULL, stderr=subprocess.PIPE),
                              out, time.time())
            for i, (proc, out, t0) in list(running.items()):
                rc = proc.poll()
                if rc is None:
                    if time.time() - t0 > limit:
                        proc.kill()
                        results[i] = _crashed(units[i], 'worker exceeded %d s and was killed' % limit)
                        del running[i]
                    continue
                del running[i]
                try:
                    with open(out) as f:
                        results[i] = json.load(f)
                except Exception as e:
                    err = (proc.stderr.read() or b'').decode('utf-8', 'replace')[-1500:]
                    results[i] = _crashed(units[i], 'worker exit %r without a result: %s\n%s' % (rc, e, err))
            time.sleep(0.02)
    finally:
        import shutil
        shutil.rmtree(tmp, ignore_errors=True)
    return results


def run_property(pid, tier='quick', seed=0, only=None, jobs=None):
    t0 = time.time()
    mod, units = _select_units(pid, tier, only)
    known = [k for k in load_known_findings().get('known', []) if k['property'] == pid]
    jobs = jobs or int(os.environ.get('VERIF_JOBS', '0') or 0) or min(12, os.cpu_count() or 1)
    if jobs > 1 and len(units) > 1:
        results = _run_subprocesses(pid, tier, seed, only, units, jobs)
    else:
        results = [_worker((pid, tier, seed, only, i)) for i in range(len(units))]

    violations = []          # (unit name, functions, obligation dict or None, replay, witness)
    known_hits = []
    undecided, errors = [], []
    n_obl = n_dis = n_known_obl = 0
    samples, per_unit, bounded = [], [], []
    trusted, assumptions = set(), set()
    functions, hashes, backends = {}, {}, {}
    replay_dir = os.environ.get('VERIF_REPLAY_DIR') or os.path.join(ROOT, 'replays')
    os.makedirs(replay_dir, exist_ok=True)

    for r in results:
        name = r['name']
        trusted.update(r['trusted'])
        hashes.update(r['hashes'])
        for fn in r['functions']:
            functions[fn] = 'proved in %s' % name
        for fn, kind in r['functions_seen'].items():
            functions.setdefault(fn, {'interpreted': 'body executed symbolically (inlined)',
                                      'contract': 'used through its contract',
                                      'assumed': 'assumed contract (external)'}.get(kind, kind))
        assumptions.update(r['notes'])
        undecided.extend('%s: %s' % (name, x) for x in r['undecided'])
        errors.extend('%s: %s' % (name, x) for x in r['errors'])
        nviol_before = len(violations)
        guard_errors = []
        seen_fail = set()
        # a must-fail twin is a clause about the whole function: it is refuted if SOME path refutes it
        twin_refuted = {o['label'] for o in r['obligations'] if o['kind'] == 'twin' and o['status'] == DISCHARGED}
        for o in r['obligations']:
            if o['kind'] == 'twin' and o['status'] != DISCHARGED and o['label'] in twin_refuted:
                continue
            n_obl += 1
            backends[o['backend']] = backends.get(o['backend'], 0) + 1
            if o['status'] == DISCHARGED:
                n_dis += 1
                if len(samples) < 12 and o['kind'] == 'post' and not any(x['obligation'] == '%s:%s' % (name, o['label']) for x in samples):
                    samples.append(dict(obligation='%s:%s' % (name, o['label']), path=o['path'], status=o['status'],
                                        backend=o['backend'], time_s=o['time_s']))
            elif o['status'] == FAILED:
                if o['kind'] in ('cover', 'twin'):
                    guard_errors.append('%s: soundness guard %s failed (vacuity or twin not refuted)' % (name, o['label']))
                    continue
                wk = o.get('witness')
                hit = None
                for k in known:
                    if k.get('unit') in (None, name) and k.get('label') in (None, o['label']) and \
                            (k.get('witness') is None or k.get('witness') == wk):
                        hit = k
                        break
                if hit is not None:
                    known_hits.append(hit)
                    n_obl -= 1          # subtracted witness: the residual obligation is what is counted
                    n_known_obl += 1
                    continue
                dedup = (name, o['label'], wk)
                if dedup in seen_fail:
                    continue
                seen_fail.add(dedup)
                rp0 = o.get('replay') or {}
                if o['kind'] == 'frame' and not rp0.get('confirmed'):
                    # A frame obligation (the code wrote state it was only given to read) that fails WITHOUT a failing
                    # input: a cache may be perfectly correct - the contracts just cannot see whether it is invalidated
                    # when it must be.  Undecided, and the bounded part (which replays histories) decides.
                    undecided.append('%s: %s: frame condition not discharged and no failing input found (%s)'
                                     % (name, o['label'], (o.get('note') or '')[:160]))
                    n_obl -= 1
                    continue
                if o['kind'] == 'loop' and not rp0.get('confirmed'):
                    # An auxiliary loop obligation (invariant at entry / preserved / variant) that fails WITHOUT a failing
                    # input of the real code means "this invariant is not inductive for this code" - the contract does not
                    # fit, which is undecided, not a violation.  (With a replayed failing input it is reported as one.)
                    undecided.append('%s: %s: loop contract obligation not discharged and no failing input found (%s)'
                                     % (name, o['label'], (o.get('note') or '')[:120]))
                    n_obl -= 1
                    continue
                violations.append((name, r['functions'], o, o.get('replay') or dict(confirmed=False, call='(not replayed)', observed=''), wk))
        if len(violations) == nviol_before:
            errors.extend(sorted(set(guard_errors)))
        if r['bounded']:
            bounded.append(r['bounded'])
            nb = 0
            for f in r['bounded'].get('failures', []):
                hit = None
                for k in known:
                    if k.get('unit') in (None, name) and k.get('witness') == f.get('witness'):
                        hit = k
                if hit is not None:
                    known_hits.append(hit)
                elif nb < 2:
                    nb += 1
                    violations.append((name, r['functions'], None,
                                       dict(confirmed=True, call=f.get('call'), observed=f.get('observed')), f.get('witness')))
        per_unit.append(dict(unit=name, paths=r['paths'], obligations=len(r['obligations']),
                             discharged=sum(1 for o in r['obligations'] if o['status'] == DISCHARGED),
                             solver_s=round(r['solver_time'], 3), queries=r['queries'], wall_s=round(r['wall'], 3),
                             conformance_runs=r['conformance'], functions=r['functions'], uses=r['uses']))

    # ---- report ----------------------------------------------------------------
    lines = []
    printed_known = set()
    for hit in known_hits:
        kid = hit.get('id') or hit.get('what')
        if kid in printed_known:
            continue
        printed_known.add(kid)
        lines.append('KNOWN-FINDING: property=%s %s' % (pid, hit['what']))
    vcount = 0
    per_label = {}
    for i, (uname, ufuncs, o, rp, wk) in enumerate(violations):
        vcount += 1
        label = o['label'] if o is not None else 'bounded'
        per_label[(uname, label)] = per_label.get((uname, label), 0) + 1
        if per_label[(uname, label)] > 3:
            continue            # further witnesses of the same obligation are counted, not listed
        fname = os.path.join(replay_dir, '%s-%s-%s-%d.json' % (pid, uname.replace('/', '_'), _safe(label), i))
        doc = dict(property=pid, unit=uname, obligation=label, functions=ufuncs,
                   solver=dict(status='sat (counter-model)' if o is not None else 'concrete failing input',
                               backend=o['backend'] if o is not None else 'cpython',
                               model=_jsonable(o['model']) if o is not None else None,
                               note=o['note'] if o is not None else ''),
                   witness=wk, replay=_jsonable(rp),
                   rerun='cd /verif && ./check %s --tier %s --only %s' % (pid, tier, uname))
        with open(fname, 'w') as f:
            json.dump(doc, f, indent=1, default=repr)
        tail = '' if rp and rp.get('confirmed') else ' no-failing-input-found'
        lines.append('VIOLATION property=%s replay=%s obligation=%s:%s%s' % (pid, fname, uname, label, tail))

    status = 0
    if vcount:
        status = 1
    elif errors:
        status = 3
    elif undecided:
        status = 2

    wall = time.time() - t0
    ev = dict(
        property_id=pid, tier=tier, seed=seed, level='proof',
        coverage=dict(
            obligations=n_obl, discharged=n_dis,
            checker_cmd='./check %s --tier %s' % (pid, tier),
            trusted_base=sorted(trusted),
            functions_under_contract=functions,
            units=per_unit,
            backends=backends,
            solver_s=round(sum(r['solver_time'] for r in results), 3),
            parallel_jobs=jobs,
            samples=samples or [dict(note='no discharged post obligation to sample')],
            bounded=bounded,
            known_findings=sorted({h['what'] for h in known_hits}),
            known_finding_witnesses_subtracted=n_known_obl,
            undecided=undecided, errors=errors,
            source_sha256={os.path.relpath(k, REPO) if k.startswith(REPO) else k: v for k, v in hashes.items()},
            exhaustive=False,
        ),
        assumptions=sorted(assumptions | set(getattr(mod, 'ASSUMPTIONS', []))),
        wall_s=round(wall, 3),
        violations=vcount,
    )
    evdir = os.environ.get('VERIF_EVIDENCE_DIR') or os.path.join(ROOT, 'evidence')
    os.makedirs(evdir, exist_ok=True)
    with open(os.path.join(evdir, '%s.json' % pid), 'w') as f:
        json.dump(ev, f, indent=1, default=repr)

    for l in lines:
        print(l)
    for x in undecided:
        print('UNDECIDED %s' % x)
    for x in errors:
        print('CHECKER-ERROR %s' % x)
    print('%s tier=%s units=%d obligations=%d discharged=%d violations=%d known=%d undecided=%d errors=%d wall=%.1fs'
          % (pid, tier, len(units), n_obl, n_dis, vcount, len(printed_known), len(undecided), len(errors), wall))
    return status


def _safe(s):
    return ''.join(c if c.isalnum() or c in '._-' else '_' for c in s)[:60]


def main(argv=None):
    import argparse
    ap = argparse.ArgumentParser()
    ap.add_argument('property')
    ap.add_argument('--tier', default=os.environ.get('VERIF_TIER', 'quick'))
    ap.add_argument('--only', default=None)
    ap.add_argument('--replay', default=None)
    ap.add_argument('--worker', type=int, default=None)
    ap.add_argument('--out', default=None)
    a = ap.parse_args(argv)
    seed = int(os.environ.get('VERIF_SEED', '0') or 0)
    if a.worker is not None:
        res = _worker((a.property, a.tier, seed, a.only, a.worker))
        with open(a.out, 'w') as f:
            json.dump(res, f, default=repr)
        return 0
    if a.replay:
        with open(a.replay) as f:
            doc = json.load(f)
        print(json.dumps(doc, indent=1))
        return run_property(doc['property'], a.tier, seed, only=doc['unit'])
    return run_property(a.property, a.tier, seed, only=a.only)


if __name__ == '__main__':
    rc = main()
    sys.stdout.flush()
    sys.stderr.flush()
    os._exit(rc)        # skip interpreter finalisation: z3 finalisers can hang at shutdown
