"""Loop contracts: inductive invariant + variant for loops that are not unrolled."""
from .engine import PathEnd
from .interp import _Break, _Continue


class LoopSpec(object):
    """
    invariant(I, frame) -> bool-ish   : must hold at every loop head
    variant(I, frame)   -> SInt       : integer, >= 0 at the head, strictly decreasing on every back edge
    havoc(I, frame)                   : replace every variable the loop modifies by a fresh value
    label                             : obligation name prefix
    """

    def __init__(self, label, invariant, havoc, variant=None):
        self.label = label
        self.invariant = invariant
        self.variant = variant
        self.havoc = havoc

    def run(self, I, node, frame):
        import ast
        E = I.E
        E.notes.append('loop contract %s (invariant%s)' % (self.label, ' + variant' if self.variant else ''))
        E.check('%s.inv-entry' % self.label, self.invariant(I, frame), kind='loop')
        self.havoc(I, frame)
        E.assume(self.invariant(I, frame))
        is_while = isinstance(node, ast.While)
        if not is_while:
            raise NotImplementedError('LoopSpec for "for" loops is provided by ForSpec')
        it = E.new_bool('%s.iterate' % self.label)
        if E.decide(it.t):
            # an arbitrary iteration
            if not I.truth(I.eval(node.test, frame)):
                raise PathEnd('guard false in iteration branch')
            v0 = self.variant(I, frame) if self.variant else None
            try:
                I.exec_block(node.body, frame)
            except _Break:
                return
            except _Continue:
                pass
            E.check('%s.inv-preserved' % self.label, self.invariant(I, frame), kind='loop')
            if v0 is not None:
                v1 = self.variant(I, frame)
                E.check('%s.variant-bounded' % self.label, v0 >= 0, kind='loop')
                E.check('%s.variant-decreases' % self.label, v1 < v0, kind='loop')
            raise PathEnd('loop body verified')
        else:
            if I.truth(I.eval(node.test, frame)):
                raise PathEnd('guard true in exit branch')
            I.exec_block(node.orelse, frame)
