"""Loop contracts: inductive invariant + variant for loops that are not unrolled."""
from .engine import PathEnd
from .interp import _Break, _Continue


def _assigned_names(nodes):
    import ast
    out = set()
    for n in nodes:
        for x in ast.walk(n):
            if isinstance(x, ast.Name) and isinstance(x.ctx, (ast.Store, ast.Del)):
                out.add(x.id)
    return out


def _live_at_head(nodes, name):
    """False only if every iteration certainly overwrites `name` before reading it: its first occurrence (in source
    order, loop test included) is a plain store in a top-level statement of the loop body."""
    import ast
    occ = []
    for top in nodes:
        if isinstance(top, (ast.While, ast.For)):
            tests = [top.test] if isinstance(top, ast.While) else [top.iter]
            for t in tests:
                for x in ast.walk(t):
                    if isinstance(x, ast.Name) and x.id == name:
                        return True
            stmts = top.body
        else:
            stmts = [top]
        for st in stmts:
            simple = isinstance(st, (ast.Assign, ast.AnnAssign)) and not isinstance(st, ast.AugAssign)
            for x in ast.walk(st):
                if isinstance(x, ast.Name) and x.id == name:
                    is_store = isinstance(x.ctx, ast.Store) and simple and any(
                        isinstance(t, ast.Name) and t.id == name for t in (st.targets if isinstance(st, ast.Assign) else [st.target]))
                    occ.append(((x.lineno, x.col_offset), is_store, st))
    if not occ:
        return False
    # an assignment evaluates its right-hand side first: a load of the name in the same statement makes it live
    first_stmt = min(occ, key=lambda o: o[0])[2]
    in_first = [o for o in occ if o[2] is first_stmt]
    return not all(o[1] for o in in_first)


def _fit(label, fn, *a):
    """Run a contract callback; a contract that refers to names the code no longer has does not fit the code any
    more - that is 'undecided', never a crash and never a pass."""
    from .values import Unsupported
    try:
        return fn(*a)
    except (KeyError, AttributeError, IndexError, TypeError) as e:
        raise Unsupported('loop contract %s does not fit the code any more (%s: %s)' % (label, type(e).__name__, e))


def _havoc_checked(label, havoc, I, frame, body, *a):
    """Frame condition of the contract: every local the loop body assigns and that is live at the loop head must be
    replaced by the havoc step (otherwise its pre-loop value would be used as if the loop never changed it)."""
    from .values import Unsupported
    names = {k for k in _assigned_names(body) if _live_at_head(body, k)}
    before = {k: frame.locals[k] for k in names if k in frame.locals}
    _fit(label, havoc, I, frame, *a)
    kept = getattr(havoc, 'keeps', ())
    stale = sorted(k for k, v in before.items() if frame.locals.get(k) is v and k not in kept
                   and not isinstance(v, (type(None), bool)) )
    if stale:
        raise Unsupported('loop contract %s: the loop assigns %s but the contract does not havoc it' % (label, ', '.join(stale)))


class LoopSpec(object):
    """
    invariant(I, frame) -> bool-ish   : must hold at every loop head
    variant(I, frame)   -> SInt       : integer, >= 0 at the head, strictly decreasing on every back edge
    havoc(I, frame)                   : replace every variable the loop modifies by a fresh value
    label                             : obligation name prefix
    """

    def __init__(self, label, invariant, havoc, variant=None):
        self.label = label
        self.invariant = invariant
        self.variant = variant
        self.havoc = havoc

    def run(self, I, node, frame):
        import ast
        E = I.E
        E.notes.append('loop contract %s (invariant%s)' % (self.label, ' + variant' if self.variant else ''))
        self.assigned = _assigned_names(node.body)       # for contracts that look for loop-carried locals by role
        E.check('%s.inv-entry' % self.label, _fit(self.label, self.invariant, I, frame), kind='loop')
        _havoc_checked(self.label, self.havoc, I, frame, [node])
        E.assume(_fit(self.label, self.invariant, I, frame))
        is_while = isinstance(node, ast.While)
        if not is_while:
            raise NotImplementedError('LoopSpec for "for" loops is provided by ForSpec')
        it = E.new_bool('%s.iterate' % self.label)
        if E.decide(it.t):
            # an arbitrary iteration (the variant is sampled at the loop head, before the guard, which may have effects)
            v0 = _fit(self.label, self.variant, I, frame) if self.variant else None
            if not I.truth(I.eval(node.test, frame)):
                raise PathEnd('guard false in iteration branch')
            try:
                I.exec_block(node.body, frame)
            except _Break:
                return
            except _Continue:
                pass
            E.check('%s.inv-preserved' % self.label, _fit(self.label, self.invariant, I, frame), kind='loop')
            if v0 is not None:
                v1 = _fit(self.label, self.variant, I, frame)
                E.check('%s.variant-bounded' % self.label, v0 >= 0, kind='loop')
                E.check('%s.variant-decreases' % self.label, v1 < v0, kind='loop')
            raise PathEnd('loop body verified')
        else:
            if I.truth(I.eval(node.test, frame)):
                raise PathEnd('guard true in exit branch')
            I.exec_block(node.orelse, frame)


class ForSpec(object):
    """Contract for `for target in iterable:` over a sequence of SYMBOLIC length.

    length(I, iterable)      -> SInt / int      number of elements n
    element(I, iterable, j)  -> value            the j-th element (abstract)
    invariant(I, frame, j)   -> bool-ish         holds before the iteration with index j (0 <= j <= n)
    havoc(I, frame, j)                           make everything the loop modifies arbitrary (j: the index reached)

    Verification scheme: invariant(0) on entry; for an ARBITRARY index 0 <= j < n assume invariant(j), run the
    body once on element j, check invariant(j + 1); after the loop assume invariant(n).  `break`, `return` and
    exceptions leave from the arbitrary iteration with the state reached there.  Termination: n - j.
    """

    def __init__(self, label, length, element, invariant, havoc):
        self.label, self.length, self.element = label, length, element
        self.invariant, self.havoc = invariant, havoc

    def run(self, I, node, frame):
        E = I.E
        it = I.eval(node.iter, frame)
        n = self.length(I, it)
        E.notes.append('loop contract %s (for-loop invariant over the element index)' % self.label)
        E.check('%s.inv-entry' % self.label, _fit(self.label, self.invariant, I, frame, 0), kind='loop')
        b = E.new_bool('%s.iterate' % self.label)
        if E.decide(b.t):
            j = E.new_int('%s.j' % self.label, 0, None)
            E.assume(j < n)
            _havoc_checked(self.label, self.havoc, I, frame, node.body, j)
            E.assume(_fit(self.label, self.invariant, I, frame, j))
            I.assign(node.target, self.element(I, it, j), frame)
            try:
                I.exec_block(node.body, frame)
            except _Break:
                return
            except _Continue:
                pass
            E.check('%s.inv-preserved' % self.label, _fit(self.label, self.invariant, I, frame, j + 1), kind='loop')
            raise PathEnd('loop body verified')
        _havoc_checked(self.label, self.havoc, I, frame, node.body, n)
        E.assume(_fit(self.label, self.invariant, I, frame, n))
        I.exec_block(node.orelse, frame)


class CompSpec(object):
    """Contract for a list comprehension `[elt for target in iterable]` over an iterable of SYMBOLIC length.

    length(I, iterable) -> n;  element(I, iterable, j) -> j-th item;  invariant(I, frame, j);  havoc(I, frame, j);
    produced(I, j, value): called with the value computed for index j (record / check it);
    result(I, n) -> the abstract list standing for the comprehension's value after n elements.
    Scheme as for ForSpec: invariant(0); arbitrary 0 <= j < n: assume invariant(j), evaluate the element expression
    once, check invariant(j+1); afterwards assume invariant(n) and continue with result(n).
    """

    def __init__(self, label, length, element, invariant, havoc, produced, result):
        self.label, self.length, self.element = label, length, element
        self.invariant, self.havoc, self.produced, self.result = invariant, havoc, produced, result

    def run_comp(self, I, node, frame):
        from .interp import Frame
        E = I.E
        if len(node.generators) != 1 or node.generators[0].ifs:
            from .values import Unsupported
            raise Unsupported('comprehension contract needs a single generator without conditions')
        g = node.generators[0]
        it = I.eval(g.iter, frame)
        n = self.length(I, it)
        E.notes.append('comprehension contract %s (invariant over the element index)' % self.label)
        E.check('%s.inv-entry' % self.label, self.invariant(I, frame, 0), kind='loop')
        b = E.new_bool('%s.iterate' % self.label)
        if E.decide(b.t):
            j = E.new_int('%s.j' % self.label, 0, None)
            E.assume(j < n)
            self.havoc(I, frame, j)
            E.assume(self.invariant(I, frame, j))
            fr = Frame(frame.globals, frame, frame.qualname)
            I.assign(g.target, self.element(I, it, j), fr)
            v = I.eval(node.elt, fr)
            self.produced(I, j, v)
            E.check('%s.inv-preserved' % self.label, self.invariant(I, frame, j + 1), kind='loop')
            raise PathEnd('comprehension element verified')
        self.havoc(I, frame, n)
        E.assume(self.invariant(I, frame, n))
        return self.result(I, n)
