"""Loop contracts: inductive invariant + variant for loops that are not unrolled."""
from .engine import PathEnd
from .interp import _Break, _Continue


def _assigned_names(nodes):
    import ast
    out = set()
    for n in nodes:
        for x in ast.walk(n):
            if isinstance(x, ast.Name) and isinstance(x.ctx, (ast.Store, ast.Del)):
                out.add(x.id)
    return out


def _names(node, name, ctx):
    import ast
    return any(isinstance(x, ast.Name) and x.id == name and isinstance(x.ctx, ctx) for x in ast.walk(node))


def _rbw(stmts, name):
    """'read': the name may be read before it is written; 'written': on every path it is written before any read;
    'none': neither happens in these statements.  (Definite assignment, conservative for compound statements.)"""
    import ast
    for st in stmts:
        if isinstance(st, (ast.Assign, ast.AnnAssign)):
            val = st.value
            if val is not None and _names(val, name, ast.Load):
                return 'read'
            targets = st.targets if isinstance(st, ast.Assign) else [st.target]
            for t in targets:
                if isinstance(t, ast.Name):
                    if t.id == name:
                        return 'written'
                elif _names(t, name, ast.Load):
                    return 'read'
                elif _names(t, name, ast.Store):
                    return 'written'            # tuple target
            continue
        if isinstance(st, ast.AugAssign):
            if _names(st, name, (ast.Load, ast.Store)):
                return 'read'
            continue
        if isinstance(st, ast.If):
            if _names(st.test, name, ast.Load):
                return 'read'
            a, b = _rbw(st.body, name), _rbw(st.orelse, name)
            if 'read' in (a, b):
                return 'read'
            if a == b == 'written':
                return 'written'
            if 'written' in (a, b):
                # written on one branch only: a later read may see the old value
                rest = stmts[stmts.index(st) + 1:]
                return 'read' if any(_names(r, name, ast.Load) for r in rest) else 'none'
            continue
        if isinstance(st, ast.With):
            if any(_names(it.context_expr, name, ast.Load) for it in st.items):
                return 'read'
            r = _rbw(st.body, name)
            if r != 'none':
                return r
            continue
        # loops, try, anything else: conservative
        if _names(st, name, ast.Load):
            return 'read'
        if _names(st, name, (ast.Store, ast.Del)):
            rest = stmts[stmts.index(st) + 1:]
            return 'read' if any(_names(r, name, ast.Load) for r in rest) else 'none'
    return 'none'


def _read_outside(nodes, name):
    """The name is read somewhere in the enclosing function outside this loop (so its value after the loop matters)."""
    import ast
    loops = [n for n in nodes if isinstance(n, (ast.For, ast.While))]
    if len(loops) != 1 or not hasattr(loops[0], '_pyvc_func'):
        return False
    loop = loops[0]
    inside = {id(x) for x in ast.walk(loop)}
    return any(isinstance(x, ast.Name) and x.id == name and isinstance(x.ctx, ast.Load) and id(x) not in inside
               for x in ast.walk(loop._pyvc_func))


def _live_at_head(nodes, name):
    """False only if every iteration certainly overwrites `name` before reading it."""
    import ast
    for top in nodes:
        if isinstance(top, ast.While):
            if _names(top.test, name, ast.Load):
                return True
            return _rbw(top.body, name) != 'written'
        if isinstance(top, ast.For):
            if _names(top.iter, name, ast.Load):
                return True
            if _names(top.target, name, ast.Store):
                return False
            return _rbw(top.body, name) != 'written'
    # a plain statement list (the body of a for loop handled by ForSpec)
    return _rbw(list(nodes), name) != 'written'


def _fit(label, fn, *a):
    """Run a contract callback; a contract that refers to names the code no longer has does not fit the code any
    more - that is 'undecided', never a crash and never a pass."""
    from .values import Unsupported
    try:
        return fn(*a)
    except (KeyError, AttributeError, IndexError, TypeError) as e:
        raise Unsupported('loop contract %s does not fit the code any more (%s: %s)' % (label, type(e).__name__, e))


def _havoc_checked(label, havoc, I, frame, body, *a):
    """Frame condition of the contract: every local the loop body assigns and that is live at the loop head must be
    replaced by the havoc step (otherwise its pre-loop value would be used as if the loop never changed it)."""
    from .values import Unsupported
    names = {k for k in _assigned_names(body) if _live_at_head(body, k) or _read_outside(body, k)}
    before = {k: frame.locals[k] for k in names if k in frame.locals}
    _fit(label, havoc, I, frame, *a)
    kept = getattr(havoc, 'keeps', ())
    stale = sorted(k for k, v in before.items() if frame.locals.get(k) is v and k not in kept
                   and not isinstance(v, (type(None), bool)) )
    if stale:
        raise Unsupported('loop contract %s: the loop assigns %s but the contract does not havoc it' % (label, ', '.join(stale)))


class LoopSpec(object):
    """
    invariant(I, frame) -> bool-ish   : must hold at every loop head
    variant(I, frame)   -> SInt       : integer, >= 0 at the head, strictly decreasing on every back edge
    havoc(I, frame)                   : replace every variable the loop modifies by a fresh value
    label                             : obligation name prefix
    """

    def __init__(self, label, invariant, havoc, variant=None):
        self.label = label
        self.invariant = invariant
        self.variant = variant
        self.havoc = havoc

    def run_for_range(self, I, node, frame):
        """The same contract for the loop written as `for x in range(a, b)`: the hidden position c runs from a to b;
        invariant callbacks can read it as frame.locals['$counter'] / frame.locals['$start']; termination is by
        construction (b - c), so the contract's own variant is not consulted."""
        import ast
        from .values import Unsupported, SInt
        from .builtins_model import SymRange
        E = I.E
        rng = I.eval(node.iter, frame)
        if isinstance(rng, range) and rng.step == 1:
            a, b = rng.start, rng.stop
        elif isinstance(rng, SymRange):
            a, b = rng.start, rng.n
        else:
            raise Unsupported('loop contract %s: for loop over %s (only range(a, b) is supported)' % (self.label, type(rng).__name__))
        E.notes.append('loop contract %s (invariant; for-over-range form, termination by construction)' % self.label)
        self.assigned = _assigned_names(node.body)
        self.live = {k for k in self.assigned if _live_at_head([node], k)}
        frame.locals['$start'], frame.locals['$counter'] = a, a
        E.check('%s.inv-entry' % self.label, _fit(self.label, self.invariant, I, frame), kind='loop')
        _havoc_checked(self.label, self.havoc, I, frame, [node])
        c = E.new_int('%s.position' % self.label)
        E.assume(c >= a)
        frame.locals['$counter'] = c
        E.assume(_fit(self.label, self.invariant, I, frame))
        if E.decide(E.new_bool('%s.iterate' % self.label).t):
            E.assume(c < b)
            I.assign(node.target, c, frame)
            frame.locals['$counter'] = c + 1
            try:
                I.exec_block(node.body, frame)
            except _Break:
                return
            except _Continue:
                pass
            E.check('%s.inv-preserved' % self.label, _fit(self.label, self.invariant, I, frame), kind='loop')
            raise PathEnd('loop body verified')
        E.assume(c >= b)
        I.exec_block(node.orelse, frame)

    def run(self, I, node, frame):
        import ast
        if isinstance(node, ast.For):
            return self.run_for_range(I, node, frame)
        E = I.E
        E.notes.append('loop contract %s (invariant%s)' % (self.label, ' + variant' if self.variant else ''))
        self.assigned = _assigned_names(node.body)       # for contracts that look for loop-carried locals by role
        self.live = {k for k in self.assigned if _live_at_head([node], k)}
        E.check('%s.inv-entry' % self.label, _fit(self.label, self.invariant, I, frame), kind='loop')
        _havoc_checked(self.label, self.havoc, I, frame, [node])
        E.assume(_fit(self.label, self.invariant, I, frame))
        is_while = isinstance(node, ast.While)
        if not is_while:
            raise NotImplementedError('internal: for loops go through run_for_range')
        it = E.new_bool('%s.iterate' % self.label)
        if E.decide(it.t):
            # an arbitrary iteration (the variant is sampled at the loop head, before the guard, which may have effects)
            v0 = _fit(self.label, self.variant, I, frame) if self.variant else None
            if not I.truth(I.eval(node.test, frame)):
                raise PathEnd('guard false in iteration branch')
            try:
                I.exec_block(node.body, frame)
            except _Break:
                return
            except _Continue:
                pass
            E.check('%s.inv-preserved' % self.label, _fit(self.label, self.invariant, I, frame), kind='loop')
            if v0 is not None:
                v1 = _fit(self.label, self.variant, I, frame)
                E.check('%s.variant-bounded' % self.label, v0 >= 0, kind='loop')
                E.check('%s.variant-decreases' % self.label, v1 < v0, kind='loop')
            raise PathEnd('loop body verified')
        else:
            if I.truth(I.eval(node.test, frame)):
                raise PathEnd('guard true in exit branch')
            I.exec_block(node.orelse, frame)


class ForSpec(object):
    """Contract for `for target in iterable:` over a sequence of SYMBOLIC length.

    length(I, iterable)      -> SInt / int      number of elements n
    element(I, iterable, j)  -> value            the j-th element (abstract)
    invariant(I, frame, j)   -> bool-ish         holds before the iteration with index j (0 <= j <= n)
    havoc(I, frame, j)                           make everything the loop modifies arbitrary (j: the index reached)

    Verification scheme: invariant(0) on entry; for an ARBITRARY index 0 <= j < n assume invariant(j), run the
    body once on element j, check invariant(j + 1); after the loop assume invariant(n).  `break`, `return` and
    exceptions leave from the arbitrary iteration with the state reached there.  Termination: n - j.
    """

    def __init__(self, label, length, element, invariant, havoc):
        self.label, self.length, self.element = label, length, element
        self.invariant, self.havoc = invariant, havoc

    def run(self, I, node, frame):
        E = I.E
        it = I.eval(node.iter, frame)
        n = self.length(I, it)
        E.notes.append('loop contract %s (for-loop invariant over the element index)' % self.label)
        E.check('%s.inv-entry' % self.label, _fit(self.label, self.invariant, I, frame, 0), kind='loop')
        b = E.new_bool('%s.iterate' % self.label)
        if E.decide(b.t):
            j = E.new_int('%s.j' % self.label, 0, None)
            E.assume(j < n)
            _havoc_checked(self.label, self.havoc, I, frame, node.body, j)
            E.assume(_fit(self.label, self.invariant, I, frame, j))
            I.assign(node.target, self.element(I, it, j), frame)
            try:
                I.exec_block(node.body, frame)
            except _Break:
                return
            except _Continue:
                pass
            E.check('%s.inv-preserved' % self.label, _fit(self.label, self.invariant, I, frame, j + 1), kind='loop')
            raise PathEnd('loop body verified')
        _havoc_checked(self.label, self.havoc, I, frame, node.body, n)
        E.assume(_fit(self.label, self.invariant, I, frame, n))
        I.exec_block(node.orelse, frame)


class CompSpec(object):
    """Contract for a list comprehension `[elt for target in iterable]` over an iterable of SYMBOLIC length.

    length(I, iterable) -> n;  element(I, iterable, j) -> j-th item;  invariant(I, frame, j);  havoc(I, frame, j);
    produced(I, j, value): called with the value computed for index j (record / check it);
    result(I, n) -> the abstract list standing for the comprehension's value after n elements.
    Scheme as for ForSpec: invariant(0); arbitrary 0 <= j < n: assume invariant(j), evaluate the element expression
    once, check invariant(j+1); afterwards assume invariant(n) and continue with result(n).
    """

    def __init__(self, label, length, element, invariant, havoc, produced, result):
        self.label, self.length, self.element = label, length, element
        self.invariant, self.havoc, self.produced, self.result = invariant, havoc, produced, result

    def run_comp(self, I, node, frame):
        from .interp import Frame
        E = I.E
        if len(node.generators) != 1 or node.generators[0].ifs:
            from .values import Unsupported
            raise Unsupported('comprehension contract needs a single generator without conditions')
        g = node.generators[0]
        it = I.eval(g.iter, frame)
        n = self.length(I, it)
        E.notes.append('comprehension contract %s (invariant over the element index)' % self.label)
        E.check('%s.inv-entry' % self.label, self.invariant(I, frame, 0), kind='loop')
        b = E.new_bool('%s.iterate' % self.label)
        if E.decide(b.t):
            j = E.new_int('%s.j' % self.label, 0, None)
            E.assume(j < n)
            self.havoc(I, frame, j)
            E.assume(self.invariant(I, frame, j))
            fr = Frame(frame.globals, frame, frame.qualname)
            I.assign(g.target, self.element(I, it, j), fr)
            v = I.eval(node.elt, fr)
            self.produced(I, j, v)
            E.check('%s.inv-preserved' % self.label, self.invariant(I, frame, j + 1), kind='loop')
            raise PathEnd('comprehension element verified')
        self.havoc(I, frame, n)
        E.assume(self.invariant(I, frame, n))
        return self.result(I, n)
