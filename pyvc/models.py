"""Ghost models of streams, sockets and buffers (assumed contracts S1 of DESIGN.md §5).

These objects stand in for sockets / file objects / io.BytesIO while the real
pyCraft functions are interpreted.  Their methods are the *assumed contracts*
of the external objects; they are listed as such in every evidence file.
"""
import z3

from .values import SBytes, SInt, SBool, Blob, Unsupported, is_symbolic, mk_bool, And, Not


def _alen(a):
    if isinstance(a, bytes):
        return len(a)
    if isinstance(a, tuple):
        return 1
    return a.length


def slice_blob(b, lo, hi):
    """Sub-range [lo, hi) of a blob, as a blob."""
    def tt(x):
        return x.t if isinstance(x, SInt) else x
    base = b
    if b.key[0] == 'slice' and b.base is not None:
        # a slice of a slice is a slice of the base
        base = b.base
        off = b.key[2]
        off = SInt(off) if not isinstance(off, int) else off
        lo2, hi2 = off + lo, off + hi
        return Blob(('slice', base.key, tt(lo2), tt(hi2)), hi - lo, base=base)
    return Blob(('slice', b.key, tt(lo), tt(hi)), hi - lo, base=base)


class ByteReader(object):
    """Cursor over an SBytes value; implements read(n) for concrete and symbolic n."""

    def __init__(self, data=None):
        self.rest = list(SBytes.of(data).atoms) if data is not None else []
        self.consumed_atoms = 0

    def remaining(self):
        return SBytes(self.rest)

    def skip_empty(self, I):
        """Drop leading blobs whose length is zero on the current path (they denote no bytes)."""
        while self.rest and isinstance(self.rest[0], Blob) and not isinstance(self.rest[0].length, int):
            ln = self.rest[0].length
            if ln.lo is not None and ln.lo > 0:
                break                      # syntactically non-empty: no solver call needed
            if not I.E.implied(ln == 0):
                break
            self.rest.pop(0)

    def take(self, I, n):
        rest = self.rest
        out = []
        if n is None:
            out, self.rest = rest, []
            return SBytes(out)
        if isinstance(n, SBool):
            raise Unsupported('read(bool)')
        if isinstance(n, int) and n < 0:
            out, self.rest = rest, []
            return SBytes(out)
        if isinstance(n, SInt) and I.truth(n < 0):
            out, self.rest = rest, []
            return SBytes(out)
        need = n
        while rest:
            if isinstance(need, int):
                if need == 0:
                    break
            elif I.truth(need == 0):
                break
            a = rest[0]
            la = _alen(a)
            if isinstance(need, int) and isinstance(la, int):
                if la <= need:
                    out.append(rest.pop(0))
                    need -= la
                else:
                    if isinstance(a, bytes):
                        out.append(a[:need])
                        rest[0] = a[need:]
                    else:
                        out.append(slice_blob(a, 0, need))
                        rest[0] = slice_blob(a, need, la)
                    need = 0
                continue
            # symbolic comparison
            if I.truth(need >= la):
                out.append(rest.pop(0))
                need = need - la
            else:
                if isinstance(a, Blob):
                    out.append(slice_blob(a, 0, need))
                    rest[0] = slice_blob(a, need, la)
                elif isinstance(a, bytes):
                    # symbolic split inside a literal: enumerate the cut
                    for k in range(1, len(a)):
                        if I.truth(need == k):
                            out.append(a[:k])
                            rest[0] = a[k:]
                            break
                    else:
                        raise Unsupported('symbolic cut inside a literal')
                else:
                    raise Unsupported('symbolic cut inside a single byte')
                need = 0
                break
        r = SBytes(out)
        return r.concrete() if r.is_concrete() else r


class OutSocket(object):
    """Ghost socket: records what is handed to send(), in order."""

    def __init__(self):
        self.out = SBytes()
        self.sends = []

    def send(self, data):
        if isinstance(data, bytearray):
            data = bytes(data)
        data = SBytes.of(data)
        self.sends.append(data)
        self.out = self.out + data

    def __repr__(self):
        return 'OutSocket(%r)' % (self.out,)


class RaisingSocket(OutSocket):
    """A socket whose send() always fails (abstract I/O failure)."""

    def send(self, data):
        raise IOError('send failed')


class InStream(object):
    """Ghost file object over a fixed SBytes content (BytesIO-like: short only at end)."""

    def __init__(self, I, data):
        self.I = I
        self.reader = ByteReader(data)
        self.reads = 0
        self.read_log = []

    def read(self, n=None):
        self.reads += 1
        r = self.reader.take(self.I, n)
        self.read_log.append((n, r))
        return r

    def remaining(self):
        return self.reader.remaining()


class ArbitraryStream(object):
    """Ghost file object over an *arbitrary* byte stream of symbolic total length.

    Contract S1 (blocking file object): read(n) returns k = min(n, total - cursor)
    bytes; bytes are fresh symbols s[cursor]; once the end is reached every
    further read returns b''.
    """

    def __init__(self, I, name='s', total=None, short_reads=False):
        self.I = I
        self.E = I.E
        self.name = name
        self.total = total if total is not None else self.E.new_int(name + '.total', 0, (1 << 31) - 1)
        self.cursor = 0              # concrete: bytes consumed so far on this path
        self.reads = 0
        self.bytes = []              # the byte atoms produced so far
        self.eof_seen = False
        self.log = []

    def read(self, n=None):
        self.reads += 1
        if not isinstance(n, int) or n < 0:
            raise Unsupported('ArbitraryStream.read with a symbolic or unbounded count')
        out = []
        for _ in range(n):
            if self.eof_seen:
                break
            if self.I.truth(self.total > self.cursor):
                b = ('byte', z3.BitVec('%s[%d]' % (self.name, self.cursor), 8))
                self.bytes.append(b)
                out.append(b)
                self.cursor += 1
            else:
                self.eof_seen = True
        r = SBytes(out)
        self.log.append((n, len(out)))
        return r


class GhostBufferView(object):
    """What BytesIO.getbuffer() returns: a live view that pins the buffer (no resizing write while it is exported)."""

    def __init__(self, owner):
        self.owner = owner
        self.released = False

    def release(self):
        if not self.released:
            self.released = True
            self.owner.exports -= 1

    def tobytes(self):
        return self.owner.content


class SymBytesIO(object):
    """Model of io.BytesIO restricted to the operations PacketBuffer uses:
    write (append at the end while the cursor is at the end), read, seek(0), getvalue, tell, getbuffer."""

    def __init__(self, I, initial=b''):
        self.I = I
        self.content = SBytes.of(initial)
        self.reader = None           # None: cursor at end (append mode)
        self.exports = 0

    def tell(self):
        n = self.content.length()
        if self.reader is None:
            return n
        return n - self.reader.remaining().length()

    def getbuffer(self):
        self.exports += 1
        return GhostBufferView(self)

    def write(self, value):
        value = SBytes.of(value)
        if self.exports:
            raise BufferError('Existing exports of data: object cannot be re-sized')
        if self.reader is not None:
            rem = self.reader.remaining()
            n = rem.length()
            if not (isinstance(n, int) and n == 0):
                raise Unsupported('BytesIO.write with the cursor before the end')
            self.reader = None
        self.content = self.content + value
        return value.length()

    def read(self, n=None):
        if self.reader is None:
            return SBytes()
        return self.reader.take(self.I, n)

    def seek(self, pos, whence=0):
        if pos != 0 or whence != 0:
            raise Unsupported('BytesIO.seek other than seek(0)')
        self.reader = ByteReader(self.content)
        return 0

    def getvalue(self):
        return self.content

    def remaining(self):
        return SBytes() if self.reader is None else self.reader.remaining()


class GhostLock(object):
    """Model of threading.RLock: re-entrant depth counter (mutual exclusion assumed)."""

    def __init__(self):
        self.depth = 0
        self.max_depth = 0

    def __enter__(self):
        self.depth += 1
        self.max_depth = max(self.max_depth, self.depth)
        return self

    def __exit__(self, *a):
        self.depth -= 1
        return False

    def acquire(self, *a, **k):
        self.__enter__()
        return True

    def release(self):
        self.__exit__()


class AbstractSeq(object):
    """Base of abstract containers of symbolic length: usable only through a loop contract.  Any other traversal
    (a comprehension, list(), len() ...) is outside what the contracts cover: the obligation is UNDECIDED, never a
    program error."""

    def __iter__(self):
        raise Unsupported('%s traversed outside a loop contract' % type(self).__name__)

    def __len__(self):
        raise Unsupported('len() of %s outside a loop contract' % type(self).__name__)

    def __getitem__(self, k):
        raise Unsupported('indexing %s outside a loop contract' % type(self).__name__)
